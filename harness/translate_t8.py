"""T8: a Python -> Lean translator for the circuit (de)serialisation module orquestra/quantum/circuits/_serde.py.

On every run it re-reads the source of `_serde.py` (and, for the `name` property of the five gate dataclasses and for
`gate_is_parametric`, of `_gates.py`) with `ast` and writes `lean/OQ/Generated/TranslatedC05.lean`.  It is built ON TOP of the class
translator T1 (harness/translate_cls.py): the gates are T1's generated inductive `TranslatedGates.Gate P F E`, the constructor calls
`_gates.ControlledGate(…)` / `Power(…)` / `Exponential(…)` / `Dagger(…)` go through T1's `mk_<Class>` (= `__post_init__`),
`gate.params` / `gate.free_symbols` are T1's members; `Ctx8` below SUBCLASSES T1's body translator `Ctx` (A-normal form, every call that
can raise bound with `Except.bind` in Python's evaluation order).

What is generated
  * `CONTROLLED_GATE_NAME` … : the module-level str constants of `_gates.py` that the translated bodies mention.
  * `gate_name` : the property `name` of the five gate classes as ONE function by cases on the class (T1 machinery, member `name`
    added: field of `MatrixFactoryGate`, constants, `+` on str, the f-string of `Power.name` with `f"{self.exponent}"` an external).
  * `GateOperation P F E` : the dataclass `_gates.GateOperation` as a structure, fields read from the class source.
  * `Ext` : the externals as ONE record of parameters (see EXT below: sympy / str of expressions, the lookup namespace of
    `_builtin_gates`, calling an opaque `gate_ref`, `CustomGateDefinition` objects, `Circuit` objects, T1's `Ext`).
  * `to_dict_gate` : the overloads of the `@singledispatch` function `to_dict` REGISTERED for gate classes (read from the
    `@to_dict.register` decorations and the annotation of the first parameter) as ONE function by cases on the class; a gate class
    without overload gets the body of the base function (`raise NotImplementedError`).  A call `to_dict(e)` is resolved by the Lean
    type of `e` (gate → `to_dict_gate`, `GateOperation` / `CustomGateDefinition` / `Circuit` / list of circuits → that overload).
    The recursion `to_dict(gate.wrapped_gate)` must be on a gate-valued field of the receiver (structural), else TranslateError.
  * one definition per other function (leading underscores dropped): `gate_operation_to_dict`, `custom_gate_def_to_dict`,
    `circuit_to_dict`, `circuitset_to_dict`, `builtin_gate_by_name`, `gate_is_parametric` (from `_gates.py`),
    `builtin_gate_from_dict`, `special_gate_from_dict`, `custom_gate_instance_from_dict`, `gate_from_dict`,
    `gate_operation_from_dict`, `custom_gate_def_from_dict`, `circuit_from_dict`, `circuitset_from_dict`, `map_eager`.
  * RECURSION of the readers (`_gate_from_dict` → `_special_gate_from_dict` → `_gate_from_dict` on `dict_["wrapped_gate"]`, which no
    structural order sees): the strongly connected components of the call graph are computed from the source; the member that is
    called from outside (the entry) gets an explicit recursion budget `fuel : Nat` (Python: the interpreter's recursion limit;
    exhausted = `RecursionError`), is defined by structural recursion on it, and hands `entry fuel` to the other members of the
    component as a parameter `rec_<entry>`; every function that (transitively) calls the entry takes `fuel` as its first argument.
    The tie theorems prove that any budget above the nesting depth of the dictionary is sufficient.
  * definitions are emitted callees first (`ensure`: a call met while a body is translated translates the callee before; a call of a
    function that is being translated, other than through the component rule above, is a TranslateError).

Supported subset of a body (anything else raises TranslateError; the definition – and every definition that calls it – is then written
as a comment, so the tie theorems that mention it fail to build: the intended signal):
  statements : as T1 (docstring, `return`, `raise Exc(...)`, `if`/`elif`/`else` with fall-through, `x = e`), plus
               `try: return e / except KeyError: pass` (a KeyError of `e` falls through to the following statements),
               `if x is None: raise …` on an optional value (the rest sees `x` unwrapped); the arguments of the f-string message of
               a `raise` are evaluated for their exceptions (`f"… {dict_['name']} …"` can raise KeyError first).
  expressions: as T1, plus dict literals with str keys and `**(D1 if c else D2)` spreads (→ `JV.obj` of the concatenated entries;
               typed values are injected by their type), `d[k]`, `d.get(k)`, `d.get(k, default)` on a JSON value, `==` on str,
               `s.endswith(t)`, `t in s` on str, truthiness of a list / of `d.get(k)`, `not`, `a or b` with `a = d.get(k)`,
               list comprehensions / `list(map(f, xs))` whose element can raise (→ `mapE`, left to right, stops at the first exception),
               `next((a for a in xs if c), None)` (→ `nextE`, the condition evaluated lazily), `sorted(map(str, symbols))`,
               `tuple(…)` / `list(…)`, calls of the other translated functions, of the EXTERNALS, `f(*[…])` on an opaque callable,
               keyword arguments of the external constructors in call order.
  typing     : Python is untyped; the parameter / result types are declared in FUNCS, the attributes of opaque objects in ATTRS.  A JSON
               value used where a typed value is needed is read with `asStr` / `asInt` / `asNum` / `asList` / … at that point; a value
               of another JSON type is `Err.IllTyped` (Python would go on by duck typing: outside the translated domain, stated in the
               tie theorems' docstrings).
Trusted: this typing, the prelude `OQ/Exec/PyT8.lean` (compared with CPython on every run), T1's trusted base.  The rendering is CHECKED
on every run against the real functions (harness/translated_check_t8.py)."""
import ast
import inspect

from . import translate_cls as tc
from .translate import TranslateError

GATE = tc.GATE
J, OPTJ, KV = "J", "Option J", "KV"

# ---------------------------------------------------------------------------------------------------------------- declared typing
# Python function -> (module, lean name, parameter types, result type)
FUNCS = {
    "builtin_gate_by_name": ("serde", "builtin_gate_by_name", ["String"], "Option R"),
    "gate_is_parametric": ("gates", "gate_is_parametric", ["R", OPTJ], "Bool"),
    "_map_eager": ("serde", "map_eager", None, None),
    "_gate_operation_to_dict": ("serde", "gate_operation_to_dict", ["Op"], J),
    "_custom_gate_def_to_dict": ("serde", "custom_gate_def_to_dict", ["D"], J),
    "_circuit_to_dict": ("serde", "circuit_to_dict", ["Ci"], J),
    "_circuitset_to_dict": ("serde", "circuitset_to_dict", ["List Ci"], J),
    "_builtin_gate_from_dict": ("serde", "builtin_gate_from_dict", [J], GATE),
    "_special_gate_from_dict": ("serde", "special_gate_from_dict", [J, "List D"], GATE),
    "_custom_gate_instance_from_dict": ("serde", "custom_gate_instance_from_dict", [J, "List D"], GATE),
    "_gate_from_dict": ("serde", "gate_from_dict", [J, "List D"], GATE),
    "_gate_operation_from_dict": ("serde", "gate_operation_from_dict", [J, "List D"], "Op"),
    "custom_gate_def_from_dict": ("serde", "custom_gate_def_from_dict", [J], "D"),
    "circuit_from_dict": ("serde", "circuit_from_dict", [J], "Ci"),
    "circuitset_from_dict": ("serde", "circuitset_from_dict", [J], "List Ci"),
}
DISPATCH = "to_dict"             # the @singledispatch function
FAMILY = "to_dict_gate"          # its overloads on gate classes, as one definition
# class named in a `register` -> Lean type of the argument (gate classes are found in T1's class table)
REGISTER_TYPES = {"Circuit": "Ci", "list": "List Ci", "GateOperation": "Op", "CustomGateDefinition": "D"}
# externals: field of `Ext` -> (argument types, result type, can raise, what it stands for)
EXT = {
    "format_exponent": (["E"], "String", False, 'f"{self.exponent}" in Power.name'),
    "serialize_expr": (["P"], "String", False, "serialize_expr = str on a gate parameter"),
    "serialize_symbol": (["S"], "String", False, "serialize_expr / str on a sympy.Symbol"),
    "deserialize_expr": (["String", "List String"], "P", True, "deserialize_expr (sympy.sympify with the symbol table)"),
    "matrix_to_json": (["Mx"], "List (List String)", False, "_matrix_to_json"),
    "matrix_from_json": (["List (List String)", "List String"], "Mx", True, "_matrix_from_json"),
    "Symbol": (["String"], "S", False, "sympy.Symbol"),
    "builtin_gates_builtin_gate_by_name": (["String"], "Option R", True, "_builtin_gates.builtin_gate_by_name = globals()[name]"),
    "call_gate_ref": (["R", "List P"], GATE, True, "gate_ref(*params) on the opaque looked-up object"),
    "gate_ref_as_gate": (["R"], GATE, True, "`return gate_ref`: the looked-up object used as the gate (NotAGate when it is none)"),
    "def_gate_name": (["D"], "String", False, "CustomGateDefinition.gate_name"),
    "def_matrix": (["D"], "Mx", False, "CustomGateDefinition.matrix"),
    "def_params_ordering": (["D"], "List S", False, "CustomGateDefinition.params_ordering"),
    "CustomGateDefinition": (["String", "Mx", "List S"], "D", True, "CustomGateDefinition(...) incl. __post_init__"),
    "call_gate_def": (["D", "List P"], GATE, False, "CustomGateDefinition.__call__(*params)"),
    "circuit_n_qubits": (["Ci"], "Int", False, "Circuit.n_qubits"),
    "circuit_operations": (["Ci"], "List Op", False, "Circuit.operations"),
    "collect_custom_gate_definitions": (["Ci"], "List D", True, "Circuit.collect_custom_gate_definitions()"),
    "Circuit": (["List Op", "Int"], "Ci", True, "Circuit(operations=…, n_qubits=…)"),
}
ATTRS = {"D": {"gate_name": "def_gate_name", "matrix": "def_matrix", "params_ordering": "def_params_ordering"},
         "Ci": {"n_qubits": "circuit_n_qubits", "operations": "circuit_operations"}}
METHODS = {"Ci": {"collect_custom_gate_definitions": "collect_custom_gate_definitions"}}
KWARGS = {"CustomGateDefinition": ["gate_name", "matrix", "params_ordering"], "Circuit": ["operations", "n_qubits"]}
ERRS = ["KeyError", "ValueError", "TypeError", "NotImplementedError"]
MODULE_ALIASES = {"_gates", "_circuit", "_builtin_gates", "sympy"}
MEMBERS8 = dict(tc.MEMBERS, name=("property", [], "String"))

LEAN_TYPES = {J: "JV E", OPTJ: "Option (JV E)", KV: "List (String × JV E)", GATE: "TranslatedGates.Gate P F E", "Op": "GateOperation P F E"}


def lt(t):
    """Lean rendering of a declared type"""
    if t in LEAN_TYPES:
        return LEAN_TYPES[t]
    if t.startswith("List "):
        return "List " + tc.paren(lt(t[5:].strip("()") if t[5] == "(" else t[5:]))
    if t.startswith("Option "):
        return "Option " + tc.paren(lt(t[7:]))
    return t


# JSON value -> typed value (effectful), typed value -> JSON value (pure)
READ = {"String": "asStr", "Int": "asInt", "E": "asNum", "List J": "asList", "List String": "asStrs", "List Int": "asInts",
        "List (List String)": "asStrss"}
INJECT = {"String": "JV.str {}", "Int": "JV.int {}", "E": "JV.num {}", J: "{}", "List J": "JV.arr {}",
          "List String": "JV.arr (List.map JV.str {})", "List Int": "JV.arr (List.map JV.int {})",
          "List (List String)": "JV.arr (List.map (fun row => JV.arr (List.map JV.str row)) {})"}


class Ctx8(tc.Ctx):
    """T1's body translator + the forms of `_serde.py` (module docstring)"""

    # ------------------------------------------------------------------ plumbing
    def child(self, extra_env=None):
        c = Ctx8(self.tr, self.fname, self.cname, self.self_term, self.field_terms, {**self.env, **(extra_env or {})}, self.in_init)
        c.parent = self
        c.uses_fuel = False
        return c

    def absorb(self, c):
        super().absorb(c)
        self.uses_fuel = getattr(self, "uses_fuel", False) or getattr(c, "uses_fuel", False)

    def bind(self, term, typ, **kw):
        v = self.tr.fresh()
        self.binds.append((v, term))
        return tc.Val(v, typ, **kw)

    def call(self, n, fn, args, ret, recv=None):
        """a call of a T1 definition (mk_<Class>, members) or of the member `name`"""
        tr = self.tr
        if fn in tr.failed:
            raise self.err(n, f"uses `{fn}`, which is not translatable ({tr.failed[fn]})")
        if fn == self.fname and not self.in_init:
            if recv is None or not recv.structural:
                raise self.err(n, f"recursive call of `{fn}` on something other than self.<gate field>: not structurally recursive")
        else:
            self.calls.add(fn)
        if fn == "name":
            lean = "gate_name"
            if tr.needs_ext.get(fn):
                self.uses_ext = True
                lean += " x"
        else:
            lean = "TranslatedGates." + (fn if fn.startswith("mk_") else "Gate." + fn)
            if tr.needs_ext.get(fn):
                self.uses_ext = True
                lean += " x.gx"
        term = " ".join([lean] + [tc.paren(a.term) for a in args])
        if tr.raises.get(fn):
            return self.bind(f"liftG ({term})", ret)
        return tc.Val(term, ret)

    def read(self, n, v, want):
        """use the value v where a value of type `want` is needed"""
        if v.typ == want:
            return v
        if v.typ == J and want in READ:
            return self.bind(f"{READ[want]} {tc.paren(v.term)}", want)
        if want == J and v.typ in INJECT:
            return tc.Val(INJECT[v.typ].format(tc.paren(v.term)), J)
        if v.typ == "R" and want == GATE:
            return self.call_ext(n, "gate_ref_as_gate", [v])      # the opaque looked-up object returned as the gate
        if v.typ == "Prop" and want == "Bool":
            return tc.Val(f"decide {tc.paren(v.term)}", "Bool")
        raise self.err(n, f"a value of type {v.typ} where {want} is needed")

    def const(self, n, name):
        c = self.tr.gate_consts
        if name not in c:
            raise self.err(n, f"`{name}` is not a module-level str constant of _gates.py")
        self.tr.used_consts.add(name)
        return tc.Val(name, "String")

    # ------------------------------------------------------------------ expressions
    def e(self, n):
        if isinstance(n, ast.Name) and n.id not in self.env and n.id != "self" and n.id in self.tr.gate_consts \
                and self.tr.in_gates_module:
            return self.const(n, n.id)
        if isinstance(n, ast.Attribute):
            if isinstance(n.value, ast.Name) and n.value.id == "_gates" and n.value.id not in self.env:
                return self.const(n, n.attr)
            r = self.e(n.value)
            if r.typ == "Op":
                for fname, ftyp in self.tr.op_fields:
                    if fname == n.attr:
                        return tc.Val(f"{tc.paren(r.term)}.{fname}", ftyp, structural=False)
                raise self.err(n, f"GateOperation has no field `{n.attr}`")
            if r.typ in ATTRS:
                if n.attr not in ATTRS[r.typ]:
                    raise self.err(n, f"attribute `{n.attr}` of an opaque {r.typ} is not declared")
                ext = ATTRS[r.typ][n.attr]
                self.uses_ext = True
                return tc.Val(f"x.{ext} {tc.paren(r.term)}", EXT[ext][1])
            if r.typ != GATE:
                raise self.err(n, f"attribute of a value of type {r.typ}")
            return self.member(n, r, n.attr, None)
        if isinstance(n, ast.BinOp) and isinstance(n.op, ast.Add):
            k = len(self.binds)
            a, b = self.e(n.left), self.e(n.right)
            if a.typ == "String" and b.typ == "String":
                return tc.Val(f"({a.term} ++ {b.term})", "String")
            if len(self.binds) != k or a.typ != "Int" or b.typ != "Int":
                raise self.err(n, "`+` outside ints / strs")
            return tc.Val(f"({a.term} + {b.term})", "Int")
        if isinstance(n, ast.JoinedStr):
            parts = []
            for p in n.values:
                if isinstance(p, ast.Constant):
                    parts.append(self.e(p).term)
                elif isinstance(p, ast.FormattedValue) and p.conversion == -1 and p.format_spec is None:
                    v = self.e(p.value)
                    if v.typ == "String":
                        parts.append(tc.paren(v.term))
                    elif v.typ == "E":
                        self.uses_ext = True
                        parts.append(f"x.format_exponent {tc.paren(v.term)}")
                    else:
                        raise self.err(n, f"f-string field of type {v.typ}")
                else:
                    raise self.err(n, "f-string with a conversion / format spec")
            return tc.Val("(" + " ++ ".join(parts or ['""']) + ")", "String")
        if isinstance(n, ast.Subscript):
            d = self.e(n.value)
            k = n.slice
            if d.typ != J or not (isinstance(k, ast.Constant) and isinstance(k.value, str)):
                raise self.err(n, "subscript other than <JSON dict>[<str constant>]")
            return self.bind(f"getItem {tc.paren(d.term)} {self.e(k).term}", J)
        if isinstance(n, ast.Dict):
            return tc.Val(f"JV.obj {tc.paren(self.entries(n).term)}", J)
        if isinstance(n, ast.List) and not n.elts:
            return tc.Val("JV.arr []", J)
        if isinstance(n, ast.Compare) and len(n.ops) == 1:
            op, rhs = n.ops[0], n.comparators[0]
            if isinstance(op, (ast.Is, ast.IsNot)) and isinstance(rhs, ast.Constant) and rhs.value is None:
                a = self.e(n.left)
                if not a.typ.startswith("Option "):
                    raise self.err(n, f"`is None` on a value of type {a.typ} (never None in the declared typing)")
                return tc.Val(f"({tc.paren(a.term)}.isNone = {'true' if isinstance(op, ast.Is) else 'false'})", "Prop")
            if isinstance(op, (ast.Eq, ast.NotEq, ast.In, ast.NotIn)):
                k = len(self.binds)
                a = self.e(n.left)
                k1 = len(self.binds)
                b = self.e(rhs)
                if "String" in (a.typ, b.typ) and {a.typ, b.typ} <= {"String", J}:
                    # a JSON value compared with / searched by a str: read as a str first (in evaluation order)
                    if a.typ == J:
                        if len(self.binds) != k1:
                            raise self.err(n, "comparison whose right operand can raise after the left one is read")
                        a = self.read(n, a, "String")
                    if b.typ == J:
                        b = self.read(n, b, "String")
                    if isinstance(op, (ast.Eq, ast.NotEq)):
                        return tc.Val(f"({a.term} {'=' if isinstance(op, ast.Eq) else '≠'} {b.term})", "Prop")
                    t = f"(strIn {tc.paren(a.term)} {tc.paren(b.term)} = {'true' if isinstance(op, ast.In) else 'false'})"
                    return tc.Val(t, "Prop")
                if a.typ == "Int" and b.typ == "Int" and isinstance(op, (ast.Eq, ast.NotEq)):
                    return tc.Val(f"({a.term} {'=' if isinstance(op, ast.Eq) else '≠'} {b.term})", "Prop")
                raise self.err(n, f"`==` / `in` between values of types {a.typ} and {b.typ}")
        if isinstance(n, ast.UnaryOp) and isinstance(n.op, ast.Not):
            a = self.e(n.operand)
            return tc.Val(f"(¬ {self.cond(n.operand, a)})", "Prop")
        if isinstance(n, ast.BoolOp) and isinstance(n.op, ast.Or) and len(n.values) == 2:
            a = self.e(n.values[0])
            if a.typ == OPTJ:
                # `d.get(k) or e`: the first operand when it is truthy, else the second (evaluated only then)
                t = self.bind(f"truthyOpt {tc.paren(a.term)}", "Bool")
                ca, cb = self.child(), self.child()
                b = cb.e(n.values[1])
                av = ca.read(n, ca.bind(f"optGet {tc.paren(a.term)}", J), b.typ)
                self.absorb(ca)
                self.absorb(cb)
                ta, _ = tc.seal(ca.binds, av.term, False)
                tb, eb = tc.seal(cb.binds, b.term, False)
                ta = ta if ca.binds else f"Except.ok {tc.paren(ta)}"
                tb = tb if eb else f"Except.ok {tc.paren(tb)}"
                return self.bind(f"if {t.term} = true then {ta} else {tb}", b.typ)
        return super().e(n)

    def cond(self, n, v):
        if v.typ.startswith("List "):
            return f"({tc.paren(v.term)}.isEmpty = false)"
        if v.typ == OPTJ:
            t = self.bind(f"truthyOpt {tc.paren(v.term)}", "Bool")
            return f"{t.term} = true"
        return super().cond(n, v)

    def entries(self, n):
        """the (key, value) list of a dict display, or of `D1 if c else D2` with such displays -> Val of type KV"""
        if isinstance(n, ast.Dict):
            parts, single = [], []
            for k, v in zip(n.keys, n.values):
                if k is None:
                    if single:
                        parts.append("[" + ", ".join(single) + "]")
                        single = []
                    parts.append(self.entries(v).term)
                    continue
                if not (isinstance(k, ast.Constant) and isinstance(k.value, str)):
                    raise self.err(n, "dict display with a key that is not a str constant")
                val = self.read(v, self.e(v), J)
                single.append(f"({self.e(k).term}, {val.term})")
            if single or not parts:
                parts.append("[" + ", ".join(single) + "]")
            return tc.Val(parts[0] if len(parts) == 1 else "(" + " ++ ".join(parts) + ")", KV)
        if isinstance(n, ast.IfExp):
            c = self.cond(n.test, self.e(n.test))
            ca, cb = self.child(), self.child()
            a, b = ca.entries(n.body), cb.entries(n.orelse)
            self.absorb(ca)
            self.absorb(cb)
            ta, ea = tc.seal(ca.binds, a.term, False)
            tb, eb = tc.seal(cb.binds, b.term, False)
            if ea or eb:
                ta = ta if ea else f"Except.ok {tc.paren(ta)}"
                tb = tb if eb else f"Except.ok {tc.paren(tb)}"
                return self.bind(f"if {c} then {ta} else {tb}", KV)
            return tc.Val(f"(if {c} then {ta} else {tb})", KV)
        raise self.err(n, "`**` of something other than a dict display / a conditional between dict displays")

    # ------------------------------------------------------------------ calls
    def fn_value(self, n, f, elem_typ, pure_ok=False):
        """a function-valued argument `f`, applied to an element of type elem_typ -> (lambda term returning Except, result type)"""
        var = self.tr.fresh()
        c = self.child({"__elem__": tc.Val(var, elem_typ)})
        call = ast.Call(func=f, args=[ast.Name(id="__elem__", ctx=ast.Load())], keywords=[])
        ast.copy_location(call, n)
        ast.fix_missing_locations(call)
        v = c.e(call)
        self.absorb(c)
        t, eff = tc.seal(c.binds, v.term, False)
        if pure_ok and not eff:
            return f"(fun {var} => {t})", v.typ, False
        return f"(fun {var} => {t if eff else f'Except.ok {tc.paren(t)}'})", v.typ, True

    def map_over(self, n, fn_term, xs, ret_elem):
        return self.bind(f"mapE {fn_term} {tc.paren(xs.term)}", "List " + (ret_elem if " " not in ret_elem else f"({ret_elem})"))

    def as_list(self, n, xs):
        if xs.typ == J:
            xs = self.read(n, xs, "List J")
        if not xs.typ.startswith("List "):
            raise self.err(n, f"iteration over a value of type {xs.typ}")
        et = xs.typ[5:]
        return xs, (et[1:-1] if et.startswith("(") else et)

    def comprehension(self, n):
        if len(n.generators) != 1:
            raise self.err(n, "comprehension with several generators")
        g = n.generators[0]
        if g.ifs or g.is_async or not isinstance(g.target, ast.Name):
            raise self.err(n, "comprehension with a condition / tuple target")
        xs, et = self.as_list(n, self.e(g.iter))
        var = tc.lname(g.target.id)
        c = self.child({g.target.id: tc.Val(var, et)})
        v = c.e(n.elt)
        self.absorb(c)
        if not c.binds:
            return tc.Val(f"List.map (fun {var} => {v.term}) {tc.paren(xs.term)}", "List " + (v.typ if " " not in v.typ else f"({v.typ})"))
        t, _ = tc.seal(c.binds, v.term, False)
        return self.map_over(n, f"(fun {var} => {t})", xs, v.typ)

    def call_fn(self, n, pyname, args):
        """a call of one of the translated module-level functions"""
        tr = self.tr
        mod, lean, argts, ret = FUNCS[pyname]
        if pyname in tr.failed:
            raise self.err(n, f"uses `{pyname}`, which is not translatable ({tr.failed[pyname]})")
        if len(args) != len(argts):
            raise self.err(n, f"`{pyname}` takes {len(argts)} argument(s)")
        args = [self.read(n, a, t) for a, t in zip(args, argts)]
        self.uses_ext = True
        if pyname in tr.scc_of.get(self.fname, ()) and pyname == tr.entry_of.get(self.fname) and self.fname != pyname:
            head = f"rec_{lean}"          # inside the component: the entry comes in as a parameter
        elif pyname == self.fname:
            head = f"{lean} x fuel"        # the entry calling itself: on the smaller budget
            self.uses_fuel = True
        else:
            tr.ensure(pyname)
            if pyname in tr.failed:
                raise self.err(n, f"uses `{pyname}`, which is not translatable ({tr.failed[pyname]})")
            self.calls.add(pyname)
            head = f"{lean} x"
            if pyname in tr.needs_fuel:
                head += " fuel"
                self.uses_fuel = True
            if pyname in tr.scc_of and pyname != tr.entry_of[pyname]:
                e = FUNCS[tr.entry_of[pyname]][1]
                head += f" ({e} x fuel)" if self.fname == tr.entry_of[pyname] else f" rec_{e}"
                self.uses_fuel = True
        return self.bind(" ".join([head] + [tc.paren(a.term) for a in args]), ret)

    def call_ext(self, n, ext, args):
        argts, ret, raises, _ = EXT[ext]
        if len(args) != len(argts):
            raise self.err(n, f"external `{ext}` takes {len(argts)} argument(s)")
        args = [self.read(n, a, t) for a, t in zip(args, argts)]
        self.uses_ext = True
        term = " ".join([f"x.{ext}"] + [tc.paren(a.term) for a in args])
        return self.bind(term, ret) if raises else tc.Val(term, ret)

    def dispatch(self, n, a):
        """to_dict(a): the overload registered for the (Lean) type of a"""
        tr = self.tr
        if a.typ == GATE:
            if self.fname != FAMILY:
                tr.ensure(FAMILY)
            if FAMILY in tr.failed:
                raise self.err(n, f"uses `{FAMILY}`, which is not translatable ({tr.failed[FAMILY]})")
            if self.fname == FAMILY:
                if not a.structural:
                    raise self.err(n, "recursive call of `to_dict` on something other than <gate>.<gate field>: not structurally recursive")
            else:
                self.calls.add(FAMILY)
            self.uses_ext = True
            return self.bind(f"{FAMILY} x {tc.paren(a.term)}", J)
        for pyname, t in tr.registered.items():
            if t == a.typ:
                return self.call_fn(n, pyname, [a])
        raise self.err(n, f"`to_dict` of a value of type {a.typ}: no overload registered (Python: NotImplementedError)")

    def callexpr(self, n):
        tr = self.tr
        f = n.func
        kws = [(k.arg, k.value) for k in n.keywords]
        if any(k is None for k, _ in kws):
            raise self.err(n, "** arguments")
        star = [a for a in n.args if isinstance(a, ast.Starred)]
        # ---- f(*[...]) on an opaque callable
        if star:
            if len(n.args) != 1 or kws or not isinstance(f, ast.Name) or f.id not in self.env:
                raise self.err(n, "* arguments outside `<local callable>(*[…])`")
            r = self.env[f.id]
            ext = {"R": "call_gate_ref", "D": "call_gate_def"}.get(r.typ)
            if ext is None:
                raise self.err(n, f"call of a local value of type {r.typ}")
            return self.call_ext(n, ext, [r, self.e(star[0].value)])
        # ---- qualified names: _gates.X(...), _circuit.Circuit(...), _builtin_gates.f(...), sympy.Symbol(...)
        if isinstance(f, ast.Attribute) and isinstance(f.value, ast.Name) and f.value.id in MODULE_ALIASES and f.value.id not in self.env:
            m, name = f.value.id, f.attr
            if m == "_gates" and name in tr.mod.fields:
                return self.construct(n, name, [(None, a) for a in n.args] + kws, {})
            if m == "_gates" and name == "GateOperation":
                return self.construct_op(n, [(None, a) for a in n.args] + kws)
            if m == "_gates" and name in FUNCS and FUNCS[name][0] == "gates" and not kws:
                return self.call_fn(n, name, [self.e(a) for a in n.args])
            ext = {("_gates", "CustomGateDefinition"): "CustomGateDefinition", ("_circuit", "Circuit"): "Circuit",
                   ("sympy", "Symbol"): "Symbol", ("_builtin_gates", "builtin_gate_by_name"): "builtin_gates_builtin_gate_by_name"}.get((m, name))
            if ext is None:
                raise self.err(n, f"`{m}.{name}` is not a declared external")
            given = [(None, a) for a in n.args] + kws
            if any(k for k, _ in given):
                order = KWARGS.get(ext)
                if order is None or any(k is None for k, _ in given) or sorted(k for k, _ in given) != sorted(order):
                    raise self.err(n, f"keyword arguments of `{name}` other than exactly {order}")
                vals = {k: self.e(a) for k, a in given}          # evaluated in call order
                # a JSON value must be read at the point of the call (after all arguments are evaluated)
                return self.call_ext(n, ext, [vals[k] for k in order])
            return self.call_ext(n, ext, [self.e(a) for _, a in given])
        # ---- methods
        if isinstance(f, ast.Attribute):
            r = self.e(f.value)
            if r.typ == J and f.attr == "get" and not kws and len(n.args) in (1, 2) \
                    and isinstance(n.args[0], ast.Constant) and isinstance(n.args[0].value, str):
                k = self.e(n.args[0]).term
                if len(n.args) == 1:
                    return self.bind(f"getOpt {tc.paren(r.term)} {k}", OPTJ)
                d = self.read(n, self.e(n.args[1]), J)
                return self.bind(f"getD {tc.paren(r.term)} {k} {tc.paren(d.term)}", J)
            if f.attr == "endswith" and not kws and len(n.args) == 1 and r.typ in (J, "String"):
                s = self.read(n, r, "String")
                t = self.read(n, self.e(n.args[0]), "String")
                return tc.Val(f"(endswith {tc.paren(s.term)} {tc.paren(t.term)} = true)", "Prop")
            if r.typ in METHODS and f.attr in METHODS[r.typ] and not kws:
                return self.call_ext(n, METHODS[r.typ][f.attr], [r] + [self.e(a) for a in n.args])
            if r.typ != GATE:
                raise self.err(n, f"method `{f.attr}` on a value of type {r.typ}")
            if kws:
                raise self.err(n, "keyword arguments in a method call")
            return self.member(n, r, f.attr, [self.e(a) for a in n.args])
        if not isinstance(f, ast.Name):
            raise self.err(n, "call of a computed function")
        if f.id in self.env:
            raise self.err(n, "call of a local value without *")
        if kws:
            return super().callexpr(n)
        # ---- the module's own functions, the dispatcher, externals, built-ins
        if f.id == DISPATCH and len(n.args) == 1:
            return self.dispatch(n, self.e(n.args[0]))
        if f.id == "_map_eager" and len(n.args) == 2 and "_map_eager" in tr.serde_defs:
            tr.ensure("_map_eager")
            if "_map_eager" in tr.failed:
                raise self.err(n, "uses `_map_eager`, which is not translatable")
            self.calls.add("_map_eager")
            xs, et = self.as_list(n, self.e(n.args[1]))
            fn_term, rt, _ = self.fn_value(n, n.args[0], et)
            return self.bind(f"map_eager {fn_term} {tc.paren(xs.term)}", "List " + (rt if " " not in rt else f"({rt})"))
        if f.id in FUNCS and f.id in (tr.serde_defs if FUNCS[f.id][0] == "serde" else ()):
            return self.call_fn(n, f.id, [self.e(a) for a in n.args])
        if f.id in ("serialize_expr", "str") and len(n.args) == 1:
            a = self.e(n.args[0])
            ext = {"P": "serialize_expr", "S": "serialize_symbol"}.get(a.typ)
            if ext is None:
                raise self.err(n, f"`{f.id}` of a value of type {a.typ}")
            return self.call_ext(n, ext, [a])
        if f.id == "deserialize_expr" and len(n.args) == 2:
            return self.call_ext(n, "deserialize_expr", [self.e(a) for a in n.args])
        if f.id == "_matrix_to_json" and len(n.args) == 1:
            return self.call_ext(n, "matrix_to_json", [self.e(n.args[0])])
        if f.id == "_matrix_from_json" and len(n.args) == 2:
            return self.call_ext(n, "matrix_from_json", [self.e(a) for a in n.args])
        if f.id in ("tuple", "list") and len(n.args) == 1:
            a = self.e(n.args[0])
            if isinstance(n.args[0], ast.Call) and isinstance(n.args[0].func, ast.Name) and n.args[0].func.id == "map":
                return a
            if a.typ == J or a.typ.startswith("List "):
                return a          # a JSON list stays a JSON value until it is used at a type
            raise self.err(n, f"{f.id}() of a value of type {a.typ}")
        if f.id == "map" and len(n.args) == 2:
            xs, et = self.as_list(n, self.e(n.args[1]))
            fn_term, rt, eff = self.fn_value(n, n.args[0], et, pure_ok=True)
            if not eff:
                return tc.Val(f"List.map {fn_term} {tc.paren(xs.term)}", "List " + (rt if " " not in rt else f"({rt})"))
            return self.map_over(n, fn_term, xs, rt)
        if f.id == "sorted" and len(n.args) == 1:
            a = self.e(n.args[0])
            if a.typ != "List String":
                raise self.err(n, f"sorted() of a value of type {a.typ}")
            return tc.Val(f"sortedStr {tc.paren(a.term)}", "List String")
        if f.id == "next" and len(n.args) == 2 and isinstance(n.args[1], ast.Constant) and n.args[1].value is None \
                and isinstance(n.args[0], ast.GeneratorExp):
            g = n.args[0]
            if len(g.generators) != 1 or len(g.generators[0].ifs) != 1 or not isinstance(g.generators[0].target, ast.Name) \
                    or not (isinstance(g.elt, ast.Name) and g.elt.id == g.generators[0].target.id):
                raise self.err(n, "next() of something other than `(a for a in xs if c)`")
            xs, et = self.as_list(n, self.e(g.generators[0].iter))
            var = tc.lname(g.generators[0].target.id)
            c = self.child({g.generators[0].target.id: tc.Val(var, et)})
            test = g.generators[0].ifs[0]
            p = c.cond(test, c.e(test))
            self.absorb(c)
            t, _ = tc.seal(c.binds, f"decide {p}", False)
            t = t if c.binds else f"Except.ok {tc.paren(t)}"
            return self.bind(f"nextE (fun {var} => {t}) {tc.paren(xs.term)}", f"Option {et}")
        return super().callexpr(n)

    def construct_op(self, n, given):
        fields = self.tr.op_fields
        vals, pos = {}, 0
        for kw, a in given:
            name = kw
            if kw is None:
                if pos >= len(fields):
                    raise self.err(n, "too many positional arguments for GateOperation")
                name = fields[pos][0]
                pos += 1
            if name in vals or name not in [f for f, _ in fields]:
                raise self.err(n, f"GateOperation field `{name}`")
            vals[name] = self.e(a)
        if len(vals) != len(fields):
            raise self.err(n, "GateOperation(...) without a value for every field")
        args = [self.read(n, vals[f], t) for f, t in fields]
        return tc.Val("GateOperation.mk " + " ".join(tc.paren(a.term) for a in args), "Op")

    def construct(self, n, cname, given, base):
        # JSON values given for typed dataclass fields are read at the point of the call, after all arguments are evaluated
        fields = {f[0]: f[1] for f in self.tr.mod.fields[cname]}
        order = [f[0] for f in self.tr.mod.fields[cname]]
        pos, named = 0, []
        for kw, a in given:
            if kw is None:
                if pos >= len(order):
                    raise self.err(n, f"too many positional arguments for {cname}")
                kw = order[pos]
                pos += 1
            if kw not in fields:
                raise self.err(n, f"{cname} has no field `{kw}`")
            named.append((kw, self.e(a)))
        reads = {}
        for kw, v in named:
            reads[kw] = self.read(n, v, fields[kw]) if v.typ == J and fields[kw] != J else v
        holders = [(kw, ast.Name(id=f"__arg_{kw}__", ctx=ast.Load())) for kw, _ in named]
        c_env = {f"__arg_{kw}__": reads[kw] for kw, _ in named}
        saved = dict(self.env)
        self.env.update(c_env)
        try:
            return super().construct(n, cname, holders, base)
        finally:
            self.env = saved

    # ------------------------------------------------------------------ statements
    def block(self, stmts, ret, fall):
        for i, s in enumerate(stmts):
            rest = stmts[i + 1:]
            if isinstance(s, ast.Try):
                ok = (len(s.body) == 1 and isinstance(s.body[0], ast.Return) and s.body[0].value is not None
                      and len(s.handlers) == 1 and isinstance(s.handlers[0].type, ast.Name) and s.handlers[0].type.id == "KeyError"
                      and s.handlers[0].name is None and all(isinstance(b, ast.Pass) for b in s.handlers[0].body)
                      and not s.orelse and not s.finalbody)
                if not ok:
                    raise self.err(s, "try statement other than `try: return e / except KeyError: pass`")
                ca = self.child()
                v = ca.e(s.body[0].value)
                v = ca.read(s, v, ret) if v.typ != ret else v
                self.absorb(ca)
                ta, ea = tc.seal(ca.binds, v.term, False)
                ta = ta if ea else f"Except.ok {tc.paren(ta)}"
                tb, eb = self.child_block(rest, ret, fall)
                tb = tb if eb else f"Except.ok {tc.paren(tb)}"
                return tc.seal(self.binds, f"exceptKeyError ({ta}) ({tb})", True)
            if isinstance(s, ast.If) and isinstance(s.test, ast.Compare) and len(s.test.ops) == 1 \
                    and isinstance(s.test.ops[0], ast.Is) and isinstance(s.test.left, ast.Name) \
                    and isinstance(s.test.comparators[0], ast.Constant) and s.test.comparators[0].value is None \
                    and s.test.left.id in self.env and self.env[s.test.left.id].typ.startswith("Option ") and not s.orelse \
                    and s.body and isinstance(s.body[-1], (ast.Raise, ast.Return)):
                name = s.test.left.id
                v = self.env[name]
                inner = v.typ[len("Option "):]
                ca = self.child()
                ta, ea = ca.block(s.body, ret, None)
                fresh = self.tr.fresh()
                cb = self.child({name: tc.Val(fresh, inner)})
                tb, eb = cb.block(rest, ret, fall)
                self.absorb(ca)
                self.absorb(cb)
                ta = ta if ea else f"Except.ok {tc.paren(ta)}"
                tb = tb if eb else f"Except.ok {tc.paren(tb)}"
                return tc.seal(self.binds, f"match {v.term} with | none => {ta} | some {fresh} => {tb}", True)
            if isinstance(s, ast.Raise):
                exc = s.exc.func if isinstance(s.exc, ast.Call) else s.exc
                if not isinstance(exc, ast.Name) or s.cause is not None or exc.id not in ERRS:
                    raise self.err(s, f"raise of something other than one of {ERRS}")
                if self.tr.in_gates_module:
                    self.tr.note_error(exc.id)
                if isinstance(s.exc, ast.Call):
                    for a in s.exc.args:          # the message is dropped, its exceptions are not
                        if isinstance(a, ast.JoinedStr):
                            for p in a.values:
                                if isinstance(p, ast.FormattedValue) and not isinstance(p.value, ast.Call):
                                    try:
                                        self.e(p.value)
                                    except TranslateError:
                                        if any(isinstance(q, (ast.Subscript, ast.Call)) for q in ast.walk(p.value)):
                                            raise
                        elif not isinstance(a, ast.Constant):
                            raise self.err(s, "exception argument other than a str constant / f-string")
                return tc.seal(self.binds, f"Except.error Err.{exc.id}", True)
            if isinstance(s, ast.Return) and s.value is not None and not self.in_init:
                v = self.e(s.value)
                if v.typ != ret:
                    v = self.read(s, v, ret)
                return tc.seal(self.binds, v.term, False)
            if isinstance(s, (ast.If, ast.Assign, ast.Pass, ast.Expr)):
                # T1's rule for this statement, then go on here (T1's block would go on with T1's own rules for the rest)
                if isinstance(s, ast.If):
                    c = self.cond(s.test, self.e(s.test))
                    ca, cb = self.child(), self.child()
                    ta, ea = ca.block(s.body, ret, lambda ca=ca: ca.child_block(rest, ret, fall))
                    tb, eb = cb.block(list(s.orelse) + rest, ret, fall)
                    self.absorb(ca)
                    self.absorb(cb)
                    if ea or eb:
                        ta = ta if ea else f"Except.ok {tc.paren(ta)}"
                        tb = tb if eb else f"Except.ok {tc.paren(tb)}"
                    return tc.seal(self.binds, f"if {c} then {ta} else {tb}", ea or eb)
                if isinstance(s, ast.Assign):
                    if len(s.targets) != 1 or not isinstance(s.targets[0], ast.Name):
                        raise self.err(s, "assignment to something other than one name")
                    self.env[s.targets[0].id] = self.e(s.value)
                    continue
                if isinstance(s, ast.Pass) or (isinstance(s.value, ast.Constant) and isinstance(s.value.value, str)):
                    continue
            raise self.err(s, f"statement form {type(s).__name__} is outside the translated subset")
        if fall is None:
            raise self.err(None, "control can fall off the end of the body (Python returns None)")
        t, e = fall()
        return tc.seal(self.binds, t, e)

    def member(self, n, r, attr, args):
        if attr in MEMBERS8 and attr not in tc.MEMBERS or attr in tc.MEMBERS:
            saved = tc.MEMBERS
            tc.MEMBERS = MEMBERS8
            try:
                return super().member(n, r, attr, args)
            finally:
                tc.MEMBERS = saved
        return super().member(n, r, attr, args)


class Translator8(tc.Translator):
    def __init__(self, gates_source, serde_source):
        super().__init__(gates_source)
        self.fns = self.fns + ["name"]
        self.raises["name"] = False
        self.needs_ext["name"] = False
        gtree = ast.parse(gates_source)
        self.gate_consts = {}
        for s in gtree.body:
            if isinstance(s, ast.Assign) and len(s.targets) == 1 and isinstance(s.targets[0], ast.Name) \
                    and isinstance(s.value, ast.Constant) and isinstance(s.value.value, str):
                self.gate_consts[s.targets[0].id] = s.value.value
        self.gates_defs = {s.name: s for s in gtree.body if isinstance(s, ast.FunctionDef)}
        self.used_consts = set()
        self.in_gates_module = True
        # GateOperation: a dataclass of _gates.py that is no gate class
        op = self.mod.all.get("GateOperation")
        self.op_fields = []
        if op is not None and tc._is_dataclass(op.node):
            types = {"gate": GATE, "qubit_indices": "List Int"}
            for name, ann, default in op.fields:
                if name not in types or default is not None:
                    self.op_fields = None
                    break
                self.op_fields.append((name, types[name]))
        else:
            self.op_fields = None
        stree = ast.parse(serde_source)
        self.serde_defs = {s.name: s for s in stree.body if isinstance(s, ast.FunctionDef)}
        self.serde_order = [s.name for s in stree.body if isinstance(s, ast.FunctionDef)]
        self._registry()
        self._callgraph()

    # ------------------------------------------------------------------ the singledispatch registry, from the decorations
    def _registry(self):
        self.base_fn, self.family, self.registered, self.registry_error = None, {}, {}, None
        for name in self.serde_order:
            fd = self.serde_defs[name]
            for d in fd.decorator_list:
                src = ast.unparse(d)
                if src == "singledispatch" and name == DISPATCH:
                    self.base_fn = fd
                elif src == f"{DISPATCH}.register" or src.startswith(f"{DISPATCH}.register("):
                    if isinstance(d, ast.Call):
                        cls = ast.unparse(d.args[0]) if len(d.args) == 1 and not d.keywords else None
                    else:
                        a = fd.args.args[0].annotation if fd.args.args else None
                        cls = ast.unparse(a) if a is not None else None
                    cls = (cls or "").split(".")[-1]
                    if cls in self.mod.fields:
                        if cls in self.family:
                            self.registry_error = f"two overloads of to_dict registered for {cls}"
                        self.family[cls] = fd
                    elif cls in REGISTER_TYPES and name in FUNCS:
                        self.registered[name] = REGISTER_TYPES[cls]
                    else:
                        self.registry_error = f"`{name}` is registered for `{cls}`, which has no declared Lean type"
                elif name in FUNCS or name == DISPATCH:
                    self.registry_error = f"decoration `{src}` of `{name}`"

    # ------------------------------------------------------------------ call graph, components, who needs the recursion budget
    def _callgraph(self):
        names = [f for f in FUNCS if FUNCS[f][0] == "serde" and f in self.serde_defs]
        fam_calls = set()
        for fd in self.family.values():
            fam_calls |= self._calls_of(fd, names)
        g = {f: self._calls_of(self.serde_defs[f], names) for f in names}
        # (calls through the dispatcher `to_dict(e)` are resolved by type during the translation; a cycle through them is
        #  found there, see `ensure`)
        self.graph = g
        reach = {f: self._reach(f, g) for f in names}
        self.scc_of, self.entry_of = {}, {}
        for f in names:
            comp = sorted(h for h in names if h in reach[f] and f in reach[h]) if f in reach[f] else []
            if comp:
                self.scc_of[f] = comp
        for f, comp in self.scc_of.items():
            entries = [h for h in comp if any(h in g[o] for o in names if o not in comp)]
            if len(entries) != 1:
                self.scc_of = {"__error__": f"recursive component {comp} with {len(entries)} entries"}
                break
            self.entry_of[f] = entries[0]
        entries = set(self.entry_of.values())
        self.needs_fuel = {f for f in names if any(e2 == f or e2 in reach[f] for e2 in entries)}
        self.needs_fuel -= {f for f in self.scc_of if self.entry_of.get(f) != f}

    @staticmethod
    def _calls_of(fd, names):
        out = set()
        for c in ast.walk(fd):
            if isinstance(c, ast.Name) and c.id in names:
                out.add(c.id)
        return out

    @staticmethod
    def _reach(f, g):
        seen, todo = set(), list(g[f])
        while todo:
            h = todo.pop()
            if h not in seen:
                seen.add(h)
                todo += list(g.get(h, ()))
        return seen

    # ------------------------------------------------------------------ translation of the units
    def run(self):
        saved = (tc.MEMBERS, tc.Ctx)
        tc.MEMBERS, tc.Ctx = MEMBERS8, Ctx8
        try:
            self.in_gates_module = True
            super().run()                       # T1's definitions + the member `name` (fixpoint over raises / needs_ext)
        finally:
            tc.MEMBERS, tc.Ctx = saved
        self.in_gates_module = False
        self.units = {}                          # python name -> dict(lean text) in source order
        if "__error__" in self.scc_of:
            for f in FUNCS:
                self.failed[f] = self.scc_of["__error__"]
            self.failed[FAMILY] = self.scc_of["__error__"]
            self.scc_of = {}
            return self
        self.unit_order, self.in_progress = [], []
        names = [f for f in self.serde_order if f in FUNCS and FUNCS[f][0] == "serde"]
        names += [f for f in FUNCS if FUNCS[f][0] == "gates"]
        for f in names + [FAMILY]:
            self.ensure(f)
        return self

    def ensure(self, f):
        """translate the unit f (callees first: a call met while translating a body translates the callee before)"""
        if f in self.units or f in self.failed:
            return
        if f in self.in_progress:
            raise TranslateError(f"`{f}` is called while it is being translated: recursion through the dispatcher `to_dict` "
                                 "outside the gate classes is not supported")
        self.in_progress.append(f)
        n = self._n
        try:
            if self.registry_error:
                raise TranslateError(self.registry_error)
            if f != FAMILY and ((FUNCS[f][0] == "serde" and f not in self.serde_defs) or (FUNCS[f][0] == "gates" and f not in self.gates_defs)):
                raise TranslateError(f"`{f}` is not defined in the module any more")
            self.units[f] = self._unit(f)
            self.unit_order.append(f)
        except TranslateError as e:
            self.failed[f] = str(e)
        finally:
            self._n = n
            self.in_progress.remove(f)

    def _params(self, fd, argts):
        a = fd.args
        if a.vararg or a.kwarg or a.kwonlyargs or a.posonlyargs or a.defaults or len(a.args) != len(argts):
            raise TranslateError(f"{fd.name}: signature differs from the declared one ({len(argts)} positional parameter(s))")
        return [p.arg for p in a.args]

    def _unit(self, f):
        self._n = 0
        if f == FAMILY:
            return self._family()
        mod, lean, argts, ret = FUNCS[f]
        fd = self.serde_defs[f] if mod == "serde" else self.gates_defs[f]
        if f == "_map_eager":
            ok = (len(fd.args.args) == 2 and len(fd.body) == 1 and isinstance(fd.body[0], ast.Return)
                  and ast.unparse(fd.body[0].value) == f"list(map({fd.args.args[0].arg}, {fd.args.args[1].arg}))")
            if not ok:
                raise TranslateError("_map_eager: body other than `return list(map(fn, iterable))`")
            p0, p1 = (tc.lname(p.arg) for p in fd.args.args)
            return {"text": f"/-- `_map_eager(fn, iterable)` = `list(map(fn, iterable))` -/\n"
                            f"def map_eager {{α β : Type}} ({p0} : α → Except Err β) ({p1} : List α) : Except Err (List β) :=\n"
                            f"  mapE {p0} {p1}\n", "lean": lean}
        if self.op_fields is None and "Op" in argts + [ret]:
            raise TranslateError("GateOperation is not the declared dataclass (gate, qubit_indices)")
        params = self._params(fd, argts)
        env = {p: tc.Val(tc.lname(p), t) for p, t in zip(params, argts)}
        ctx = Ctx8(self, f, None, None, {}, env)
        ctx.uses_fuel = False
        term, eff = ctx.block(fd.body, ret, None)
        term = term if eff else f"Except.ok {tc.paren(term)}"
        binders = " ".join(f"({tc.lname(p)} : {lt(t)})" for p, t in zip(params, argts))
        rt = f"Except Err {tc.paren(lt(ret))}"
        doc = f"`{'_gates.' if mod == 'gates' else ''}{f}`"
        x = "(x : Ext P F E S D Ci Mx R)"
        if f in self.scc_of and self.entry_of[f] == f:
            typ = " → ".join(["Nat"] + [lt(t) for t in argts] + [rt])
            pats = ", ".join(tc.lname(p) for p in params)
            wild = ", ".join("_" for _ in params)
            text = (f"/-- {doc}; `fuel`: the recursion budget (exhausted = RecursionError) -/\n"
                    f"def {lean} {x} : {typ}\n  | 0, {wild} => Except.error Err.RecursionError\n  | fuel + 1, {pats} =>\n    {term}\n")
        else:
            extra = ""
            if f in self.needs_fuel:
                extra += " (fuel : Nat)"
            if f in self.scc_of:
                e = self.entry_of[f]
                et = " → ".join([lt(t) for t in FUNCS[e][2]] + [f"Except Err {tc.paren(lt(FUNCS[e][3]))}"])
                extra += f" (rec_{FUNCS[e][1]} : {et})"
            text = f"/-- {doc} -/\ndef {lean} {x}{extra} {binders} : {rt} :=\n  {term}\n"
        return {"text": text, "lean": lean}

    def _family(self):
        if self.base_fn is None:
            raise TranslateError("the @singledispatch function to_dict was not found")
        cases, docs = [], []
        for c in self.mod.classes:
            fields = self.mod.fields[c.name]
            fterms = {f[0]: ("self_" + f[0], f[1]) for f in fields}
            self_term = "(TranslatedGates.Gate." + " ".join([c.name] + ["self_" + f[0] for f in fields]) + " : TranslatedGates.Gate P F E)"
            pat = " ".join([f".{c.name}"] + ["self_" + f[0] for f in fields])
            fd = self.family.get(c.name, self.base_fn)
            params = self._params(fd, [GATE])
            env = {params[0]: tc.Val(self_term, GATE, cls=c.name)}
            ctx = Ctx8(self, FAMILY, c.name, self_term, fterms, env)
            ctx.uses_fuel = False
            term, eff = ctx.block(fd.body, J, None)
            cases.append(f"  | {pat} => {term if eff else f'Except.ok {tc.paren(term)}'}")
            docs.append(f"{c.name}: `{fd.name}`")
        text = (f"/-- `to_dict` on gates – {'; '.join(docs)} -/\n"
                f"def {FAMILY} (x : Ext P F E S D Ci Mx R) : TranslatedGates.Gate P F E → Except Err (JV E)\n" + "\n".join(cases) + "\n")
        return {"text": text, "lean": FAMILY}

    def ctor_term(self, cname, terms):
        return " ".join([f"TranslatedGates.Gate.{cname}"] + [tc.paren(t) for t in terms])

    # ------------------------------------------------------------------ rendering
    def render(self):
        out = ["-- generated by harness/translate_t8.py from the current source of orquestra/quantum/circuits/_serde.py (and the `name`",
               "-- properties / `gate_is_parametric` / str constants of _gates.py) — do not edit",
               "import OQ.Exec.PyT8", "import OQ.Generated.TranslatedGates", "set_option linter.unusedVariables false",
               "namespace OQ.Generated.TranslatedC05", "open OQ.PyT8", ""]
        for k, v in self.gate_consts.items():
            if k in self.used_consts:
                out.append(f'def {k} : String := "{v}"')
        out += ["", "/-- exceptions of the gate constructors (T1) as exceptions of this module -/",
                "def liftG {α : Type} : Except TranslatedGates.Err α → Except Err α", "  | .ok a => .ok a"]
        t1_errs = [e for e in self.errors] or ["none_raised"]
        for e in t1_errs:
            out.append(f"  | .error .{e} => .error .{e if e in ERRS else 'IllTyped'}")
        out += ["", "/-- `opt` known to be not None (after a truthiness test) -/",
                "def optGet {α : Type} : Option α → Except Err α\n  | some a => .ok a\n  | none => .error .IllTyped", "",
                "def asStrss {E : Type} (j : JV E) : Except Err (List (List String)) := Except.bind (asList j) (mapE asStrs)", ""]
        if self.op_fields is not None:
            out += ["/-- the dataclass `_gates.GateOperation`, fields in source order -/",
                    "structure GateOperation (P F E : Type) where"]
            out += [f"  {f} : {lt(t)}" for f, t in self.op_fields] + [""]
        else:
            out += ["-- GateOperation: NOT TRANSLATABLE — not the declared dataclass (gate, qubit_indices)", ""]
        out += ["/-- what the bodies rely on and what is NOT translated: parameters (module docstring of harness/translate_t8.py) -/",
                "structure Ext (P F E S D Ci Mx R : Type) where", "  gx : TranslatedGates.Ext P S Unit"]
        for name, (argts, ret, raises, what) in EXT.items():
            if self.op_fields is None and "Op" in " ".join(argts + [ret]):
                continue
            r = f"Except Err {tc.paren(lt(ret))}" if raises else lt(ret)
            out.append(f"  /-- {what} -/\n  {name} : " + " → ".join([tc.paren(lt(t)) if "→" in lt(t) else lt(t) for t in argts] + [r]))
        out += ["", "variable {P F E S D Ci Mx R : Type}", ""]
        if "name" in self.defs:
            d = self.defs["name"]
            x = "(x : Ext P F E S D Ci Mx R) " if self.needs_ext["name"] else ""
            out += [f"/-- `.name` — {d['doc']} -/", f"def gate_name {x}: TranslatedGates.Gate P F E → String"]
            for pat, params, term, e in d["cases"]:
                out.append("  | " + pat + " => " + term)
            out.append("")
        else:
            out += [f"-- gate_name: NOT TRANSLATABLE — {self.failed.get('name')}", ""]
        for f in getattr(self, "unit_order", []):
            out += [self.units[f]["text"]]
        for f, why in self.failed.items():
            if f in FUNCS or f == FAMILY:
                out.append(f"-- {FUNCS[f][1] if f in FUNCS else f}: NOT TRANSLATABLE — {why}".replace("\n", " "))
        out += ["", "end OQ.Generated.TranslatedC05"]
        return "\n".join(out) + "\n"


def load_sources():
    from orquestra.quantum.circuits import _gates, _serde
    return inspect.getsource(_gates), inspect.getsource(_serde)


def translate(sources=None):
    g, s = load_sources() if sources is None else sources
    return Translator8(g, s).run()


if __name__ == "__main__":
    from . import common
    common.use_repo()
    t = translate()
    print(t.render())
    print("failed:", {k: v for k, v in t.failed.items()})
