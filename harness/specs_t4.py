"""Work package T4: dictionary-valued code with an abstract numeric value type – outcome distributions (C17:
distributions/_measurement_outcome_distribution.py) and measurement counts (C10: measurements/measurements.py), translated by
harness/translate_t4.py.  Every definition is run through the JSON driver (generated glue OQ/Generated/TranslatedDriverT4.lean, values
at `Rat`) and compared with the Python function / the real method on a real object by harness/translated_check_t4.py."""
PROPS = ["C10", "C17"]

NU = "ν"
LI = "List Int"
STR = "List Char"
LLI = "List (List Int)"
LSTR = "List (List Char)"
PK = "OQ.Py.PyKey"
DK = "OQ.Py.Dict (List Int) ν"      # tuple keys, numeric values (a `distribution_dict`)
DP = "OQ.Py.Dict OQ.Py.PyKey ν"     # str | tuple keys (what callers pass)
DS = "OQ.Py.Dict (List Char) ν"     # str keys, numeric values
CNT = "OQ.Py.Dict (List Char) Int"  # str keys, int counts
X_CLOSE = ("math.isclose", "ext_isclose", "ν → ν → Bool")
X_FMIN = ("sys.float_info.min", "ext_float_min", "ν")


def K(spec, **more):
    """the `known` entry (how other translated functions call this one) of a spec"""
    import inspect
    from . import translate_t4 as t4
    fn, lean, args, ret, partial, opt = spec
    f = getattr(fn, "__func__", fn)
    f = getattr(f, "__wrapped__", f)
    params = [p for p in inspect.signature(f).parameters if p not in ("self", "cls")]
    value = opt.get("value", True)
    d = {"lean": lean, "params": params, "args": list(args), "partial": partial,
         "ret": t4.ret_type(ret, opt.get("self_out_types", []), value),
         "ext": [x[1] for x in opt.get("ext", [])], "self_in": list(opt.get("self_in", {})),
         "self_out": list(opt.get("self_out", [])), "value": value, "mutates": t4.mutated_params(f), "defaults": {},
         "spec": spec}
    d.update(more)
    return d


def _all():
    from . import translate as tr
    from . import translate_t2 as t2
    from . import translate_t4 as t4
    from orquestra.quantum.distributions import _measurement_outcome_distribution as mod
    from orquestra.quantum.measurements import measurements as meas
    from orquestra.quantum import utils
    tf = t4.translate_function
    MOD = mod.MeasurementOutcomeDistribution
    M = meas.Measurements
    s = {}
    # ------------------------------------------------------------------------------------------------ C17
    s["pre"] = (mod.preprocess_distibution_dict, "preprocess_distibution_dict", [DP], DK, True,
                {"translator": tf, "empties": [DK]})
    s["nonneg"] = (mod._is_non_negative, "is_non_negative", [DK], "Bool", False, {"translator": tf})
    s["fixed"] = (mod._is_key_length_fixed, "is_key_length_fixed", [DK], "Bool", True, {"translator": tf})
    s["inttup"] = (mod._are_keys_non_negative_integer_tuples, "are_keys_non_negative_integer_tuples", [DK], "Bool", False,
                   {"translator": tf})
    s["isdist"] = (mod.is_measurement_outcome_distribution, "is_measurement_outcome_distribution", [DK], "Bool", True,
                   {"translator": tf, "known": {"_is_non_negative": K(s["nonneg"]), "_is_key_length_fixed": K(s["fixed"]),
                                                "_are_keys_non_negative_integer_tuples": K(s["inttup"])}})
    s["isnorm"] = (mod.is_normalized, "is_normalized", [DK], "Bool", False, {"translator": tf, "ext": [X_CLOSE]})
    s["norm"] = (mod.normalize_measurement_outcome_distribution, "normalize_measurement_outcome_distribution", [DK], DK, True,
                 {"translator": tf, "ext": [X_FMIN]})
    s["commas"] = (mod.change_tuple_dict_keys_to_comma_separated_integers, "change_tuple_dict_keys_to_comma_separated_integers",
                   [DP], DP, False, {"translator": tf})
    s["init"] = (MOD.__init__, "mod_init", [DP, "Bool"], DK, True,
                 {"translator": tf, "ext": [X_CLOSE, X_FMIN], "value": False, "self_out": ["distribution_dict"],
                  "self_out_types": [DK],
                  "known": {"preprocess_distibution_dict": K(s["pre"]), "is_measurement_outcome_distribution": K(s["isdist"]),
                            "is_normalized": K(s["isnorm"]), "normalize_measurement_outcome_distribution": K(s["norm"])}})
    k_ctor = K(s["init"], defaults={"normalize": "true"})
    s["sub"] = (MOD.subdistribution, "mod_subdistribution", [LI], DK, True,
                {"translator": tf, "ext": [X_CLOSE, X_FMIN], "self_in": {"distribution_dict": DK},
                 "self_out": ["distribution_dict"], "self_out_types": [DK], "empties": [DK],
                 "known": {"is_normalized": K(s["isnorm"]), "MeasurementOutcomeDistribution": k_ctor}})
    # ------------------------------------------------------------------------------------------------ C10
    # the two utils conversions `get_counts` goes through, regenerated under C10 (base / T2 translators; the generated files of
    # different properties do not import each other, except where `imports` says so)
    s["t2b"] = (utils.tuple_to_bitstring, "c10_tuple_to_bitstring", [LI], STR, False)
    s["ts2bs"] = (utils.convert_tuples_to_bitstrings, "c10_convert_tuples_to_bitstrings", [LLI], LSTR, False,
                  {"translator": t2.translate_function,
                   "known": {"tuple_to_bitstring": ("c10_tuple_to_bitstring", [LI], STR, False)},
                   "driver": _drv_t2(LSTR, args=lambda a: [[tuple(t) for t in a[0]]])})
    k_ts2bs = {"lean": "c10_convert_tuples_to_bitstrings", "params": ["tuples"], "args": [LLI], "ret": LSTR, "partial": False,
               "ext": [], "self_in": [], "self_out": [], "value": True, "mutates": [], "defaults": {}}
    s["counts"] = (M.get_counts, "measurements_get_counts", [], CNT, False,
                   {"translator": tf, "self_in": {"bitstrings": LLI}, "known": {"convert_tuples_to_bitstrings": k_ts2bs}})
    s["add"] = (M.add_counts, "measurements_add_counts", [CNT], LLI, True,
                {"translator": tf, "self_in": {"bitstrings": LLI}, "self_out": ["bitstrings"], "self_out_types": [LLI],
                 "value": False, "empties": [LI]})
    s["minit"] = (M.__init__, "measurements_init", ["Option (List (List Int))"], LLI, False,
                  {"translator": tf, "self_out": ["bitstrings"], "self_out_types": [LLI], "value": False, "empties": [LLI]})
    s["from"] = (M.from_counts, "measurements_from_counts", [CNT], LLI, True,
                 {"translator": tf, "objects": {"Measurements": ["bitstrings"]},
                  "known": {"cls": K(s["minit"], obj="Measurements", defaults={"bitstrings": "none"}),
                            "Measurements.add_counts": K(s["add"])}})
    s["dist"] = (M.get_distribution, "measurements_get_distribution", [], DK, True,
                 {"translator": tf, "ext": [X_CLOSE, X_FMIN], "self_in": {"bitstrings": LLI}, "empties": [DS], "imports": ["C17"],
                  "known": {"self.get_counts": K(s["counts"]), "MeasurementOutcomeDistribution": k_ctor}})
    return s


def _drv_t2(ret, args=None):
    from . import translate_t2 as t2
    p = t2.parse_type(ret)
    return {"args": args or (lambda a: a), "raises": (), "result": lambda r: t2.canon_py(p, r)}


C17_ORDER = ["pre", "nonneg", "fixed", "inttup", "isdist", "isnorm", "norm", "commas", "init", "sub"]
C10_ORDER = ["t2b", "ts2bs", "counts", "add", "minit", "from", "dist"]


def SPECS():
    s = _all()
    return {"C17": [s[k] for k in C17_ORDER], "C10": [s[k] for k in C10_ORDER]}


def GENS():
    def bits(r, lo=0, hi=9):
        return [r.randrange(2) for _ in range(r.randrange(lo, hi))]
    return {
        "c10_tuple_to_bitstring": lambda r: [r.choice([bits(r), [r.randrange(0, 30) for _ in range(r.randrange(0, 5))]])],
        "c10_convert_tuples_to_bitstrings": lambda r: [[bits(r) for _ in range(r.randrange(0, 6))]],
    }


# ------------------------------------------------------------------------------------------------ differential check (T4 definitions)
def CHECKS():
    """lean name -> {"gen": rng -> JSON arguments (self attributes first), "py": decoded call of the real function / method,
    optional "lean_post": normalisation of the Lean answer}.  Dicts travel as ordered [key, value] arrays, numeric values as exact
    rationals ("p/q"), PyKey as {"s": str} / {"t": [ints]} / {"o": 0}."""
    from fractions import Fraction
    from . import translated_check_t4 as c
    from orquestra.quantum.distributions import _measurement_outcome_distribution as mod
    from orquestra.quantum.measurements import measurements as meas
    MOD, M = mod.MeasurementOutcomeDistribution, meas.Measurements

    def rat(f):
        f = Fraction(f)
        return f.numerator if f.denominator == 1 else f"{f.numerator}/{f.denominator}"

    def weights(r, n):
        """n numeric values: dyadic / small rationals, mostly non-negative, with chosen totals"""
        mode = r.choice(["free", "free", "one", "one", "close", "far", "zero", "tiny", "neg", "ints"])
        if mode == "ints":
            return [r.randrange(0, 6) for _ in range(n)]
        vs = [Fraction(r.randrange(0, 9), r.choice([1, 2, 4, 8, 3, 5, 16])) for _ in range(n)]
        if mode == "neg" and n:
            vs[r.randrange(n)] = -Fraction(r.randrange(1, 5), 4)
        if mode == "zero":
            vs = [Fraction(0)] * n
        if mode == "tiny":
            vs = [Fraction(r.randrange(0, 3), 2 ** 1030) for _ in range(n)]
        tot = sum(vs)
        if mode in ("one", "close", "far") and tot > 0:
            vs = [v / tot for v in vs]
            if mode == "close":
                vs[0] += r.choice([1, -1]) * Fraction(1, 2 ** 31) * (1 if vs[0] > Fraction(1, 2 ** 31) else 0)
            if mode == "far":
                vs[0] += Fraction(1, 2 ** 29)
        return vs

    def tkey(r, w, neg=False):
        return [r.choice([0, 1, 0, 1, 2, 12, 3]) if not (neg and r.random() < 0.2) else -r.randrange(1, 3) for _ in range(w)]

    def d_tup_gen(r, valid=0.6):
        """a dict with tuple keys (as [key, value] pairs, distinct keys)"""
        n = r.choice([0, 1, 1, 2, 3, 4, 5])
        w = r.randrange(0, 4)
        ok = r.random() < valid
        keys = []
        for _ in range(n):
            k = tkey(r, w if (ok or r.random() < 0.7) else r.randrange(0, 4), neg=not ok)
            if k not in keys:
                keys.append(k)
        vs = weights(r, len(keys))
        if ok:
            vs = [abs(v) for v in vs]
        return [[k, rat(v)] for k, v in zip(keys, vs)]

    def pk_of_tuple(r, t):
        """a str / tuple key that the constructor reads as the tuple t (when it can be written as a str)"""
        c = r.random()
        if c < 0.35 and all(0 <= e <= 9 for e in t) and t:
            return {"s": "".join(map(str, t))}
        if c < 0.55 and len(t) >= 2:
            return {"s": ",".join(map(str, t))}
        return {"t": t}

    def d_pk_gen(r):
        base = d_tup_gen(r, valid=0.75)
        items = [[pk_of_tuple(r, k), v] for k, v in base]
        seen, out = [], []
        for k, v in items:  # the same Python key twice is not a dict
            if k not in seen:
                seen.append(k)
                out.append([k, v])
        if out and r.random() < 0.25:
            bad = r.choice([{"s": "0a"}, {"s": ""}, {"s": "1,,2"}, {"s": "-1"}, {"s": "+1,2"}, {"s": "1,-2"}, {"o": 0}, {"s": ","},
                            {"s": "01"}, {"t": [0, 1]}, {"s": "0,1"}])
            if bad not in seen:
                out.insert(r.randrange(len(out) + 1), [bad, rat(r.choice([Fraction(1, 2), 1, 0]))])
        return out

    def qubits(r, w):
        c = r.random()
        if c < 0.08:
            return []
        if w == 0:
            return [r.choice([0, 1, -1])]
        qs = r.sample(range(w), r.randrange(1, w + 1))
        if c < 0.2:
            qs.append(r.choice(qs))
        elif c < 0.3:
            qs[r.randrange(len(qs))] = w + r.randrange(0, 2)
        elif c < 0.42:
            i = r.randrange(len(qs))
            qs[i] = -r.randrange(1, w + 2)
        return qs

    def sub_gen(r):
        d = d_tup_gen(r, valid=0.85)
        w = len(d[0][0]) if d else 2
        return [d, qubits(r, w)]

    def bitstr(r, n=None):
        n = r.randrange(0, 4) if n is None else n
        return "".join(r.choice("01") for _ in range(n))

    def shots(r):
        w = r.randrange(0, 4)
        c = r.random()
        out = []
        for _ in range(r.choice([0, 1, 2, 3, 4, 6, 8, 16])):
            if c < 0.15:
                out.append([r.choice([0, 1, 2, 12]) for _ in range(r.randrange(0, 4))])
            else:
                out.append([r.randrange(2) for _ in range(w)])
        return out

    def counts(r):
        keys = []
        for _ in range(r.randrange(0, 5)):
            k = bitstr(r) if r.random() < 0.85 else r.choice(["0a", "12", "-1", " 1", "1_0", "²"][:3])
            if k not in keys:
                keys.append(k)
        return [[k, r.choice([0, 1, 2, 3, 5, -1, -3])] for k in keys]

    def init_py(d, nz):
        return MOD(c.d_pk(d), nz).distribution_dict

    def sub_py(d, qs):
        o = object.__new__(MOD)
        o.distribution_dict = c.d_tup(d)
        res = o.subdistribution(list(qs))
        return (o.distribution_dict, res.distribution_dict)

    def add_py(bs, cn):
        m = M(c.tuples(bs))
        m.add_counts(c.d_cnt(cn))
        return m.bitstrings

    def round_values(ok):
        def canon(f):
            return str(f.numerator) if f.denominator == 1 else f"{f.numerator}/{f.denominator}"
        return [[k, canon(Fraction(Fraction(v).numerator / Fraction(v).denominator))] for k, v in ok]

    def dist_py(bs):
        d = M(c.tuples(bs)).get_distribution().distribution_dict
        return {k: c.Q(Fraction(v)) for k, v in d.items()}

    return {
        "preprocess_distibution_dict": {"gen": lambda r: [d_pk_gen(r)], "py": lambda d: mod.preprocess_distibution_dict(c.d_pk(d))},
        "is_non_negative": {"gen": lambda r: [d_tup_gen(r)], "py": lambda d: mod._is_non_negative(c.d_tup(d))},
        "is_key_length_fixed": {"gen": lambda r: [d_tup_gen(r, 0.4)], "py": lambda d: mod._is_key_length_fixed(c.d_tup(d))},
        "are_keys_non_negative_integer_tuples": {"gen": lambda r: [d_tup_gen(r, 0.4)],
                                                 "py": lambda d: mod._are_keys_non_negative_integer_tuples(c.d_tup(d))},
        "is_measurement_outcome_distribution": {"gen": lambda r: [d_tup_gen(r, 0.5)],
                                                "py": lambda d: mod.is_measurement_outcome_distribution(c.d_tup(d))},
        "is_normalized": {"gen": lambda r: [d_tup_gen(r)], "py": lambda d: mod.is_normalized(c.d_tup(d))},
        "normalize_measurement_outcome_distribution": {
            "gen": lambda r: [d_tup_gen(r, 0.8)], "py": lambda d: mod.normalize_measurement_outcome_distribution(c.d_tup(d))},
        "change_tuple_dict_keys_to_comma_separated_integers": {
            "gen": lambda r: [[kv for kv in d_pk_gen(r) if "o" not in kv[0]]],
            "py": lambda d: mod.change_tuple_dict_keys_to_comma_separated_integers(c.d_pk(d))},
        "mod_init": {"gen": lambda r: [d_pk_gen(r), r.random() < 0.7], "py": init_py},
        "mod_subdistribution": {"gen": sub_gen, "py": sub_py},
        "measurements_get_counts": {"gen": lambda r: [shots(r)], "py": lambda bs: M(c.tuples(bs)).get_counts()},
        "measurements_add_counts": {"gen": lambda r: [shots(r), counts(r)], "py": add_py},
        "measurements_init": {"gen": lambda r: [r.choice([None, shots(r)])],
                              "py": lambda bs: (M() if bs is None else M(c.tuples(bs))).bitstrings},
        "measurements_from_counts": {"gen": lambda r: [counts(r)], "py": lambda cn: M.from_counts(c.d_cnt(cn)).bitstrings},
        "measurements_get_distribution": {"gen": lambda r: [shots(r)], "py": dist_py, "lean_post": round_values},
    }
