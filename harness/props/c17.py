"""C17 — outcome distributions stay normalised; marginals and distances obey their laws."""
import itertools
import math
import os
import re
import tempfile
import warnings
from fractions import Fraction

from .. import common
from ..common import rat, unrat

PROP = "C17"
RULE = ("kinds construct / subdist / saveload / dist (one call on fresh objects) and hist / pool / files (a history of "
        "calls on long-lived objects: marginals, distances, save/load); structured random dictionaries (bit, digit and "
        "multi-digit outcomes; string, comma-string and tuple keys; float / int / numpy values and entries; dyadic and "
        "arbitrary weights) + a malformed stream + all ordered qubit sub-lists for width <= 4; non-trivial: marginal "
        "onto a proper subset listed out of ascending order (or a single non-first qubit), a pair of distributions "
        "with different supports, an un-normalised constructor input with >= 2 outcomes, a save/load of >= 2 outcomes "
        "of width >= 2, a history asking one object for the same qubit set in two orders or touching >= 2 sibling "
        "objects, a distance history re-using one parameter dictionary on >= 2 different pairs, a file history that "
        "overwrites a path with different content and loads it again; distinct = distinct canonical JSON of the case")
TRUSTED = [
    "Python float arithmetic: the model computes in exact rationals; implementation and model are compared exactly "
    "on dyadic inputs whose sums/normalisations are exact in binary64 and within 1e-12 (relative) otherwise; "
    "distances within 1e-9",
    "math.isclose(x, 1) is |x-1| <= 1e-9*max(|x|,1) (enters the theorems as an arbitrary predicate `close`)",
    "math.exp / math.log / np.exp are the real exponential and logarithm up to rounding (the analytic theorems "
    "mmd_nonneg, nll_ge_entropy are over R; the harness recomputes the value from the model's exact data with "
    "math.exp/math.log and compares within 1e-9)",
    "int(str) parses ASCII [+-]?digits+ as decimal (other spellings accepted by Python's int() are not generated); "
    "str(int) is the decimal numeral; str.split / str.join / dict insertion order as documented",
    "json.dumps / json.load is the identity on {text key: double} objects and keeps insertion order; the file "
    "system returns what was written",
    "iteration order of Python's set of outcomes is arbitrary: theorems mmd_order_irrelevant / nll_order_irrelevant "
    "show the real-valued result does not depend on it",
]
ASSUMPTIONS = [
    "in-domain inputs: dictionaries whose keys are equal-length tuples of non-negative ints, digit strings or "
    "comma-separated integer strings, with non-negative finite weights of positive total (a zero / denormal total "
    "is rejected with ValueError and is treated as a rejection, not a violation)",
    "kernel widths sigma > 0 (scalar or non-empty list), clipping constant epsilon > 0",
    "qubit lists for the marginal: non-empty, distinct, 0 <= q < width (negative Python indices are modelled but "
    "not judged by the oracle)",
    "histories: `distribution_dict` is a public attribute; a history may swap / double its values in place (the "
    "object stays a valid distribution) and may edit objects RETURNED by the library; every later answer is judged "
    "against the current content of the object asked",
    "documented defaults: sigma = 1.0 and epsilon = 1e-9 when the parameter dictionary lacks the key",
    "MMD on registers of width >= 32 overflowed int64 before the repair b6e2a42 (fixed finding mmd-wide-register-overflow); "
    "it is now compared and judged like any other register",
]

_TOL = 1e-9


def _mods():
    common.use_repo()
    import orquestra.quantum.distributions as D
    return D


# ---------------------------------------------------------------- case construction helpers
def _raw_key(k):
    """JSON key -> python key: str stays, list -> tuple, None -> a key of a wrong type"""
    if isinstance(k, str):
        return k
    if isinstance(k, list):
        return tuple(k)
    return 5


def _to_dict(items, vtype="float", ktype="py"):
    """the dictionary a caller would pass.  vtype: float | int (integral weights as Python ints, e.g. counts) |
    npfloat (numpy.float64); ktype: py | npint (tuple entries as numpy.int64)"""
    import numpy as np
    out = {}
    for k, v in items:
        key = _raw_key(k)
        if ktype == "npint" and isinstance(key, tuple):
            key = tuple(np.int64(e) for e in key)
        f = unrat(v)
        if vtype == "int" and f.denominator == 1:
            val = int(f)
        elif vtype == "npfloat":
            val = np.float64(float(f))
        else:
            val = float(f)
        out[key] = val
    return out


def _canon_dict(dd):
    """distribution_dict -> [[key as list, exact value]] in insertion order"""
    return [[[int(e) for e in k], rat(Fraction(v))] for k, v in dd.items()]


def _parse_key(k):
    """oracle's own reading of a key: tuple of ints, or None if the text is not a key spelling"""
    if isinstance(k, list):
        return tuple(k)
    if isinstance(k, str):
        parts = k.split(",") if "," in k else list(k)
        if "," in k:
            if not all(re.fullmatch(r"[+-]?[0-9]+", p) for p in parts):
                return None
        elif not all(re.fullmatch(r"[0-9]", p) for p in parts):
            return None
        return tuple(int(p) for p in parts)
    return None


def _build(D, items, normalize, vtype="float", ktype="py"):
    with warnings.catch_warnings():
        warnings.simplefilter("ignore")
        return D.MeasurementOutcomeDistribution(_to_dict(items, vtype, ktype), normalize=normalize)


def _build_spec(D, s):
    """s: a case or a member of a case: items, normalize, optional vtype / ktype"""
    return _build(D, s["items"], s.get("normalize", True), s.get("vtype", "float"), s.get("ktype", "py"))


def _spec(items, normalize=True, vtype="float", ktype="py"):
    d = {"items": items, "normalize": normalize}
    if vtype != "float":
        d["vtype"] = vtype
    if ktype != "py":
        d["ktype"] = ktype
    return d


def _mk_params(ps):
    """parameter dictionary as a caller would write it.  ps: {"sigma": rat | [rat] | None, "stype": float | int |
    list | tuple | array, "epsilon": rat | None}; None = the key is absent (documented default)"""
    import numpy as np
    par = {}
    sg = ps.get("sigma")
    if sg is not None:
        if isinstance(sg, list):
            vals = [float(unrat(x)) for x in sg]
            st = ps.get("stype") or "list"
            par["sigma"] = tuple(vals) if st == "tuple" else np.array(vals) if st == "array" else vals
        else:
            f = unrat(sg)
            par["sigma"] = int(f) if (ps.get("stype") == "int" and f.denominator == 1) else float(f)
    if ps.get("epsilon") is not None:
        par["epsilon"] = float(unrat(ps["epsilon"]))
    return par


def _sigma_eps(ps):
    """the values the caller means (documented defaults 1.0 and 1e-9)"""
    sg = ps.get("sigma")
    sigma = 1.0 if sg is None else [float(unrat(x)) for x in sg] if isinstance(sg, list) else float(unrat(sg))
    eps = 1e-9 if ps.get("epsilon") is None else float(unrat(ps["epsilon"]))
    return sigma, eps


def _dist_params(c):
    """the two parameter specs of a `dist` case (one for the MMD calls, one for the log-likelihood calls)"""
    return ({"sigma": c.get("sigma"), "stype": c.get("stype")}, {"epsilon": c.get("eps")})


def _guard(fn):
    try:
        return fn()
    except RuntimeError:
        return "err:runtime"
    except ValueError:
        return "err:value"
    except IndexError:
        return "err:index"
    except TypeError:
        return "err:type"


# ---------------------------------------------------------------- corpus / generator
def corpus():
    return [
        # F6 (fixed d900b77): subdistribution emptied its source
        {"kind": "subdist", "items": [["011", "1/4"], ["101", "1/2"], ["111", "1/4"]], "normalize": True,
         "qubits": [2, 0], "exact": True},
        # F7: one-subsystem key with an entry >= 10 does not survive save/load
        {"kind": "saveload", "items": [[[12], "1/2"], [[3], "1/2"]], "normalize": True, "exact": True},
        {"kind": "saveload", "items": [[[12], "1/2"], [[34], "1/2"]], "normalize": True, "exact": True},
        {"kind": "saveload", "items": [[[12, 4], "1/2"], [[3, 5], "1/2"]], "normalize": True, "exact": True},
        # (fixed b64c4ba) multi-digit entries were split into digits by subdistribution; kept as regression inputs
        {"kind": "subdist", "items": [[[12, 3], "1/2"], [[1, 23], "1/2"]], "normalize": True, "qubits": [0, 1],
         "exact": True},
        {"kind": "subdist", "items": [[[12, 0], "1/2"], [[3, 0], "1/2"]], "normalize": True, "qubits": [0],
         "exact": True},
        # MMD is only defined on bitstrings
        {"kind": "dist", "p": [[[2], 1]], "q": [[[2], 1]], "sigma": 1, "eps": "1/1000000000"},
        {"kind": "dist", "p": [["01", 1]], "q": [["10", "1/2"], ["11", "1/2"]], "sigma": "3/10",
         "eps": "1/1000000000"},
        {"kind": "construct", "items": [["01", 1], [[0, 1], 3], ["1,1", 4]], "normalize": True, "exact": False},
        {"kind": "construct", "items": [], "normalize": True, "exact": True},
        {"kind": "construct", "items": [["0", "1/2"], ["1", "2147483649/4294967296"]], "normalize": True,
         "exact": True},
        {"kind": "construct", "items": [["0", "1/2"], ["1", "268435457/536870912"]], "normalize": True,
         "exact": False},
        # ---- classes found by seeded changes (round 3): histories on long-lived objects
        # one object asked for the same qubit set in several orders, repeats, an edited result, an edited source
        {"kind": "hist", "exact": True,
         "specs": [{"items": [[[0, 0, 1], "1/8"], [[0, 1, 0], "1/4"], [[1, 0, 1], "1/2"], [[1, 1, 0], "1/8"]],
                    "normalize": True},
                   {"items": [[[0, 0, 1], "1/2"], [[0, 1, 0], "1/8"], [[1, 0, 1], "1/8"], [[1, 1, 0], "1/4"]],
                    "normalize": True}],
         "steps": [["sub", 0, [0, 1], False], ["sub", 0, [1, 0], True], ["sub", 1, [1, 0], False],
                   ["sub", 0, [1, 0], False], ["sub", 0, [2, 0, 1], False], ["sub", 0, [0, 1, 2], True],
                   ["sub", 1, [0, 1, 2], False], ["swap", 0, 0, 2], ["sub", 0, [0, 1], False], ["scale", 0, 1],
                   ["sub", 0, [2], False], ["replace", 0, 1], ["sub", 0, [1, 0], False], ["sub", 0, [2], False]]},
        # distances on a pool of siblings (same support in another order, an equal copy, other weights on the same
        # outcomes) with re-used parameter dictionaries
        {"kind": "pool",
         "specs": [{"items": [["00", "1/2"], ["01", "1/4"], ["11", "1/4"]]},
                   {"items": [["11", "5/8"], ["00", "1/8"], ["01", "1/4"]]},
                   {"items": [["11", "1/4"], ["01", "1/4"], ["00", "1/2"]]},
                   {"items": [["00", "1/2"], ["10", "1/2"]]}],
         "params": [{"sigma": 1}, {"sigma": ["1/4", 1, 4], "stype": "array"}, {"epsilon": "1/100"}, {}],
         "steps": [["mmd", 0, 1, 0, "direct"], ["mmd", 1, 0, 0, "direct"], ["mmd", 0, 2, 0, "direct"],
                   ["mmd", 0, 0, 1, "direct"], ["mmd", 3, 0, 1, "eval"], ["mmd", 0, 3, 1, "direct"],
                   ["jsd", 0, 3, 2, "direct"], ["jsd", 3, 0, 2, "direct"], ["nll", 0, 3, 2, "direct"],
                   ["nll", 3, 0, 2, "eval"], ["nll", 0, 1, 3, "direct"], ["mmd", 2, 1, 3, "direct"],
                   ["jsd", 1, 3, 3, "direct"], ["jsd", 3, 1, 3, "direct"]]},
        # one path overwritten with different content; a list of different distributions; path and file object
        {"kind": "files", "exact": True,
         "specs": [{"items": [["00", "1/4"], ["01", 0], ["10", "3/4"]]}, {"items": [[[3, 12], "1/2"], [[0, 7], "1/2"]]},
                   {"items": [["11", "1/2"], ["00", "1/2"]]}],
         "steps": [["save", 0, 0], ["load", 0, "path"], ["poke"], ["load", 0, "fobj"], ["save", 0, 1],
                   ["load", 0, "path"], ["saves", 1, [0, 1, 2]], ["loads", 1, "path"], ["poke"], ["loads", 1, "fobj"],
                   ["saves", 1, [2, 2, 0]], ["loads", 1, "path"], ["save", 1, 2], ["load", 1, "path"]]},
        {"kind": "construct", "items": [[[0, 1], "3/2"], [[1, 1], "-1/2"]], "normalize": True, "exact": True},
        {"kind": "construct", "items": [[[0, 1], 3], [[1, 1], 5]], "normalize": True, "exact": True, "vtype": "int",
         "ktype": "npint"},
        {"kind": "construct", "via": "probs", "items": [[[0, 0], "1/2"], [[0, 1], 0], [[1, 0], "1/4"], [[1, 1], "1/4"]],
         "normalize": True, "exact": True},
        # MMD on a register of width >= 32 (int64 overflow of the squared code differences)
        {"kind": "dist", "p": [[[0] * 33, 1]], "q": [[[0] * 33, "1/2"], [[1] + [0] * 32, "1/4"], [[0] * 32 + [1], "1/4"]],
         "sigma": 1, "eps": "1/1000000000"},
        {"kind": "dist", "p": [[[0] * 32, "1/2"], [[1, 1] + [0] * 30, "1/2"]], "q": [[[0] * 32, 1]], "sigma": 1,
         "eps": "1/1000000000"},
    ]


def _keys(rng, w, n, base):
    space = base ** w
    n = max(1, min(n, space))
    if space <= 4096:
        idx = rng.sample(range(space), n)
    else:
        idx = list({rng.randrange(space) for _ in range(n)})
    out = []
    for i in idx:
        k = []
        for _ in range(w):
            k.append(i % base)
            i //= base
        out.append(k[::-1])
    return out


def _weights(rng, n, mode):
    """returns (list of Fractions, exact?)"""
    if mode == "dyadic_norm":  # already summing to 1, dyadic
        den = 2 ** rng.randrange(3, 8)
        cuts = sorted(rng.randrange(0, den + 1) for _ in range(n - 1))
        ps = [b - a for a, b in zip([0] + cuts, cuts + [den])]
        return [Fraction(p, den) for p in ps], True
    if mode == "dyadic":  # integer weights whose total is a power of two (exact normalisation)
        parts = [rng.randrange(0, 9) for _ in range(n)]
        s = sum(parts)
        p2 = 1
        while p2 < max(s, 1):
            p2 *= 2
        parts[rng.randrange(n)] += p2 - s
        sc = rng.choice([1, 1, 2, 8])
        return [Fraction(p, sc) for p in parts], True
    if mode == "near_one":  # total 1 + 2^-31 is "close": kept as it is
        return [Fraction(1, 2)] * 1 + [Fraction(1, 2) + Fraction(1, 2 ** 31)] + [Fraction(0)] * (n - 2), n >= 2
    if mode == "far_one":  # total 1 + 2^-28 is not close: renormalised (inexact)
        return [Fraction(1, 2)] * 1 + [Fraction(1, 2) + Fraction(1, 2 ** 28)] + [Fraction(0)] * (n - 2), False
    if mode == "counts":  # raw integer counts (arbitrary total)
        return [Fraction(rng.randrange(0, 60)) for _ in range(n)], False
    return [Fraction(rng.randrange(0, 1000), rng.randrange(1, 1000)) for _ in range(n)], False


def _spell(rng, key, form):
    if form == "tuple":
        return list(key)
    if form == "str" and all(0 <= e < 10 for e in key):
        return "".join(str(e) for e in key)
    if form == "comma" and len(key) >= 2:
        return ",".join(str(e) for e in key)
    return list(key)


def _items(rng, w, n, base, form=None, mode=None):
    keys = _keys(rng, w, n, base)
    mode = mode or rng.choice(["dyadic_norm", "dyadic", "dyadic", "any", "any", "counts"])
    if mode in ("near_one", "far_one") and len(keys) < 2:
        mode = "dyadic"
    ws, exact = _weights(rng, len(keys), mode)
    if sum(ws) == 0:
        ws[0] = Fraction(1)
    form = form or rng.choice(["str", "tuple", "comma", "mixed"])
    items = []
    for k, v in zip(keys, ws):
        f = rng.choice(["str", "tuple", "comma"]) if form == "mixed" else form
        items.append([_spell(rng, k, f), rat(v)])
    return items, exact


def _malformed_construct(rng):
    w = rng.randrange(1, 4)
    items, _ = _items(rng, w, rng.randrange(1, 5), 2)
    pick = rng.randrange(18)
    if pick == 0:
        items = []
    elif pick == 1:
        items[rng.randrange(len(items))][1] = rat(Fraction(-rng.randrange(1, 9), 8))
    elif pick == 2:
        items.append(["0" * (w + 1), "1/4"])
    elif pick == 3:
        items.append([[0] * (w + 2), "1/4"])
    elif pick == 4:
        items.append([[-1] + [0] * (w - 1), "1/4"])
    elif pick == 5:
        items.append(["0" * (w - 1) + "a", "1/4"])
    elif pick == 6:
        items.append(["1,,2", "1/4"])
    elif pick == 7:
        items.append([None, "1/4"])
    elif pick == 8:
        items = [[k, 0] for k, _ in items]
    elif pick == 9:
        items = [[k, "1/" + str(10 ** 310)] for k, _ in items]
    elif pick == 10:  # two spellings of the same outcome: the later value wins
        k = [rng.randrange(2) for _ in range(w)]
        items = [["".join(map(str, k)), "1/4"], [list(k), "3/4"], [[1 - k[0]] + k[1:], "1"]]
    elif pick == 11:
        items.append(["-1," + ",".join(["0"] * w), "1/4"])
    elif pick == 12:  # a negative value hidden in a total of exactly 1 ("already normalised")
        k = _keys(rng, w, 2, 2)
        if len(k) < 2:
            k = [[0] * w, [1] * w]
        neg = Fraction(rng.randrange(1, 9), 8)
        items = [[_spell(rng, k[0], rng.choice(["str", "tuple"])), rat(1 + neg)], [list(k[1]), rat(-neg)]]
        rng.shuffle(items)
    elif pick == 13:  # a tiny negative value
        items[rng.randrange(len(items))][1] = rat(-Fraction(1, 10 ** rng.choice([9, 12, 15, 30])))
    elif pick == 14:  # the odd-length key first / in the middle / last, all tuples or all strings
        form = rng.choice(["str", "tuple"])
        ks = _keys(rng, w, 3, 2) + [[0] * (w + 1)]
        rng.shuffle(ks)
        items = [[_spell(rng, k, form), "1/4"] for k in ks]
    elif pick == 15:  # a negative entry deep inside an all-tuple dictionary
        ks = _keys(rng, w, 3, 2)
        bad = [rng.randrange(2) for _ in range(w)]
        bad[rng.randrange(w)] = -rng.randrange(1, 4)
        ks.insert(rng.randrange(len(ks) + 1), bad)
        items = [[list(k), "1/4"] for k in ks]
    elif pick == 16:  # all weights zero but one negative
        items = [[k, 0] for k, _ in items] + [[[1] * w, 0]]
        items[rng.randrange(len(items))][1] = "-1/2"
        seen, uniq = set(), []
        for k, v in items:
            if _parse_key(k) not in seen:
                seen.add(_parse_key(k))
                uniq.append([k, v])
        items = uniq
    else:  # a single outcome with a negative weight
        items = [[items[0][0], rat(-Fraction(rng.randrange(1, 5), 4))]]
    return items


def _vk(rng):
    """value / entry types of the caller's dictionary"""
    return rng.choice(["float", "float", "float", "int", "npfloat"]), rng.choice(["py", "py", "py", "npint"])


def _respell(rng, items, form):
    out = []
    for k, v in items:
        f = rng.choice(["str", "tuple", "comma"]) if form == "mixed" else form
        out.append([_spell(rng, list(_parse_key(k)), f), v])
    return out


def _siblings(rng, items, w, base):
    """variants of one dictionary that differ from it in exactly one respect"""
    kind = rng.choice(["values", "values", "key", "same", "order", "order", "spelling", "nudge"])
    its = [list(x) for x in items]
    if kind == "nudge" and len(its) >= 2:  # nearly the same distribution: a little weight moves between two outcomes
        a, b = rng.sample(range(len(its)), 2)
        tot = sum(unrat(v) for _, v in its)
        d = min(unrat(its[a][1]), tot * Fraction(1, 2 ** rng.choice([6, 10, 14])))
        its[a][1] = rat(unrat(its[a][1]) - d)
        its[b][1] = rat(unrat(its[b][1]) + d)
        return its
    if kind == "values" and len(its) >= 2:
        vs = [v for _, v in its]
        vs = vs[1:] + vs[:1]
        its = [[k, v] for (k, _), v in zip(its, vs)]
    elif kind == "key":
        have = {_parse_key(k) for k, _ in its}
        for cand in _keys(rng, w, 6, base):
            if tuple(cand) not in have:
                its[rng.randrange(len(its))][0] = list(cand)
                break
    elif kind == "order":
        its = its[::-1] if rng.random() < 0.5 else rng.sample(its, len(its))
    elif kind == "spelling":
        its = _respell(rng, its, rng.choice(["str", "tuple", "comma", "mixed"]))
    return its


def _gen_hist(rng, big):
    wide = rng.random() < 0.15
    if wide:
        w, base = rng.randrange(11, 15), 2
    else:
        w = rng.choice([2, 3, 3, 4, 4, 5] + ([6] if big else []))
        base = rng.choice([2, 2, 2, 10])
    mode = rng.choice(["dyadic_norm", "dyadic", "dyadic", "any", "counts"])
    items, exact = _items(rng, w, rng.randrange(2, 9), base, form=rng.choice(["tuple", "tuple", "str", "comma", "mixed"]),
                          mode=mode)
    nz = rng.random() < 0.75
    vt, kt = _vk(rng)
    specs = [_spec(items, nz, vt, kt)]
    for _ in range(rng.choice([0, 1, 1, 2])):
        specs.append(_spec(_siblings(rng, items, w, base), nz if rng.random() < 0.8 else not nz, vt, kt))
    if w <= 3 or (w == 4 and rng.random() < 0.3):
        lists = [list(qs) for r in range(1, w + 1) for qs in itertools.permutations(range(w), r)]
    else:
        lists = []
        for _ in range(rng.randrange(2, 5)):
            sub = rng.sample(range(w), rng.randrange(1, min(w, 4) + 1))
            if wide and rng.random() < 0.7:
                sub[0] = rng.randrange(10, w)
                sub = list(dict.fromkeys(sub))
            lists += [sub, sub[::-1], rng.sample(sub, len(sub))]
        lists.append(list(range(w)))
    rng.shuffle(lists)
    steps = []
    for qs in lists:
        sidx = rng.randrange(len(specs))
        steps.append(["sub", sidx, qs, rng.random() < 0.2])
        r = rng.random()
        if r < 0.08:
            steps.append(["swap", sidx, rng.randrange(8), rng.randrange(8)])
        elif r < 0.12:
            steps.append(["scale", sidx, rng.randrange(8)])
        elif r < 0.17 and len(specs) >= 2:
            steps.append(["replace", sidx, rng.randrange(len(specs))])
        elif r < 0.20:
            steps.append(["sub", sidx, qs + [rng.choice(qs + [w])], False])
        elif r < 0.30:
            steps.append(["sub", rng.randrange(len(specs)), qs, False])
    for st in rng.sample(steps, min(4, len(steps))):  # ask again at the end
        if st[0] == "sub":
            steps.append(["sub", st[1], st[2], False])
    return {"kind": "hist", "specs": specs, "steps": steps, "exact": exact}


def _rand_params(rng, which):
    ps = {}
    if which in ("sigma", "both"):
        r = rng.random()
        if r < 0.15:
            pass  # default
        elif r < 0.6:
            den = rng.choice([1, 1, 2, 10, 16])
            ps["sigma"] = rat(Fraction(rng.randrange(1, 80), den))
            if den == 1 and rng.random() < 0.5:
                ps["stype"] = "int"
        else:
            n = rng.randrange(1, 4)
            sg = [rat(Fraction(rng.randrange(1, 80), rng.choice([1, 4, 10]))) for _ in range(n)]
            if n >= 2 and rng.random() < 0.3:
                sg[1] = sg[0]  # repeated equal widths
            ps["sigma"] = sg
            ps["stype"] = rng.choice(["list", "tuple", "array"])
    if which in ("epsilon", "both"):
        if rng.random() >= 0.15:
            ps["epsilon"] = rat(rng.choice([Fraction(1, 10 ** 9), Fraction(1, 10 ** 6), Fraction(1, 1000), Fraction(1, 100),
                                            Fraction(1, 8), Fraction(1, 2)]))
    return ps


def _gen_pool(rng, big):
    w = rng.choice([1, 2, 2, 3, 3, 4, 6, 9, 12] + ([16, 20, 31] if big else [16]))
    items, _ = _items(rng, w, rng.randrange(2, 9), 2)
    specs = [_spec(items)]
    for _ in range(rng.randrange(1, 4)):
        specs.append(_spec(_siblings(rng, items, w, 2)))
    if rng.random() < 0.6:
        other, _ = _items(rng, w, rng.randrange(1, 9), 2)
        specs.append(_spec(other))
    if rng.random() < 0.3:  # the same outcomes as member 0, listed in another order, with explicit zeros
        z = [[k, v] for k, v in rng.sample(items, len(items))]
        z[0][1] = 0
        if sum(unrat(v) for _, v in z) > 0:
            specs.append(_spec(z))
    params = [_rand_params(rng, "sigma"), _rand_params(rng, "sigma"), _rand_params(rng, "epsilon"),
              _rand_params(rng, "epsilon")]
    n = len(specs)
    steps = []
    for _ in range(rng.randrange(4, 9)):
        fn = rng.choice(["mmd", "mmd", "nll", "jsd"])
        i, j = rng.randrange(n), rng.randrange(n)
        pi = rng.randrange(2) if fn == "mmd" else 2 + rng.randrange(2)
        via = "eval" if rng.random() < 0.2 else "direct"
        steps.append([fn, i, j, pi, via])
        r = rng.random()
        if r < 0.5:
            steps.append([fn, j, i, pi, via])  # the other direction, same parameters
        elif r < 0.7:
            steps.append([fn, i, rng.randrange(n), pi, via])  # one component changed
        elif r < 0.85:
            steps.append([fn, i, j, (pi // 2) * 2 + (1 - pi % 2), via])  # other parameters, same pair
    for st in rng.sample(steps, min(3, len(steps))):
        steps.append(list(st))
    return {"kind": "pool", "specs": specs, "params": params, "steps": steps}


def _gen_files(rng, big):
    specs, fam = [], []
    exact = True
    for _ in range(rng.randrange(2, 5)):
        w = rng.choice([1, 2, 2, 3, 5, 11])
        base = rng.choice([2, 2, 10, 25, 1000])
        if w == 1:
            base = min(base, 10)  # the F7 class (known finding) stays in the corpus / saveload kind
        items, ex = _items(rng, w, rng.randrange(1, 9), base)
        exact = exact and ex
        vt, kt = _vk(rng)
        specs.append(_spec(items, rng.random() < 0.9, vt, kt))
        if rng.random() < 0.6:
            specs.append(_spec(_siblings(rng, items, w, base), specs[-1]["normalize"], vt, kt))
            fam.append([len(specs) - 2, len(specs) - 1])
    n = len(specs)
    content = [None, None]
    steps = []
    for _ in range(rng.randrange(5, 12)):
        pth = rng.randrange(2)
        if content[pth] is None or rng.random() < 0.45:
            if rng.random() < 0.5:
                i = rng.randrange(n)
                steps.append(["save", pth, i])
                content[pth] = "one"
            else:
                ids = [rng.randrange(n) for _ in range(rng.randrange(1, 5))]
                if fam and rng.random() < 0.6:  # siblings (e.g. the same outcomes with other weights) in one file
                    ids += rng.choice(fam)
                    rng.shuffle(ids)
                steps.append(["saves", pth, ids])
                content[pth] = "many"
        mode = rng.choice(["path", "path", "fobj"])
        steps.append(["load" if content[pth] == "one" else "loads", pth, mode])
        r = rng.random()
        if r < 0.25:
            steps.append(["poke"])
        if r < 0.4:
            steps.append(["load" if content[pth] == "one" else "loads", pth, rng.choice(["path", "fobj"])])
    return {"kind": "files", "specs": specs, "steps": steps, "exact": exact}


def generate(rng, tier):
    big = tier == "thorough"
    cases = []
    # ---- constructor
    for _ in range(900 if big else 150):
        w = rng.choice([0, 1, 1, 2, 2, 3, 4, 6] if big else [0, 1, 1, 2, 2, 3, 4])
        base = rng.choice([2, 2, 2, 10, 40])
        mode = rng.choice([None, None, None, "near_one", "far_one"])
        items, exact = _items(rng, w, rng.randrange(1, 9), base, mode=mode)
        vt, kt = _vk(rng)
        cases.append({"kind": "construct", "items": items, "normalize": rng.random() < 0.85, "exact": exact,
                      "vtype": vt, "ktype": kt})
    for _ in range(60 if big else 12):  # from a probability vector (all 2^n bitstrings, zeros included)
        n = rng.randrange(1, 5)
        ws, exact = _weights(rng, 2 ** n, rng.choice(["dyadic_norm", "dyadic", "any"]))
        if sum(ws) == 0:
            ws[0] = Fraction(1)
        items = [[list(k), rat(v)] for k, v in zip(itertools.product([0, 1], repeat=n), ws)]
        cases.append({"kind": "construct", "via": "probs", "items": items, "normalize": True, "exact": exact})
    for _ in range(400 if big else 70):
        cases.append({"kind": "construct", "items": _malformed_construct(rng), "normalize": rng.random() < 0.8,
                      "exact": False})
    # ---- marginals: every ordered sub-list of the qubits for width <= 4
    for w in (1, 2, 3, 4):
        for _ in range(12 if big else 3):
            base = rng.choice([2, 2, 2, 10])
            items, exact = _items(rng, w, rng.randrange(1, min(base ** w, 10) + 1), base)
            nz = rng.random() < 0.85
            for r in range(1, w + 1):
                for qs in itertools.permutations(range(w), r):
                    cases.append({"kind": "subdist", "items": items, "normalize": nz, "qubits": list(qs),
                                  "exact": exact})
    for _ in range(500 if big else 80):
        w = rng.randrange(1, 7 if big else 6)
        base = rng.choice([2, 2, 2, 10, 10, 30])
        items, exact = _items(rng, w, rng.randrange(1, 12), base)
        r = rng.randrange(1, w + 1)
        qs = rng.sample(range(w), r)
        bad = rng.random()
        if bad < 0.06:
            qs = []
        elif bad < 0.12:
            qs = qs + [qs[0]]
        elif bad < 0.18:
            qs = qs + [w + rng.randrange(0, 2)]
        elif bad < 0.22:
            qs = [-rng.randrange(1, w + 3)] + qs[1:]
        vt, kt = _vk(rng)
        cases.append({"kind": "subdist", "items": items, "normalize": rng.random() < 0.9, "qubits": qs,
                      "exact": exact, "vtype": vt, "ktype": kt})
    for _ in range(100 if big else 20):  # wide registers: qubit indices of two digits
        w = rng.randrange(11, 16 if big else 14)
        items, exact = _items(rng, w, rng.randrange(2, 10), rng.choice([2, 2, 10]))
        qs = rng.sample(range(w), rng.randrange(1, 5))
        qs[rng.randrange(len(qs))] = rng.randrange(10, w)
        qs = list(dict.fromkeys(qs))
        cases.append({"kind": "subdist", "items": items, "normalize": rng.random() < 0.9, "qubits": qs, "exact": exact})
    # ---- histories on long-lived objects
    for _ in range(800 if big else 120):
        cases.append(_gen_hist(rng, big))
    for _ in range(800 if big else 120):
        cases.append(_gen_pool(rng, big))
    for _ in range(500 if big else 80):
        cases.append(_gen_files(rng, big))
    # ---- save / load
    for _ in range(500 if big else 90):
        w = rng.choice([0, 1, 1, 2, 2, 3, 5])
        base = rng.choice([2, 2, 10, 10, 25, 1000])
        if w == 1 and base > 10 and rng.random() < 0.8:
            base = 10  # the F7 class is in the corpus; keep most generated cases inside the domain
        items, exact = _items(rng, w, rng.randrange(1, 9), base)
        vt, kt = _vk(rng)
        cases.append({"kind": "saveload", "items": items, "normalize": rng.random() < 0.9, "exact": exact,
                      "many": rng.random() < 0.3, "vtype": vt, "ktype": kt})
    # ---- distances
    for _ in range(900 if big else 160):
        w = rng.randrange(1, 6 if big else 5)
        if rng.random() < 0.12:
            w = rng.choice([8, 9, 10, 12, 16, 24, 31])
        base = 2 if rng.random() < 0.93 else 3
        p, _ = _items(rng, w, rng.randrange(1, 9), base)
        r = rng.random()
        if r < 0.12:
            q = p
        elif r < 0.30 and len(p) >= 2:
            q = _siblings(rng, p, w, base)
        else:
            q, _ = _items(rng, w, rng.randrange(1, 9), base)
        ps = _rand_params(rng, "both")
        c = {"kind": "dist", "p": p, "q": q, "sigma": ps.get("sigma"), "eps": ps.get("epsilon")}
        if ps.get("stype"):
            c["stype"] = ps["stype"]
        cases.append(c)
    for _ in range(40 if big else 6):  # registers of width >= 32 (MMD judged by the oracle only, see ASSUMPTIONS)
        w = rng.choice([32, 33, 40, 48, 63, 64, 65, 70])
        p, _ = _items(rng, w, rng.randrange(1, 4), 2)
        q, _ = _items(rng, w, rng.randrange(1, 4), 2)
        cases.append({"kind": "dist", "p": p, "q": q, "sigma": rat(Fraction(rng.randrange(1, 80), 4)),
                      "eps": "1/1000000000"})
    return cases


def nontrivial(c):
    k = c["kind"]
    if k == "subdist":
        ks = [_parse_key(x) for x, _ in c["items"]]
        if not ks or any(x is None for x in ks):
            return False
        w, qs = len(ks[0]), c["qubits"]
        ok = qs and len(set(qs)) == len(qs) and all(0 <= q < w for q in qs)
        return bool(ok and len(qs) < w and len(ks) >= 2 and (qs != sorted(qs) or (len(qs) == 1 and qs[0] != 0)))
    if k == "dist":
        kp = {_parse_key(x) for x, _ in c["p"]}
        kq = {_parse_key(x) for x, _ in c["q"]}
        return kp != kq
    if k == "construct":
        return len(c["items"]) >= 2 and sum(unrat(v) for _, v in c["items"]) != 1
    if k == "saveload":
        ks = [_parse_key(x) for x, _ in c["items"]]
        return len(ks) >= 2 and all(x is not None and len(x) >= 2 for x in ks)
    if k == "hist":
        subs = [st for st in c["steps"] if st[0] == "sub" and len(set(st[2])) == len(st[2])]
        reord = any(a[1] == b[1] and a[2] != b[2] and sorted(a[2]) == sorted(b[2]) for a in subs for b in subs)
        return reord or len({st[1] for st in subs}) >= 2
    if k == "pool":
        pairs = {}
        for _fn, i, j, pi, _via in c["steps"]:
            pairs.setdefault(pi, set()).add(frozenset((i, j)))
        return any(len(v) >= 2 for v in pairs.values())
    if k == "files":
        content, rewritten = {}, set()
        for st in c["steps"]:
            if st[0] in ("save", "saves"):
                if st[1] in content and content[st[1]] != st[2]:
                    rewritten.add(st[1])
                content[st[1]] = st[2]
            elif st[0] in ("load", "loads") and st[1] in rewritten:
                return True
        return False
    return False


# ---------------------------------------------------------------- implementation adapter
def _quiet(fn):
    with warnings.catch_warnings():
        warnings.simplefilter("ignore")
        return fn()


def run_impl(c):
    D = _mods()
    k = c["kind"]
    if k == "construct":
        return _run_construct(D, c)
    if k == "subdist":
        src = _guard(lambda: _build_spec(D, c))
        if isinstance(src, str):
            return {"source": src}
        before = _canon_dict(src.distribution_dict)
        res = _guard(lambda: _quiet(lambda: _canon_dict(src.subdistribution(list(c["qubits"])).distribution_dict)))
        mid = _canon_dict(src.distribution_dict)
        # the same question again, on the same object (a fresh list: whether the list itself is modified is C20's)
        res2 = _guard(lambda: _quiet(lambda: _canon_dict(src.subdistribution(list(c["qubits"])).distribution_dict)))
        return {"source": before, "source_after": mid, "res": res, "res_again": res2,
                "source_after_again": _canon_dict(src.distribution_dict)}
    if k == "saveload":
        return _run_saveload(D, c)
    if k == "dist":
        return _run_dist(D, c)
    if k == "hist":
        return _run_hist(D, c)
    if k == "pool":
        return _run_pool(D, c)
    if k == "files":
        return _run_files(D, c)
    raise AssertionError("unknown kind")


def _run_construct(D, c):
    import numpy as np
    inp = _to_dict(c["items"], c.get("vtype", "float"), c.get("ktype", "py"))
    before = list(inp.items())
    if c.get("via") == "probs":
        vec = np.array([float(v) for v in inp.values()])

        def make():
            return _quiet(lambda: D.create_bitstring_distribution_from_probability_distribution(vec))
    else:
        def make():
            return _quiet(lambda: D.MeasurementOutcomeDistribution(inp, normalize=c["normalize"]))
    obj = _guard(make)
    if isinstance(obj, str):
        return {"res": obj, "input_intact": list(inp.items()) == before}
    out = {"res": _canon_dict(obj.distribution_dict), "input_intact": list(inp.items()) == before}
    if c.get("via") == "probs":
        return out
    # ---- history: the same dictionary is used again, then edited; the first object must not notice
    obj2 = _guard(make)
    out["res_second"] = obj2 if isinstance(obj2, str) else _canon_dict(obj2.distribution_dict)
    out["res_after_second"] = _canon_dict(obj.distribution_dict)
    keys = list(inp.keys())
    if keys:
        inp[keys[0]] = inp[keys[0]] + 5
        inp[keys[-1]] = inp[keys[-1]] * 3
    out["res_after_input_edit"] = _canon_dict(obj.distribution_dict)
    snap = list(inp.items())
    dd = obj.distribution_dict
    for kk in list(dd.keys()):
        dd[kk] = 0.375
    out["input_intact_after_object_edit"] = list(inp.items()) == snap
    if not isinstance(obj2, str):
        out["second_after_object_edit"] = _canon_dict(obj2.distribution_dict)
    return out


def _run_saveload(D, c):
    import json
    src = _guard(lambda: _build_spec(D, c))
    if isinstance(src, str):
        return {"source": src}
    before = _canon_dict(src.distribution_dict)
    fd, path = tempfile.mkstemp(suffix=".json", prefix="oq_c17_")
    os.close(fd)
    try:
        with warnings.catch_warnings():
            warnings.simplefilter("ignore")
            if c.get("many"):
                D.save_measurement_outcome_distributions([src, src], path)
                with open(path) as f:
                    saved = json.load(f)["measurement_outcome_distribution"]
                saved_items = [[kk, rat(Fraction(v))] for kk, v in saved[0].items()]
                same = saved[0] == saved[1]

                def go():
                    l = D.load_measurement_outcome_distributions(path)
                    assert len(l) == 2 and l[0].distribution_dict == l[1].distribution_dict
                    return _canon_dict(l[0].distribution_dict)
            else:
                D.save_measurement_outcome_distribution(src, path)
                with open(path) as f:
                    saved = json.load(f)["measurement_outcome_distribution"]
                saved_items = [[kk, rat(Fraction(v))] for kk, v in saved.items()]
                same = True

                def go():
                    return _canon_dict(D.load_measurement_outcome_distribution(path).distribution_dict)
            loaded = _guard(go)
    finally:
        os.remove(path)
    return {"source": before, "source_after": _canon_dict(src.distribution_dict), "saved": saved_items,
            "loaded": loaded, "copies_equal": same}


_FNS = {"mmd": "compute_mmd", "nll": "compute_clipped_negative_log_likelihood", "jsd": "compute_jensen_shannon_divergence"}


def _fl(v):
    return float(v)


def _run_dist(D, c):
    P = _guard(lambda: _build(D, c["p"], True))
    Q = _guard(lambda: _build(D, c["q"], True))
    if isinstance(P, str) or isinstance(Q, str):
        return {"p": P if isinstance(P, str) else "ok", "q": Q if isinstance(Q, str) else "ok"}
    pm, pe = _dist_params(c)
    par_m, par_e = _mk_params(pm), _mk_params(pe)  # ONE dictionary for all MMD calls, one for the others
    bp, bq = _canon_dict(P.distribution_dict), _canon_dict(Q.distribution_dict)

    def f(fn, a, b, par):
        return _guard(lambda: _quiet(lambda: _fl(fn(a, b, par))))
    out = {"p": bp, "q": bq,
           "mmd_pq": f(D.compute_mmd, P, Q, par_m), "mmd_qp": f(D.compute_mmd, Q, P, par_m),
           "mmd_pp": f(D.compute_mmd, P, P, par_m),
           "nll_pq": f(D.compute_clipped_negative_log_likelihood, P, Q, par_e),
           "nll_qp": f(D.compute_clipped_negative_log_likelihood, Q, P, par_e),
           "jsd_pq": f(D.compute_jensen_shannon_divergence, P, Q, par_e),
           "jsd_qp": f(D.compute_jensen_shannon_divergence, Q, P, par_e),
           # asked again after everything else, with the dictionaries that were used all along
           "mmd_pq_again": f(D.compute_mmd, P, Q, par_m),
           "nll_pq_again": f(D.compute_clipped_negative_log_likelihood, P, Q, par_e),
           "args_intact": bp == _canon_dict(P.distribution_dict) and bq == _canon_dict(Q.distribution_dict)}
    return out


def _run_hist(D, c):
    srcs = [_guard(lambda s=s: _build_spec(D, s)) for s in c["specs"]]
    init = [x if isinstance(x, str) else _canon_dict(x.distribution_dict) for x in srcs]
    if any(isinstance(x, str) for x in srcs):
        return {"init": init}
    recs = []
    for st in c["steps"]:
        op, si = st[0], st[1]
        src = srcs[si]
        if op == "sub":
            qs = list(st[2])
            obj = _guard(lambda: _quiet(lambda: src.subdistribution(qs)))
            rec = {"res": obj if isinstance(obj, str) else _canon_dict(obj.distribution_dict),
                   "src_mid": _canon_dict(src.distribution_dict)}
            if st[3] and not isinstance(obj, str):  # the caller edits what it got
                rd = obj.distribution_dict
                for kk in list(rd.keys()):
                    rd[kk] = 0.625
                rd[tuple([7] * len(qs))] = 0.125
            del obj
            rec["src"] = _canon_dict(src.distribution_dict)
        elif op in ("swap", "scale"):
            dd = src.distribution_dict
            keys = list(dd.keys())
            a = keys[st[2] % len(keys)]
            if op == "swap":
                b = keys[st[3] % len(keys)]
                dd[a], dd[b] = dd[b], dd[a]
            else:
                dd[a] = dd[a] * 2
            rec = {"src": _canon_dict(src.distribution_dict)}
        elif op == "replace":  # the old object is dropped, a new one (other content) takes its place
            srcs[si] = None
            del src
            srcs[si] = _build_spec(D, c["specs"][st[2]])
            rec = {"src": _canon_dict(srcs[si].distribution_dict)}
        else:
            raise AssertionError("unknown step")
        recs.append(rec)
    return {"init": init, "steps": recs}


def _run_pool(D, c):
    ds = [_guard(lambda s=s: _build_spec(D, s)) for s in c["specs"]]
    init = [x if isinstance(x, str) else _canon_dict(x.distribution_dict) for x in ds]
    if any(isinstance(x, str) for x in ds):
        return {"dists": init}
    pars = [_mk_params(ps) for ps in c["params"]]  # long-lived: every step using params[i] passes the same object
    vals = []
    for fn, i, j, pi, via in c["steps"]:
        f = getattr(D, _FNS[fn])
        if via == "eval":
            vals.append(_guard(lambda: _quiet(lambda: _fl(D.evaluate_distribution_distance(
                ds[i], ds[j], f, distance_measure_parameters=pars[pi])))))
        else:
            vals.append(_guard(lambda: _quiet(lambda: _fl(f(ds[i], ds[j], pars[pi])))))
    return {"dists": init, "vals": vals, "dists_after": [_canon_dict(x.distribution_dict) for x in ds]}


def _run_files(D, c):
    import json
    ds = [_guard(lambda s=s: _build_spec(D, s)) for s in c["specs"]]
    init = [x if isinstance(x, str) else _canon_dict(x.distribution_dict) for x in ds]
    if any(isinstance(x, str) for x in ds):
        return {"dists": init}
    paths = []
    for _ in range(2):
        fd, path = tempfile.mkstemp(suffix=".json", prefix="oq_c17_")
        os.close(fd)
        paths.append(path)
    recs = []
    last = []

    def raw(path):
        with open(path) as f:
            return json.load(f)["measurement_outcome_distribution"]

    def load_with(fn, path, mode):
        if mode == "fobj":
            with open(path) as f:
                return fn(f)
        return fn(path)
    try:
        for st in c["steps"]:
            op = st[0]
            if op == "save":
                _quiet(lambda: D.save_measurement_outcome_distribution(ds[st[2]], paths[st[1]]))
                recs.append({"saved": [[kk, rat(Fraction(v))] for kk, v in raw(paths[st[1]]).items()]})
            elif op == "saves":
                _quiet(lambda: D.save_measurement_outcome_distributions([ds[i] for i in st[2]], paths[st[1]]))
                recs.append({"saved": [[[kk, rat(Fraction(v))] for kk, v in one.items()] for one in raw(paths[st[1]])]})
            elif op == "load":
                obj = _guard(lambda: _quiet(lambda: load_with(D.load_measurement_outcome_distribution, paths[st[1]], st[2])))
                last = [] if isinstance(obj, str) else [obj]
                recs.append({"loaded": obj if isinstance(obj, str) else _canon_dict(obj.distribution_dict)})
            elif op == "loads":
                objs = _guard(lambda: _quiet(lambda: load_with(D.load_measurement_outcome_distributions, paths[st[1]], st[2])))
                last = [] if isinstance(objs, str) else list(objs)
                recs.append({"loaded": objs if isinstance(objs, str) else [_canon_dict(o.distribution_dict) for o in objs]})
            elif op == "poke":  # the caller edits what the loader returned
                for o in last:
                    for kk in list(o.distribution_dict.keys()):
                        o.distribution_dict[kk] = 0.875
                recs.append({})
            else:
                raise AssertionError("unknown step")
    finally:
        for path in paths:
            os.remove(path)
    return {"dists": init, "steps": recs, "dists_after": [_canon_dict(x.distribution_dict) for x in ds]}


# ---------------------------------------------------------------- model requests / comparison
def _track_hist(c, out):
    """[(step, record, content of the addressed object when the step starts)].  The content is followed from the
    OBSERVED state of the implementation's objects: initial dictionaries, then whatever `distribution_dict` shows
    after an edit step of the history (edits are made by the history itself, not by the library)"""
    cur = list(out["init"])
    res = []
    for st, rec in zip(c["steps"], out["steps"]):
        res.append((st, rec, cur[st[1]]))
        if st[0] != "sub":
            cur[st[1]] = rec["src"]
    return res


def _pool_pairs(c):
    pairs = []
    for _fn, i, j, _pi, _via in c["steps"]:
        if (i, j) not in pairs:
            pairs.append((i, j))
    return pairs


def _files_used(c):
    used = []
    for st in c["steps"]:
        for i in ([st[2]] if st[0] == "save" else st[2] if st[0] == "saves" else []):
            if i not in used:
                used.append(i)
    return used


def requests(c, out):
    k = c["kind"]
    if k == "construct":
        return [("construct", {"items": c["items"], "normalize": c["normalize"]})]
    if k == "subdist":
        return [("subdist", {"items": c["items"], "normalize": c["normalize"], "qubits": c["qubits"]})]
    if k == "saveload":
        return [("saveload", {"items": c["items"], "normalize": c["normalize"]})]
    if k == "dist":
        return [("distdata", {"p": c["p"], "q": c["q"]})]
    if k == "hist":
        reqs = [("construct", {"items": s["items"], "normalize": s.get("normalize", True)}) for s in c["specs"]]
        if "steps" in out:
            for st, _rec, before in _track_hist(c, out):
                if st[0] == "sub":  # the model answers from the content the object has at that moment
                    reqs.append(("subdist", {"items": before, "normalize": False, "qubits": st[2]}))
        return reqs
    if k == "pool":
        return [("distdata", {"p": c["specs"][i]["items"], "q": c["specs"][j]["items"]}) for i, j in _pool_pairs(c)]
    if k == "files":
        return [("saveload", {"items": c["specs"][i]["items"], "normalize": c["specs"][i].get("normalize", True)})
                for i in _files_used(c)]
    return []


def _same_dict(impl, model, exact):
    """None if the two canonical dictionaries agree, else a message"""
    if isinstance(impl, str) or isinstance(model, str):
        return None if impl == model else f"impl {impl} model {model}"
    if [k for k, _ in impl] != [k for k, _ in model]:
        return f"keys differ: impl {[k for k, _ in impl]} model {[k for k, _ in model]}"
    for (k, a), (_, b) in zip(impl, model):
        a, b = unrat(a), unrat(b)
        if exact:
            if a != b:
                return f"value at {k}: impl {a} model {b} (exact comparison)"
        elif abs(a - b) > Fraction(1, 10 ** 12) * max(1, abs(b)):
            return f"value at {k}: impl {float(a)} model {float(b)}"
    return None


def _kernel(sigma, x, y):
    if isinstance(sigma, list):
        return sum(math.exp(-(1.0 / (2 * s)) * (x - y) ** 2) for s in sigma) / len(sigma)
    return math.exp(-(1.0 / (2 * sigma)) * (x - y) ** 2)


def _mmd(codes, t, m, sigma):
    d = [a - b for a, b in zip(t, m)]
    return sum(d[i] * _kernel(sigma, codes[i], codes[j]) * d[j] for i in range(len(d)) for j in range(len(d)))


def _nll(t, m, eps):
    return -sum(a * math.log(max(eps, b)) for a, b in zip(t, m))


def _close(a, b, tol=_TOL):
    if isinstance(a, str) or isinstance(b, str):
        return a == b
    return abs(a - b) <= tol * max(1.0, abs(a), abs(b))


def _cmp_num(got, want, tol=_TOL):
    """implementation value vs the value computed from the model's data (nan / inf never agree with a number)"""
    if isinstance(got, str) or isinstance(want, str):
        return got == want
    if not (math.isfinite(got) and math.isfinite(want)):
        return False
    return abs(got - want) <= tol * max(1.0, abs(got), abs(want))


def _model_values(r, ps_m, ps_e):
    """the seven distance values recomputed from the model's discrete data (union of supports, integer codes, value
    vectors) with math.exp / math.log; `None` for MMD entries of registers the model's arithmetic does not cover"""
    rows = r["rows"]
    t = [float(unrat(x[1])) for x in rows]
    m = [float(unrat(x[2])) for x in rows]
    sigma, _ = _sigma_eps(ps_m)
    _, eps = _sigma_eps(ps_e)
    wide = False  # since the repair b6e2a42 the library's MMD is exact on wide registers too: compared like any other
    if wide:
        want = {"mmd_pq": None, "mmd_qp": None, "mmd_pp": None}
    elif isinstance(r["codes"], str):
        want = {"mmd_pq": r["codes"], "mmd_qp": r["codes"]}
    else:
        want = {"mmd_pq": _mmd(r["codes"], t, m, sigma), "mmd_qp": _mmd(r["codes"], m, t, sigma)}
    if not wide:
        want["mmd_pp"] = 0.0 if r["self_ok"] else "err:value"  # theorem mmd_self: defined => 0
    want["nll_pq"] = _nll(t, m, eps)
    want["nll_qp"] = _nll(m, t, eps)
    want["jsd_pq"] = want["nll_pq"] / 2 + want["nll_qp"] / 2
    want["jsd_qp"] = want["jsd_pq"]
    return want


def _cmp_sources(out_src, model_src):
    return None if out_src == model_src else f"source: impl {out_src} model {model_src}"


def compare(c, out, resp):
    for r in resp:
        if isinstance(r, dict) and "driver_error" in r:
            return "driver error: " + r["driver_error"]
    r = resp[0]
    if "exc" in out:
        return f"implementation raised {out}"
    k = c["kind"]
    ex = bool(c.get("exact"))
    if k == "construct":
        msg = _same_dict(out["res"], r, ex)
        if msg:
            return "constructor: " + msg
        if "res_second" in out:
            msg = _same_dict(out["res_second"], r, ex)
            if msg:
                return "constructor, second object from the same dictionary: " + msg
            msg = _same_dict(out["res_after_input_edit"], r, ex) or _same_dict(out["res_after_second"], r, ex)
            if msg:
                return "constructor, first object looked at again later: " + msg
        return None
    if k == "subdist":
        if isinstance(out.get("source"), str) or isinstance(r.get("source"), str):
            return _cmp_sources(out.get("source"), r.get("source"))
        for a, b, name in ((out["source"], r["source"], "source"), (out["source_after"], r["source_after"], "source after the call"),
                           (out["res"], r["result"], "subdistribution"),
                           (out["res_again"], r["result"], "subdistribution asked a second time"),
                           (out["source_after_again"], r["source_after"], "source after the second call")):
            msg = _same_dict(a, b, ex)
            if msg:
                return f"{name}: {msg}"
        return None
    if k == "saveload":
        if isinstance(out.get("source"), str) or isinstance(r.get("source"), str):
            return _cmp_sources(out.get("source"), r.get("source"))
        msg = _same_dict(out["source"], r["source"], ex)
        if msg:
            return "source: " + msg
        if [x for x, _ in out["saved"]] != [x for x, _ in r["saved"]]:
            return f"saved keys: impl {[x for x, _ in out['saved']]} model {[x for x, _ in r['saved']]}"
        if [unrat(v) for _, v in out["saved"]] != [unrat(v) for _, v in out["source"]]:
            return "saved values differ from the stored values"
        msg = _same_dict(out["loaded"], r["loaded"], ex)
        return msg and "loaded: " + msg
    if k == "dist":
        if "rows" not in r or not isinstance(out.get("p"), list):
            impl_ok = isinstance(out.get("p"), list)
            if impl_ok != ("rows" in r):
                return f"construction of p/q: impl {out.get('p')}/{out.get('q')} model {r}"
            return None
        rows = r["rows"]
        union_impl = sorted(set(map(tuple, [kk for kk, _ in out["p"]])) | set(map(tuple, [kk for kk, _ in out["q"]])))
        if sorted(tuple(x[0]) for x in rows) != union_impl:
            return f"union of supports: impl {union_impl} model {[x[0] for x in rows]}"
        pm, pe = _dist_params(c)
        want = _model_values(r, pm, pe)
        want["mmd_pq_again"] = want["mmd_pq"]
        want["nll_pq_again"] = want["nll_pq"]
        for name, v in want.items():
            if v is None:
                continue
            if name == "mmd_pp" and isinstance(out[name], float) and not isinstance(v, str):
                if not abs(out[name]) <= 1e-12:
                    return f"mmd(p,p): impl {out[name]} model 0"
                continue
            if not _cmp_num(out[name], v):
                return f"{name}: impl {out[name]} value from the model's data {v}"
        return None
    if k == "hist":
        n = len(c["specs"])
        for i in range(n):
            msg = _same_dict(out["init"][i], resp[i], ex)
            if msg:
                return f"object {i}: {msg}"
        if "steps" not in out:
            return None
        at = n
        for idx, (st, rec, _before) in enumerate(_track_hist(c, out)):
            if st[0] != "sub":
                continue
            r = resp[at]
            at += 1
            if isinstance(r.get("source"), str):
                return f"step {idx}: the model rejects the content {_before} of the object: {r['source']}"
            for a, b, name in ((rec["res"], r["result"], "subdistribution"),
                               (rec["src_mid"], r["source_after"], "source after the call")):
                msg = _same_dict(a, b, ex)
                if msg:
                    return f"step {idx} {st} of the history: {name}: {msg}"
        return None
    if k == "pool":
        if "vals" not in out:
            ok_model = all("rows" in x for x in resp)
            return None if not ok_model else f"construction of the pool: impl {out.get('dists')} model accepts all"
        by = dict(zip(_pool_pairs(c), resp))
        for idx, (st, val) in enumerate(zip(c["steps"], out["vals"])):
            fn, i, j, pi, _via = st
            r = by[(i, j)]
            if "rows" not in r:
                return f"construction of the pool: model {r}"
            want = _model_values(r, c["params"][pi], c["params"][pi])
            v = want["mmd_pq" if fn == "mmd" else "nll_pq" if fn == "nll" else "jsd_pq"]
            if v is None:
                continue
            if not _cmp_num(val, v):
                return f"step {idx} {st} of the history: impl {val} value from the model's data {v}"
        return None
    if k == "files":
        if "steps" not in out:
            return None if any(isinstance(x.get("source"), str) for x in resp) else \
                f"construction: impl {out.get('dists')} model accepts all"
        by = dict(zip(_files_used(c), resp))
        for i, r in by.items():
            if isinstance(r.get("source"), str):
                return f"object {i}: impl accepted, model {r['source']}"
            msg = _same_dict(out["dists"][i], r["source"], ex)
            if msg:
                return f"object {i}: {msg}"
        content = {}
        for idx, (st, rec) in enumerate(zip(c["steps"], out["steps"])):
            op = st[0]
            if op in ("save", "saves"):
                ids = [st[2]] if op == "save" else list(st[2])
                content[st[1]] = ids
                saved = [rec["saved"]] if op == "save" else rec["saved"]
                if len(saved) != len(ids):
                    return f"step {idx} {st}: {len(saved)} dictionaries written for {len(ids)} distributions"
                for i, sv in zip(ids, saved):
                    if [x for x, _ in sv] != [x for x, _ in by[i]["saved"]]:
                        return f"step {idx} {st}: saved keys: impl {[x for x, _ in sv]} model {[x for x, _ in by[i]['saved']]}"
                    if [unrat(v) for _, v in sv] != [unrat(v) for _, v in out["dists"][i]]:
                        return f"step {idx} {st}: saved values differ from the stored values of object {i}"
            elif op in ("load", "loads"):
                ids = content[st[1]]
                got = [rec["loaded"]] if op == "load" else rec["loaded"]
                if isinstance(got, str):
                    got = [got] * len(ids)
                if len(got) != len(ids):
                    return f"step {idx} {st}: {len(got)} distributions loaded, {len(ids)} were saved"
                for i, g in zip(ids, got):
                    msg = _same_dict(g, by[i]["loaded"], ex)
                    if msg:
                        return f"step {idx} {st}: loaded (object {i}): {msg}"
        return None
    return None


# ---------------------------------------------------------------- property oracle (implementation only)
def _as_map(canon):
    return {tuple(k): unrat(v) for k, v in canon}


def oracle(c, out):
    k = c["kind"]
    if "exc" in out:
        return (f"{k}-unexpected-{out['exc']}", f"implementation raised {out['exc']}: {out.get('msg')}")
    if k == "construct":
        return _oracle_construct(c, out)
    if k == "subdist":
        return _oracle_subdist(c, out)
    if k == "saveload":
        return _oracle_saveload(c, out)
    if k == "dist":
        return _oracle_dist(c, out)
    if k == "hist":
        return _oracle_hist(c, out)
    if k == "pool":
        return _oracle_pool(c, out)
    if k == "files":
        return _oracle_files(c, out)
    return None


def _classify_input(items):
    """('malformed'|'collision'|'invalid'|'degenerate'|'valid', parsed keys, values)"""
    keys = [_parse_key(x) for x, _ in items]
    vals = [unrat(v) for _, v in items]
    if any(x is None for x in keys):
        return "malformed", keys, vals
    if len(set(keys)) != len(keys):
        return "collision", keys, vals
    if (not keys or any(v < 0 for v in vals) or len({len(x) for x in keys}) != 1
            or any(e < 0 for x in keys for e in x)):
        return "invalid", keys, vals
    tot = sum(float(v) for v in vals)
    if tot == 0 or tot < 2.3e-308:
        return "degenerate", keys, vals
    return "valid", keys, vals


def _oracle_construct(c, out):
    cls, keys, vals = _classify_input(c["items"])
    res = out["res"]
    if not out.get("input_intact", True):
        return ("construct-mutates-input", f"the constructor (normalize={c['normalize']}) modified the dictionary "
                f"{c['items']} passed to it")
    if cls == "invalid":
        if not isinstance(res, str):
            why = ("empty" if not keys else "negative value" if any(v < 0 for v in vals)
                   else "unequal key lengths" if len({len(x) for x in keys}) != 1 else "negative entry")
            return ("construct-accepts-invalid", f"input with {why} was accepted: {c['items']} -> {res}")
        return None
    if isinstance(res, str):
        if cls == "valid":
            return ("construct-rejects-valid", f"well-formed input {c['items']} rejected with {res}")
        return None
    got = [(tuple(kk), unrat(v)) for kk, v in res]
    if any(v < 0 for _, v in got):
        return ("construct-negative-probability", f"stored values {res} contain a negative number")
    s = sum(float(v) for _, v in got)
    if c["normalize"] and abs(s - 1) > 2e-9:
        return ("construct-not-normalised", f"stored values sum to {s!r} with normalisation on ({c['items']})")
    if cls == "valid" and c.get("via") == "probs":
        tot = sum(vals)
        gm, wm = dict(got), dict(zip(keys, vals))
        if len(gm) != len(got) or not set(gm) <= set(wm):
            return ("construct-keys", f"stored keys {[kk for kk, _ in got]} for the probability vector {vals}")
        for kk, v in wm.items():
            if abs(float(gm.get(kk, 0)) - float(v / tot)) > 2e-9:
                return ("construct-proportions", f"probability vector {[float(x) for x in vals]}: value at {kk} is "
                        f"{float(gm.get(kk, 0))!r}, proportional share is {float(v / tot)!r}")
        return None
    if cls == "valid":
        if [kk for kk, _ in got] != keys:
            return ("construct-keys", f"stored keys {[kk for kk, _ in got]} differ from the input keys {keys}")
        tot = sum(vals)
        for (kk, g), v in zip(got, vals):
            want = v / tot if c["normalize"] else v
            if abs(float(g) - float(want)) > 2e-9 * max(1.0, abs(float(want))):
                return ("construct-proportions", f"value at {kk} is {float(g)!r}, proportional share is {float(want)!r}")
    # "always holds ...": the object keeps its content whatever happens later to the dictionary it was built from,
    # and two objects built from one dictionary do not share state
    if "res_second" in out and cls == "valid":
        if out["res_second"] != res:
            return ("construct-not-repeatable", f"the same dictionary {c['items']} (normalize={c['normalize']}) gave {res} the "
                    f"first time and {out['res_second']} the second time")
        if out["res_after_second"] != res:
            return ("construct-aliases-input", f"object built from {c['items']} held {res}; after a second object was built "
                    f"from the same dictionary it holds {out['res_after_second']}")
        if out["res_after_input_edit"] != res:
            return ("construct-aliases-input", f"object built from {c['items']} held {res}; after the caller updated its own "
                    f"dictionary the object holds {out['res_after_input_edit']}")
        if out.get("second_after_object_edit", res) != res:
            return ("construct-aliases-input", f"two objects built from {c['items']}: editing the first one's "
                    f"distribution_dict changed the second to {out['second_after_object_edit']}")
        if not out.get("input_intact_after_object_edit", True):
            return ("construct-aliases-input", f"editing the distribution_dict of the object built from {c['items']} "
                    "changed the caller's dictionary")
    return None


def _multidigit(canon):
    return any(e >= 10 for kk, _ in canon for e in kk)


def _show_specs(specs):
    return "; ".join(f"d{i} = MeasurementOutcomeDistribution({sp['items']}, normalize={sp.get('normalize', True)})"
                     for i, sp in enumerate(specs))


def _show_hist_steps(steps):
    out = []
    for st in steps:
        if st[0] == "sub":
            out.append(f"r = d{st[1]}.subdistribution({st[2]})" + (", r.distribution_dict edited" if st[3] else ""))
        elif st[0] == "swap":
            out.append(f"values no. {st[2]} and {st[3]} (mod size) of d{st[1]}.distribution_dict swapped")
        elif st[0] == "scale":
            out.append(f"value no. {st[2]} (mod size) of d{st[1]}.distribution_dict doubled")
        else:
            out.append(f"d{st[1]} = a new object built like d{st[2]}")
    return "; ".join(out) if out else "nothing"


def _judge_marginal(src, qs, res, ctx=""):
    """the marginal sentence for one answer `res` of subdistribution(qs) on an object whose content is `src`"""
    w = len(src[0][0])
    if any(q < 0 for q in qs):
        return None
    bad = (not qs) or len(set(qs)) != len(qs) or any(q >= w for q in qs)
    if bad:
        if not isinstance(res, str):
            return ("subdistribution-accepts-invalid-qubits", f"{ctx}qubit list {qs} on width {w} accepted: {res}")
        return None
    sig = "subdistribution-multidigit-entry" if _multidigit(src) else "subdistribution-marginal"
    if isinstance(res, str):
        return (sig, f"{ctx}subdistribution({qs}) of {src} raised {res}")
    want = {}
    for kk, v in src:
        nk = tuple(kk[q] for q in qs)
        want[nk] = want.get(nk, Fraction(0)) + unrat(v)
    got = _as_map(res)
    if len(got) != len(res):
        return (sig, f"{ctx}duplicate outcomes in the marginal {res}")
    if set(got) != set(want):
        return (sig, f"{ctx}marginal of {src} on {qs} has outcomes {sorted(got)}, the projections are {sorted(want)}")
    for nk, v in want.items():
        if abs(float(got[nk]) - float(v)) > 1e-12 * max(1.0, float(v)):
            return (sig, f"{ctx}marginal of {src} on {qs} at {nk} is {float(got[nk])!r}, the sum of the projecting "
                    f"outcomes is {float(v)!r}")
    return None


def _oracle_subdist(c, out):
    src = out.get("source")
    if isinstance(src, str):
        cls, _, _ = _classify_input(c["items"])
        if cls == "valid":
            return ("construct-rejects-valid", f"well-formed input {c['items']} rejected with {src}")
        return None
    if out["source_after"] != src:
        return ("subdistribution-mutates-source",
                f"source was {src} before and {out['source_after']} after subdistribution({c['qubits']})")
    f = _judge_marginal(src, c["qubits"], out["res"])
    if f:
        return f
    if "res_again" in out:
        if out["source_after_again"] != src:
            return ("subdistribution-mutates-source",
                    f"source was {src} before and {out['source_after_again']} after two calls of subdistribution({c['qubits']})")
        return _judge_marginal(src, c["qubits"], out["res_again"], "asked a second time on the same object: ")
    return None


def _oracle_hist(c, out):
    for sp, x in zip(c["specs"], out["init"]):
        if isinstance(x, str):
            cls, _, _ = _classify_input(sp["items"])
            if cls == "valid":
                return ("construct-rejects-valid", f"well-formed input {sp['items']} rejected with {x}")
    if "steps" not in out:
        return None
    for idx, (st, rec, before) in enumerate(_track_hist(c, out)):
        ctx = f"{_show_specs(c['specs'])}; then {_show_hist_steps(c['steps'][:idx])}; now d{st[1]}: "
        if st[0] == "sub":
            if rec["src_mid"] != before:
                return ("subdistribution-mutates-source",
                        f"{ctx}content was {before} before and {rec['src_mid']} after subdistribution({st[2]})")
            f = _judge_marginal(before, st[2], rec["res"], ctx)
            if f:
                return f
            if rec["src"] != before:
                return ("subdistribution-result-shares-state",
                        f"{ctx}editing the object returned by subdistribution({st[2]}) changed the source from {before} "
                        f"to {rec['src']}")
        elif st[0] == "replace":
            if rec["src"] != out["init"][st[2]]:
                return ("construct-not-repeatable", f"{ctx}a second object built from {c['specs'][st[2]]['items']} holds "
                        f"{rec['src']}, the first one held {out['init'][st[2]]}")
    return None


def _judge_roundtrip(src, ld, what):
    """the save/load sentence for one loaded dictionary `ld` of a saved distribution whose content is `src`"""
    tot = sum(float(unrat(v)) for _, v in src)
    if not math.isclose(tot, 1):
        return None  # the sentence is about normalised distributions
    w = len(src[0][0])
    sig = "single-subsystem-multidigit-key" if (w == 1 and _multidigit(src)) else "save-load-roundtrip"
    if isinstance(ld, str):
        return (sig, f"{what}: saved {src}; loading raised {ld}")
    if _as_map(ld) != _as_map(src) or len(ld) != len(src):
        return (sig, f"{what}: saved {src}; loaded {ld}")
    return None


def _oracle_saveload(c, out):
    src = out.get("source")
    if isinstance(src, str):
        cls, _, _ = _classify_input(c["items"])
        if cls == "valid":
            return ("construct-rejects-valid", f"well-formed input {c['items']} rejected with {src}")
        return None
    if out["source_after"] != src:
        return ("save-mutates-source", "saving modified the distribution")
    if not out.get("copies_equal", True):
        return ("save-load-roundtrip", "two copies of one distribution were written differently")
    return _judge_roundtrip(src, out["loaded"], f"written as keys {[x for x, _ in out['saved']]}")


def _oracle_files(c, out):
    ds = out["dists"]
    for sp, x in zip(c["specs"], ds):
        if isinstance(x, str):
            cls, _, _ = _classify_input(sp["items"])
            if cls == "valid":
                return ("construct-rejects-valid", f"well-formed input {sp['items']} rejected with {x}")
    if "steps" not in out:
        return None
    content = {}
    for idx, (st, rec) in enumerate(zip(c["steps"], out["steps"])):
        op = st[0]
        if op == "save":
            content[st[1]] = [st[2]]
        elif op == "saves":
            content[st[1]] = list(st[2])
        elif op in ("load", "loads"):
            ids = content[st[1]]
            what = (f"{_show_specs(c['specs'])}; steps [op, file no., objects / how] {c['steps'][:idx]}, then {st} "
                    f"(the file holds {['d%d' % i for i in ids]})")
            got = rec["loaded"]
            if op == "load":
                got = [got]
            elif isinstance(got, str):
                got = [got] * len(ids)
            if len(got) != len(ids):
                if all(math.isclose(sum(float(unrat(v)) for _, v in ds[i]), 1) for i in ids):
                    return ("save-load-roundtrip", f"{what}: {len(ids)} distributions saved, {len(got)} loaded")
                continue
            for i, g in zip(ids, got):
                f = _judge_roundtrip(ds[i], g, what)
                if f:
                    return f
    if out["dists_after"] != ds:
        return ("save-mutates-source", f"saving / loading modified a distribution: {ds} -> {out['dists_after']}")
    return None


def _is_bits(canon):
    return all(len(kk) >= 1 and all(e in (0, 1) for e in kk) for kk, _ in canon)


def _vectors(P, Q):
    union = sorted(set(P) | set(Q))
    return union, [float(P.get(kk, 0)) for kk in union], [float(Q.get(kk, 0)) for kk in union]


def _judge_mmd(val, P, Q, sigma, what):
    """the MMD sentences for one value of compute_mmd between the distributions P and Q (outcome -> probability):
    defined, a non-negative number, zero between equal distributions, and the quadratic form of the difference"""
    union, t, m = _vectors(P, Q)
    bits = all(len(kk) >= 1 and all(e in (0, 1) for e in kk) for kk in union)
    wide = bits and len(union[0]) >= 32

    def sg(x):
        return "mmd-wide-register-overflow" if wide else x
    if isinstance(val, str):
        return (sg("mmd-raises" if bits else "mmd-nonbinary-outcome"), f"compute_mmd raised {val}: {what}")
    if not math.isfinite(val):
        return (sg("mmd-not-a-number"), f"compute_mmd returned {val!r}: {what}")
    if val < -1e-12:
        return (sg("mmd-negative"), f"mmd = {val!r} < 0: {what}")
    if t == m and abs(val) > 1e-12:
        return (sg("mmd-self-nonzero"), f"mmd between equal distributions = {val!r}: {what}")
    if bits:
        codes = [int("".join(map(str, kk)), 2) for kk in union]
        ref = _mmd(codes, t, m, sigma)
        if abs(ref - val) > _TOL * max(1.0, abs(ref)):
            return (sg("mmd-value"), f"mmd = {val!r}, quadratic form of the difference = {ref!r}: {what}")
    return None


def _judge_sym(a, b, sig, what, wide=False):
    if isinstance(a, str) or isinstance(b, str):
        return None  # judged by the per-value clauses
    if a != b and not abs(a - b) <= _TOL * max(1.0, abs(a)):  # (nan differs from everything, itself included)
        return ("mmd-wide-register-overflow" if wide else sig, f"d(p,q)={a!r} d(q,p)={b!r}: {what}")
    return None


def _judge_nll(val, a, b, eps, n, what):
    """clipped NLL of target vector `a` under model vector `b`: at least the entropy (up to the clipping constant),
    and the defining sum"""
    if isinstance(val, str):
        return ("nll-raises", f"clipped log-likelihood raised {val}: {what}")
    ent = -sum(x * math.log(x) for x in a if x > 0)
    bound = ent + (sum(a) - sum(b)) - n * eps
    if not math.isfinite(val) or val < bound - _TOL * max(1.0, abs(bound)):
        return ("nll-below-entropy", f"clipped NLL = {val!r} < entropy - n*eps = {bound!r}: {what}")
    ref = _nll(a, b, eps)
    if abs(ref - val) > _TOL * max(1.0, abs(ref)):
        return ("nll-value", f"clipped NLL = {val!r}, definition gives {ref!r}: {what}")
    return None


def _judge_jsd(val, t, m, eps, what):
    if isinstance(val, str):
        return ("nll-raises", f"divergence raised {val}: {what}")
    ref = _nll(t, m, eps) / 2 + _nll(m, t, eps) / 2
    if not math.isfinite(val) or abs(val - ref) > _TOL * max(1.0, abs(ref)):
        return ("jsd-value", f"jsd = {val!r} is not the mean of the two clipped log-likelihoods ({ref!r}): {what}")
    return None


def _oracle_dist(c, out):
    if not isinstance(out.get("p"), list):
        for name in ("p", "q"):
            cls, _, _ = _classify_input(c[name])
            if cls == "valid" and out.get(name) != "ok":
                return ("construct-rejects-valid", f"well-formed input {c[name]} rejected with {out.get(name)}")
        return None
    if not out.get("args_intact", True):
        return ("distance-mutates-argument", "a distance function modified one of its arguments")
    P, Q = _as_map(out["p"]), _as_map(out["q"])
    pm, pe = _dist_params(c)
    sigma, _ = _sigma_eps(pm)
    _, eps = _sigma_eps(pe)
    union, t, m = _vectors(P, Q)
    bits = _is_bits(out["p"]) and _is_bits(out["q"])
    wide = bits and len(union[0]) >= 32
    what = f"p={out['p']} q={out['q']} sigma={sigma} epsilon={eps}"

    def mmd_part():
        mm = [out["mmd_pq"], out["mmd_qp"], out["mmd_pp"], out.get("mmd_pq_again", out["mmd_pq"])]
        if any(isinstance(v, str) for v in mm):
            sig = "mmd-wide-register-overflow" if wide else "mmd-raises" if bits else "mmd-nonbinary-outcome"
            return (sig, f"compute_mmd raised ({mm}) on distributions {out['p']} / {out['q']}")
        return (_judge_sym(mm[0], mm[1], "mmd-not-symmetric", "mmd, " + what, wide)
                or _judge_mmd(mm[0], P, Q, sigma, "mmd(p,q), " + what)
                or _judge_mmd(mm[1], Q, P, sigma, "mmd(q,p), " + what)
                or _judge_mmd(mm[2], P, P, sigma, "mmd(p,p), " + what)
                or _judge_mmd(mm[3], P, Q, sigma, "mmd(p,q) asked again with the same parameter dictionary, " + what))

    def nll_part():
        nl = [out["nll_pq"], out["nll_qp"], out["jsd_pq"], out["jsd_qp"], out.get("nll_pq_again", out["nll_pq"])]
        if any(isinstance(v, str) for v in nl):
            return ("nll-raises", f"log-likelihood / divergence raised: {nl}")
        return (_judge_nll(nl[0], t, m, eps, len(union), "p under q, " + what)
                or _judge_nll(nl[1], m, t, eps, len(union), "q under p, " + what)
                or _judge_sym(nl[2], nl[3], "jsd-not-symmetric", "jsd, " + what)
                or _judge_jsd(nl[2], t, m, eps, "jsd(p,q), " + what)
                or _judge_jsd(nl[3], m, t, eps, "jsd(q,p), " + what)
                or _judge_nll(nl[4], t, m, eps, len(union),
                              "p under q asked again with the same parameter dictionary, " + what))
    if wide or not bits:  # the MMD failure of these classes is a known finding: let it not hide the other sentences
        return nll_part() or mmd_part()
    return mmd_part() or nll_part()


def _oracle_pool(c, out):
    for sp, x in zip(c["specs"], out["dists"]):
        if isinstance(x, str):
            cls, _, _ = _classify_input(sp["items"])
            if cls == "valid":
                return ("construct-rejects-valid", f"well-formed input {sp['items']} rejected with {x}")
    if "vals" not in out:
        return None
    Ds = [_as_map(d) for d in out["dists"]]
    known_first = None
    seen = {}
    for idx, (st, val) in enumerate(zip(c["steps"], out["vals"])):
        fn, i, j, pi, via = st
        sigma, eps = _sigma_eps(c["params"][pi])
        union, t, m = _vectors(Ds[i], Ds[j])
        what = (f"{_show_specs(c['specs'])}; parameter dictionaries par0..par{len(c['params']) - 1} = {c['params']} "
                f"(each ONE object, re-used); after the calls "
                f"{[f'{a}(d{b},d{d},par{e})' for a, b, d, e, _ in c['steps'][:idx]]}: {fn}(d{i}, d{j}, par{pi})"
                + (" through evaluate_distribution_distance" if via == "eval" else ""))
        wide = len(union[0]) >= 32
        back = seen.get((fn, j, i, pi))
        if fn == "mmd":
            f = _judge_mmd(val, Ds[i], Ds[j], sigma, what)
            if not f and back is not None:
                f = _judge_sym(back, val, "mmd-not-symmetric", what, wide)
        elif fn == "nll":
            f = _judge_nll(val, t, m, eps, len(union), what)
        else:
            f = _judge_jsd(val, t, m, eps, what)
            if not f and back is not None:
                f = _judge_sym(back, val, "jsd-not-symmetric", what)
        if f:
            if f[0] in ("mmd-wide-register-overflow", "mmd-nonbinary-outcome"):
                known_first = known_first or f
            else:
                return f
        seen[(fn, i, j, pi)] = val
    if out["dists_after"] != out["dists"]:
        return ("distance-mutates-argument", f"a distance function modified a distribution: {out['dists']} -> "
                f"{out['dists_after']}")
    return known_first


def distribution(cases, outs):
    kinds = {}
    widths = {}
    errs = {}
    for c, o in zip(cases, outs):
        kinds[c["kind"]] = kinds.get(c["kind"], 0) + 1
        its = c.get("items", c.get("p", c["specs"][0]["items"] if c.get("specs") else []))
        ks = [_parse_key(x) for x, _ in its]
        if ks and ks[0] is not None:
            widths[len(ks[0])] = widths.get(len(ks[0]), 0) + 1
        vs = list(o.values()) if isinstance(o, dict) else []
        for rec in (o.get("steps") or [] if isinstance(o, dict) else []):
            vs += [rec.get("res"), rec.get("loaded")] if isinstance(rec, dict) else []
        vs += (o.get("vals") or []) if isinstance(o, dict) else []
        for v in vs:
            if isinstance(v, str) and v.startswith("err:"):
                errs[v] = errs.get(v, 0) + 1
    return {"widths": {str(k): v for k, v in sorted(widths.items())}, "errors_hit": errs,
            "exact_compared": sum(1 for c in cases if c.get("exact")),
            "reordered_marginals": sum(1 for c in cases if c["kind"] == "subdist" and c["qubits"] != sorted(c["qubits"])),
            "history_steps": sum(len(c["steps"]) for c in cases if c["kind"] in ("hist", "pool", "files"))}
