"""C17 — outcome distributions stay normalised; marginals and distances obey their laws."""
import itertools
import math
import os
import re
import tempfile
import warnings
from fractions import Fraction

from .. import common
from functools import lru_cache

from ..common import rat
from ..common import unrat as _unrat_common


@lru_cache(maxsize=400000)
def _unrat_text(j):
    return _unrat_common(j)


def unrat(j):
    """common.unrat with a memo for the textual 'p/q' form (big dictionaries are read many times)"""
    return _unrat_text(j) if isinstance(j, str) else _unrat_common(j)

PROP = "C17"
RULE = ("kinds construct / subdist / saveload / dist (one call on fresh objects) and hist / pool / files (a history of "
        "calls on long-lived objects: marginals, distances, save/load); structured random dictionaries (bit, digit and "
        "multi-digit outcomes; string, comma-string and tuple keys; float / int / numpy values and entries; dyadic and "
        "arbitrary weights) + a malformed stream + all ordered qubit sub-lists for width <= 4; non-trivial: marginal "
        "onto a proper subset listed out of ascending order (or a single non-first qubit), a pair of distributions "
        "with different supports, an un-normalised constructor input with >= 2 outcomes, a save/load of >= 2 outcomes "
        "of width >= 2, a history asking one object for the same qubit set in two orders or touching >= 2 sibling "
        "objects, a distance history re-using one parameter dictionary on >= 2 different pairs, a file history that "
        "overwrites a path with different content and loads it again; histories also edit objects in place (swap / "
        "double / rename an outcome) before asking again, take the marginal of a marginal, write siblings of equal "
        "file size over each other, save empty and 64+ element lists; sizes: 64-300 outcomes, widths to 70, qubit "
        "lists to 15, an invalid item at position >= 64; distinct = distinct canonical JSON of the case")
TRUSTED = [
    "Python float arithmetic: the model computes in exact rationals; implementation and model are compared exactly "
    "on dyadic inputs whose sums/normalisations are exact in binary64 and within 1e-12 (relative) otherwise; "
    "distances within 1e-9",
    "math.isclose(x, 1) is |x-1| <= 1e-9*max(|x|,1) (enters the theorems as an arbitrary predicate `close`)",
    "math.exp / math.log / np.exp are the real exponential and logarithm up to rounding (the analytic theorems "
    "mmd_nonneg, nll_ge_entropy are over R; the harness recomputes the value from the model's exact data with "
    "math.exp/math.log and compares within 1e-9)",
    "int(str) parses ASCII [+-]?digits+ as decimal (other spellings accepted by Python's int() are not generated); "
    "str(int) is the decimal numeral; str.split / str.join / dict insertion order as documented",
    "json.dumps / json.load is the identity on {text key: double} objects and keeps insertion order; the file "
    "system returns what was written",
    "iteration order of Python's set of outcomes is arbitrary: theorems mmd_order_irrelevant / nll_order_irrelevant "
    "show the real-valued result does not depend on it",
]
ASSUMPTIONS = [
    "in-domain inputs: dictionaries whose keys are equal-length tuples of non-negative ints, digit strings or "
    "comma-separated integer strings, with non-negative finite weights of positive total (a zero / denormal total "
    "is rejected with ValueError and is treated as a rejection, not a violation)",
    "kernel widths sigma > 0 (scalar or non-empty list), clipping constant epsilon > 0",
    "qubit lists for the marginal: non-empty, distinct, 0 <= q < width (negative Python indices are modelled but "
    "not judged by the oracle)",
    "histories: `distribution_dict` is a public attribute; a history may swap / double its values in place (the "
    "object stays a valid distribution) and may edit objects RETURNED by the library; every later answer is judged "
    "against the current content of the object asked",
    "documented defaults: sigma = 1.0 and epsilon = 1e-9 when the parameter dictionary lacks the key",
    "exotic but legal inputs used: weights as Python ints (counts, also > 2^53) / numpy.float64, outcome entries as "
    "numpy.int64 and as huge ints (2^61 - 1, 2^61: hash twins of 0 and 1), qubit indices as numpy.int64, bandwidth / "
    "epsilon as int / numpy.float64 / list / tuple / list of numpy.float64 / ndarray (float64: plain, read-only, a strided view of "
    "a larger buffer; int64 for whole widths; NOT float32 widths, whose kernel is computed in single precision), the parameter "
    "dictionary as dict / OrderedDict / "
    "defaultdict / MappingProxyType (all accepted by the unchanged library: the functions only call .get on it and iterate the "
    "widths; every answer is judged with the widths AS WRITTEN by the caller, so a function that edits the caller's array / "
    "dictionary fails the value clause on the next call that re-uses it), file names as pathlib.Path for the savers (the "
    "loaders take str or an open file), an empty list for the plural saver; weights spanning 2^-40..2^40 "
    "(stored values and marginals are judged with RELATIVE tolerances 2e-9 / 1e-12), totals of 1 +- 2^-10..2^-36, "
    "totals just above the smallest normal double; dictionaries of 64-300 outcomes, registers up to width 70",
    "MMD on registers of width >= 32 overflowed int64 before the repair b6e2a42 (fixed finding mmd-wide-register-overflow); "
    "it is now compared and judged like any other register",
]

_TOL = 1e-9


def _mods():
    common.use_repo()
    import orquestra.quantum.distributions as D
    return D


# ---------------------------------------------------------------- case construction helpers
def _raw_key(k):
    """JSON key -> python key: str stays, list -> tuple, None -> a key of a wrong type"""
    if isinstance(k, str):
        return k
    if isinstance(k, list):
        return tuple(k)
    return 5


def _to_dict(items, vtype="float", ktype="py"):
    """the dictionary a caller would pass.  vtype: float | int (integral weights as Python ints, e.g. counts) |
    npfloat (numpy.float64); ktype: py | npint (tuple entries as numpy.int64)"""
    import numpy as np
    out = {}
    for k, v in items:
        key = _raw_key(k)
        if ktype == "npint" and isinstance(key, tuple):
            key = tuple(np.int64(e) for e in key)
        f = unrat(v)
        if vtype == "int" and f.denominator == 1:
            val = int(f)
        elif vtype == "npfloat":
            val = np.float64(float(f))
        else:
            val = float(f)
        out[key] = val
    return out


def _canon_dict(dd):
    """distribution_dict -> [[key as list, exact value]] in insertion order"""
    return [[[int(e) for e in k], rat(Fraction(v))] for k, v in dd.items()]


# --- HTY number types of weights / key entries (class "number type / array dtype"): the caller's dictionary with other TYPES of the
# same numbers.  A type is used only where it holds every value exactly (a narrow numpy integer type also has to hold three times
# the total plus five: the constructor history edits the caller's dictionary, and the unchanged library adds numpy scalars up in
# their own type - see ASSUMPTIONS), so a case means the same whatever the type.
HTY_VTYPES = ["Fraction", "bool", "npfloat32", "npint64", "npint32", "npint8", "npuint8", "npuint64"]
HTY_KTYPES = ["npint8", "npuint8", "npint32", "npuint64", "npmix", "bool"]
_HTY_NPINT = {"npint64": "int64", "npint32": "int32", "npint8": "int8", "npuint8": "uint8", "npuint64": "uint64"}
_to_dict_plain = _to_dict
_canon_dict_plain = _canon_dict


def _hty_values(fs, vtype):
    """the rationals fs as objects of the type vtype, or None (-> the plain route) where the type cannot hold all of them"""
    import numpy as np
    if vtype == "Fraction":
        return [Fraction(f) for f in fs]
    if vtype == "bool":
        return [bool(f) if f in (0, 1) else (int(f) if f.denominator == 1 else float(f)) for f in fs] if any(f in (0, 1) for f in fs) else None
    if vtype == "npfloat32":
        with warnings.catch_warnings():
            warnings.simplefilter("ignore")
            ok = all(f == Fraction(float(f)) and float(np.float32(float(f))) == float(f) for f in fs)
            tot = sum(fs)
            ok = ok and float(np.float32(float(tot))) == float(tot) == tot
        return [np.float32(float(f)) for f in fs] if ok else None
    if vtype in _HTY_NPINT:
        info = np.iinfo(_HTY_NPINT[vtype])
        if not all(f.denominator == 1 for f in fs):
            return None
        if 3 * sum(f for f in fs if f > 0) + 5 > info.max or min(list(fs) + [0]) * 3 < info.min:
            return None
        t = getattr(np, _HTY_NPINT[vtype])
        return [t(int(f)) for f in fs]
    return None


def _hty_key(key, ktype, salt):
    """tuple entries as numpy integers of the width ktype / one width per entry / Python bools (entries 0 and 1)"""
    import numpy as np
    if not isinstance(key, tuple):
        return key
    if ktype == "bool":
        return tuple(bool(e) for e in key) if all(e in (0, 1) for e in key) else key
    if ktype == "npmix":
        tys = [np.int8, np.int64, np.uint8, np.int32, np.uint64, np.int16, np.intp]
        out = []
        for i, e in enumerate(key):
            t = tys[(salt + i) % len(tys)]
            info = np.iinfo(t)
            out.append(t(e) if info.min <= e <= info.max else e)
        return tuple(out)
    if ktype in _HTY_NPINT:
        t = getattr(np, _HTY_NPINT[ktype])
        info = np.iinfo(t)
        return tuple(t(e) if info.min <= e <= info.max else e for e in key)
    return key


def _to_dict(items, vtype="float", ktype="py"):
    if vtype not in HTY_VTYPES and ktype not in HTY_KTYPES:
        return _to_dict_plain(items, vtype, ktype)
    vals = _hty_values([Fraction(unrat(v)) for _, v in items], vtype) if vtype in HTY_VTYPES else None
    plain = _to_dict_plain(items, "int" if (vtype in _HTY_NPINT or vtype == "bool") else "float" if vtype in HTY_VTYPES else vtype,
                           "py" if ktype in HTY_KTYPES else ktype)
    if len(plain) != len(items):   # (one spelling twice: the plain dictionary has merged the two items; it is kept as it is)
        return plain
    out = {}
    for j, (pk, pv) in enumerate(plain.items()):
        out[_hty_key(pk, ktype, j) if ktype in HTY_KTYPES else pk] = pv if vals is None else vals[j]
    return out if len(out) == len(plain) else plain


def _hty_exact(v):
    """exact rational value of whatever number object the library stores"""
    if isinstance(v, Fraction):
        return v
    if isinstance(v, bool):
        return Fraction(int(v))
    if hasattr(v, "numerator") and hasattr(v, "denominator") and not isinstance(v, float):
        return Fraction(int(v.numerator), int(v.denominator))
    return Fraction(float(v))


def _canon_dict(dd):
    """distribution_dict -> [[key as list, exact value]] in insertion order (values / entries of any number type)"""
    return [[[int(e) for e in k], rat(_hty_exact(v))] for k, v in dd.items()]
# --- HTY end


def _parse_key(k):
    """oracle's own reading of a key: tuple of ints, or None if the text is not a key spelling"""
    if isinstance(k, list):
        return tuple(k)
    if isinstance(k, str):
        parts = k.split(",") if "," in k else list(k)
        if "," in k:
            if not all(re.fullmatch(r"[+-]?[0-9]+", p) for p in parts):
                return None
        elif not all(re.fullmatch(r"[0-9]", p) for p in parts):
            return None
        return tuple(int(p) for p in parts)
    return None


def _build(D, items, normalize, vtype="float", ktype="py"):
    with warnings.catch_warnings():
        warnings.simplefilter("ignore")
        return D.MeasurementOutcomeDistribution(_to_dict(items, vtype, ktype), normalize=normalize)


def _build_spec(D, s):
    """s: a case or a member of a case: items, normalize, optional vtype / ktype"""
    return _build(D, s["items"], s.get("normalize", True), s.get("vtype", "float"), s.get("ktype", "py"))


def _spec(items, normalize=True, vtype="float", ktype="py"):
    d = {"items": items, "normalize": normalize}
    if vtype != "float":
        d["vtype"] = vtype
    if ktype != "py":
        d["ktype"] = ktype
    return d


# how a caller may hand over several kernel widths: a list / tuple, a float64 array (the type `np.asarray(.., dtype=float)` returns
# UNCHANGED, so that an in-place edit of the converted widths would edit the caller's array: plain "array", read-only "ro:f64", a
# strided view "st:f64", both "ro:st:f64"), an int64 array (a converted copy; only for whole widths), a list of numpy float64
# scalars (float32 widths are NOT generated: `1.0 / (2 * sigma)` stays single precision under NumPy-2 scalar promotion, so the value
# agrees with the quadratic form to about 1e-8 only - the caller's own precision, outside the 1e-9 the oracle judges with); and the parameter dictionary itself as dict / OrderedDict / defaultdict / MappingProxyType
_STYPES_VECTOR = ("list", "tuple", "array", "ro:f64", "st:f64", "ro:st:f64", "i64", "npfloats")
_PTYPES = ("dict", "odict", "ddict", "proxy")


def _mk_params(ps):
    """parameter dictionary as a caller would write it.  ps: {"sigma": rat | [rat] | None, "stype": float | int | npfloat |
    one of _STYPES_VECTOR, "epsilon": rat | None, "ptype": one of _PTYPES}; None = the key is absent (documented default)"""
    import numpy as np
    from . import c20_containers as _ct
    par = []
    sg = ps.get("sigma")
    if sg is not None:
        if isinstance(sg, list):
            fr = [unrat(x) for x in sg]
            vals = [float(x) for x in fr]
            st = ps.get("stype") or "list"
            st = "f64" if st == "array" else st
            if st == "i64" and any(x.denominator != 1 for x in fr):
                st = "f64"
            if st not in _STYPES_VECTOR + ("f64",):
                st = "f64"
            par.append(("sigma", _ct.mk_vec(np, vals, st)))
        else:
            f = unrat(sg)
            par.append(("sigma", (int(f) if (ps.get("stype") == "int" and f.denominator == 1)
                                  else np.float64(float(f)) if ps.get("stype") == "npfloat" else float(f))))
    if ps.get("epsilon") is not None:
        e = float(unrat(ps["epsilon"]))
        par.append(("epsilon", np.float64(e) if ps.get("etype") == "npfloat" else e))
    return _ct.mk_map(par, ps.get("ptype") or "dict")


def _sigma_eps(ps):
    """the values the caller means (documented defaults 1.0 and 1e-9)"""
    sg = ps.get("sigma")
    sigma = 1.0 if sg is None else [float(unrat(x)) for x in sg] if isinstance(sg, list) else float(unrat(sg))
    eps = 1e-9 if ps.get("epsilon") is None else float(unrat(ps["epsilon"]))
    return sigma, eps


def _dist_params(c):
    """the two parameter specs of a `dist` case (one for the MMD calls, one for the log-likelihood calls)"""
    return ({"sigma": c.get("sigma"), "stype": c.get("stype"), "ptype": c.get("ptype")},
            {"epsilon": c.get("eps"), "etype": c.get("etype"), "ptype": c.get("ptype")})


def _guard(fn):
    try:
        return fn()
    except RuntimeError:
        return "err:runtime"
    except ValueError:
        return "err:value"
    except IndexError:
        return "err:index"
    except TypeError:
        return "err:type"
    except AttributeError:   # (e.g. a write attempted on a MappingProxyType / tuple handed over as an argument)
        return "err:attribute"


# ---------------------------------------------------------------- corpus / generator
def corpus():
    return [
        # F6 (fixed d900b77): subdistribution emptied its source
        {"kind": "subdist", "items": [["011", "1/4"], ["101", "1/2"], ["111", "1/4"]], "normalize": True,
         "qubits": [2, 0], "exact": True},
        # F7: one-subsystem key with an entry >= 10 does not survive save/load
        {"kind": "saveload", "items": [[[12], "1/2"], [[3], "1/2"]], "normalize": True, "exact": True},
        {"kind": "saveload", "items": [[[12], "1/2"], [[34], "1/2"]], "normalize": True, "exact": True},
        {"kind": "saveload", "items": [[[12, 4], "1/2"], [[3, 5], "1/2"]], "normalize": True, "exact": True},
        # (fixed b64c4ba) multi-digit entries were split into digits by subdistribution; kept as regression inputs
        {"kind": "subdist", "items": [[[12, 3], "1/2"], [[1, 23], "1/2"]], "normalize": True, "qubits": [0, 1],
         "exact": True},
        {"kind": "subdist", "items": [[[12, 0], "1/2"], [[3, 0], "1/2"]], "normalize": True, "qubits": [0],
         "exact": True},
        # MMD is only defined on bitstrings
        {"kind": "dist", "p": [[[2], 1]], "q": [[[2], 1]], "sigma": 1, "eps": "1/1000000000"},
        {"kind": "dist", "p": [["01", 1]], "q": [["10", "1/2"], ["11", "1/2"]], "sigma": "3/10",
         "eps": "1/1000000000"},
        {"kind": "construct", "items": [["01", 1], [[0, 1], 3], ["1,1", 4]], "normalize": True, "exact": False},
        {"kind": "construct", "items": [], "normalize": True, "exact": True},
        {"kind": "construct", "items": [["0", "1/2"], ["1", "2147483649/4294967296"]], "normalize": True,
         "exact": True},
        {"kind": "construct", "items": [["0", "1/2"], ["1", "268435457/536870912"]], "normalize": True,
         "exact": False},
        # ---- classes found by seeded changes (round 3): histories on long-lived objects
        # one object asked for the same qubit set in several orders, repeats, an edited result, an edited source
        {"kind": "hist", "exact": True,
         "specs": [{"items": [[[0, 0, 1], "1/8"], [[0, 1, 0], "1/4"], [[1, 0, 1], "1/2"], [[1, 1, 0], "1/8"]],
                    "normalize": True},
                   {"items": [[[0, 0, 1], "1/2"], [[0, 1, 0], "1/8"], [[1, 0, 1], "1/8"], [[1, 1, 0], "1/4"]],
                    "normalize": True}],
         "steps": [["sub", 0, [0, 1], False], ["sub", 0, [1, 0], True], ["sub", 1, [1, 0], False],
                   ["sub", 0, [1, 0], False], ["sub", 0, [2, 0, 1], False], ["sub", 0, [0, 1, 2], True],
                   ["sub", 1, [0, 1, 2], False], ["swap", 0, 0, 2], ["sub", 0, [0, 1], False], ["scale", 0, 1],
                   ["sub", 0, [2], False], ["replace", 0, 1], ["sub", 0, [1, 0], False], ["sub", 0, [2], False]]},
        # distances on a pool of siblings (same support in another order, an equal copy, other weights on the same
        # outcomes) with re-used parameter dictionaries
        {"kind": "pool",
         "specs": [{"items": [["00", "1/2"], ["01", "1/4"], ["11", "1/4"]]},
                   {"items": [["11", "5/8"], ["00", "1/8"], ["01", "1/4"]]},
                   {"items": [["11", "1/4"], ["01", "1/4"], ["00", "1/2"]]},
                   {"items": [["00", "1/2"], ["10", "1/2"]]}],
         "params": [{"sigma": 1}, {"sigma": ["1/4", 1, 4], "stype": "array"}, {"epsilon": "1/100"}, {}],
         "steps": [["mmd", 0, 1, 0, "direct"], ["mmd", 1, 0, 0, "direct"], ["mmd", 0, 2, 0, "direct"],
                   ["mmd", 0, 0, 1, "direct"], ["mmd", 3, 0, 1, "eval"], ["mmd", 0, 3, 1, "direct"],
                   ["jsd", 0, 3, 2, "direct"], ["jsd", 3, 0, 2, "direct"], ["nll", 0, 3, 2, "direct"],
                   ["nll", 3, 0, 2, "eval"], ["nll", 0, 1, 3, "direct"], ["mmd", 2, 1, 3, "direct"],
                   ["jsd", 1, 3, 3, "direct"], ["jsd", 3, 1, 3, "direct"]]},
        # one path overwritten with different content; a list of different distributions; path and file object
        {"kind": "files", "exact": True,
         "specs": [{"items": [["00", "1/4"], ["01", 0], ["10", "3/4"]]}, {"items": [[[3, 12], "1/2"], [[0, 7], "1/2"]]},
                   {"items": [["11", "1/2"], ["00", "1/2"]]}],
         "steps": [["save", 0, 0], ["load", 0, "path"], ["poke"], ["load", 0, "fobj"], ["save", 0, 1],
                   ["load", 0, "path"], ["saves", 1, [0, 1, 2]], ["loads", 1, "path"], ["poke"], ["loads", 1, "fobj"],
                   ["saves", 1, [2, 2, 0]], ["loads", 1, "path"], ["save", 1, 2], ["load", 1, "path"]]},
        # kernel widths / parameter dictionaries in the container types that ALIAS under a copy-avoiding conversion (a float64
        # array, read-only, strided; inside an OrderedDict / MappingProxyType), each dictionary ONE object used by several
        # calls in both directions and through evaluate_distribution_distance: every answer is judged with the widths as written
        {"kind": "pool",
         "specs": [{"items": [["000", "1/2"], ["111", "1/4"], ["010", "1/4"]]}, {"items": [["000", "1/8"], ["111", "1/2"], ["001", "3/8"]]}],
         "params": [{"sigma": [4, "1/4", 1], "stype": "array", "ptype": "proxy"}, {"sigma": [3, 1, 2], "stype": "i64", "ptype": "odict"},
                    {"epsilon": "1/100", "ptype": "ddict"}, {}],
         "steps": [["mmd", 0, 1, 0, "eval"], ["mmd", 0, 1, 0, "direct"], ["mmd", 1, 0, 0, "direct"], ["mmd", 0, 1, 1, "direct"],
                   ["mmd", 1, 0, 1, "eval"], ["nll", 0, 1, 2, "direct"], ["jsd", 1, 0, 2, "eval"], ["jsd", 0, 1, 2, "direct"],
                   ["mmd", 0, 1, 0, "direct"], ["mmd", 0, 1, 1, "direct"]]},
        {"kind": "dist", "p": [["01", "1/4"], ["10", "3/4"]], "q": [["01", "1/2"], ["11", "1/2"]], "sigma": [8, "1/2", 2],
         "stype": "st:f64", "ptype": "proxy", "eps": "1/1000"},
        {"kind": "dist", "p": [["01", "1/4"], ["10", "3/4"]], "q": [["00", "1/2"], ["11", "1/2"]], "sigma": [8, "1/2"],
         "stype": "ro:f64", "eps": "1/1000"},
        {"kind": "construct", "items": [[[0, 1], "3/2"], [[1, 1], "-1/2"]], "normalize": True, "exact": True},
        {"kind": "construct", "items": [[[0, 1], 3], [[1, 1], 5]], "normalize": True, "exact": True, "vtype": "int",
         "ktype": "npint"},
        {"kind": "construct", "via": "probs", "items": [[[0, 0], "1/2"], [[0, 1], 0], [[1, 0], "1/4"], [[1, 1], "1/4"]],
         "normalize": True, "exact": True},
        # MMD on a register of width >= 32 (int64 overflow of the squared code differences)
        {"kind": "dist", "p": [[[0] * 33, 1]], "q": [[[0] * 33, "1/2"], [[1] + [0] * 32, "1/4"], [[0] * 32 + [1], "1/4"]],
         "sigma": 1, "eps": "1/1000000000"},
        {"kind": "dist", "p": [[[0] * 32, "1/2"], [[1, 1] + [0] * 30, "1/2"]], "q": [[[0] * 32, 1]], "sigma": 1,
         "eps": "1/1000000000"},
        # ---- hardening pass: sizes, magnitudes, exotic-but-legal types, edits in place everywhere
        # 70 outcomes, the invalid item at position 66 (negative value / key of another length)
        {"kind": "construct", "items": [[[(i >> b) & 1 for b in range(7)], -1 if i == 66 else 1] for i in range(70)],
         "normalize": True, "exact": False},
        {"kind": "construct", "items": [["".join(str((i >> b) & 1) for b in range(7 if i != 66 else 8)), 1]
                                        for i in range(70)], "normalize": True, "exact": False},
        # weights spanning 80 binary orders of magnitude; integer counts beyond 2^62; hash-colliding outcomes
        {"kind": "construct", "items": [[[0, 1], 1099511627776], [[1, 1], "1/1099511627776"], [[1, 0], 3]],
         "normalize": True, "exact": False},
        {"kind": "construct", "items": [[[0], 4611686018427387904], [[1], 4611686018427387905], [[2], 4611686018427387906]],
         "normalize": True, "exact": False, "vtype": "int"},
        {"kind": "construct", "items": [[[0, 0], "1/8"], [[2305843009213693951, 0], "1/4"], [[1, 2305843009213693952], "1/8"],
                                        [[2305843009213693952, 1], "1/2"]], "normalize": True, "exact": True},
        {"kind": "subdist", "items": [[[0, 0], "1/8"], [[2305843009213693951, 0], "1/4"], [[1, 2305843009213693952], "1/8"],
                                      [[2305843009213693952, 1], "1/2"]], "normalize": True, "qubits": [0], "exact": True},
        {"kind": "subdist", "items": [[[int(ch) for ch in format(i * 37 % 4096, "012b")], 1] for i in range(1, 9)],
         "normalize": True, "qubits": [11, 3, 0, 7, 9, 1, 10, 2, 5], "exact": True, "qtype": "npint"},
        # an outcome renamed in place, the marginal of a marginal
        {"kind": "hist", "exact": True, "qtype": "npint",
         "specs": [{"items": [[[0, 0, 1], "1/8"], [[0, 1, 0], "1/4"], [[1, 0, 1], "1/2"], [[1, 1, 0], "1/8"]]}],
         "steps": [["sub", 0, [2, 0], False], ["rekey", 0, 1, [1, 1, 1]], ["sub", 0, [2, 0], False],
                   ["chain", 0, [2, 0, 1], [1]], ["chain", 0, [1, 2], [1, 0]], ["sub", 0, [0], False]]},
        # members of a pool edited in place between the calls
        {"kind": "pool",
         "specs": [{"items": [["00", "1/2"], ["01", "1/4"], ["11", "1/4"]]}, {"items": [["00", "1/8"], ["10", "7/8"]]}],
         "params": [{"sigma": 2, "stype": "npfloat"}, {"sigma": [1000, "1/100"], "stype": "array"},
                    {"epsilon": "1/100", "etype": "npfloat"}, {}],
         "steps": [["mmd", 0, 1, 0, "direct"], ["swap", 0, 0, 2], ["mmd", 0, 1, 0, "direct"], ["mmd", 1, 0, 0, "eval"],
                   ["nll", 0, 1, 2, "direct"], ["rekey", 1, 1, [1, 1]], ["nll", 0, 1, 2, "direct"],
                   ["mmd", 0, 1, 1, "direct"], ["jsd", 1, 0, 3, "direct"], ["jsd", 0, 1, 3, "direct"]]},
        # an object edited and written again; an empty list; paths given as pathlib.Path
        {"kind": "files", "exact": True, "ptype": "pathlib",
         "specs": [{"items": [["00", "1/4"], ["01", "1/4"], ["10", "1/2"]]}, {"items": [["00", "1/2"], ["01", "1/4"], ["10", "1/4"]]}],
         "steps": [["save", 0, 0], ["load", 0, "path"], ["swap", 0, 0, 2], ["save", 0, 0], ["load", 0, "path"],
                   ["save", 0, 1], ["load", 0, "path"], ["saves", 1, []], ["loads", 1, "path"], ["saves", 1, [0, 1, 0]],
                   ["loads", 1, "fobj"], ["rekey", 1, 0, [1, 1]], ["saves", 1, [1, 0]], ["loads", 1, "path"]]},
        # --- HTY number types: int8 counts with bool key entries; float32 weights marginalised over a numpy uint8 array of qubits;
        # Fraction weights through the helper functions; a negative Fraction is refused
        {"kind": "construct", "items": [[[0, 1], 3], [[1, 1], 5], [[1, 0], 0]], "normalize": True, "exact": True, "vtype": "npint8", "ktype": "bool"},
        {"kind": "subdist", "items": [[[0, 1, 1], "1/4"], [[1, 1, 0], "1/2"], [[1, 0, 1], "1/4"]], "normalize": True, "qubits": [2, 0],
         "exact": True, "vtype": "npfloat32", "ktype": "npmix", "qtype": "nparray_u8"},
        {"kind": "fns", "items": [["01", "1/3"], ["11", "5/3"], ["10", 1]], "vtype": "Fraction", "ktype": "py"},
        {"kind": "construct", "items": [[[0], "3/2"], [[1], "-1/2"]], "normalize": True, "exact": True, "vtype": "Fraction", "ktype": "npuint8"},
        # --- HTY end
    ]


def _keys(rng, w, n, base):
    space = base ** w
    n = max(1, min(n, space))
    if space <= 4096:
        idx = rng.sample(range(space), n)
    else:
        idx = list({rng.randrange(space) for _ in range(n)})
    out = []
    for i in idx:
        k = []
        for _ in range(w):
            k.append(i % base)
            i //= base
        out.append(k[::-1])
    return out


def _weights(rng, n, mode):
    """returns (list of Fractions, exact?)"""
    if mode == "dyadic_norm":  # already summing to 1, dyadic
        den = 2 ** rng.randrange(3, 8)
        cuts = sorted(rng.randrange(0, den + 1) for _ in range(n - 1))
        ps = [b - a for a, b in zip([0] + cuts, cuts + [den])]
        return [Fraction(p, den) for p in ps], True
    if mode == "dyadic":  # integer weights whose total is a power of two (exact normalisation)
        parts = [rng.randrange(0, 9) for _ in range(n)]
        s = sum(parts)
        p2 = 1
        while p2 < max(s, 1):
            p2 *= 2
        parts[rng.randrange(n)] += p2 - s
        sc = rng.choice([1, 1, 2, 8])
        return [Fraction(p, sc) for p in parts], True
    if mode == "near_one":  # total 1 + 2^-31 is "close": kept as it is
        return [Fraction(1, 2)] * 1 + [Fraction(1, 2) + Fraction(1, 2 ** 31)] + [Fraction(0)] * (n - 2), n >= 2
    if mode == "far_one":  # total 1 + 2^-28 is not close: renormalised (inexact)
        return [Fraction(1, 2)] * 1 + [Fraction(1, 2) + Fraction(1, 2 ** 28)] + [Fraction(0)] * (n - 2), False
    if mode == "counts":  # raw integer counts (arbitrary total)
        return [Fraction(rng.randrange(0, 60)) for _ in range(n)], False
    if mode == "bigcounts":  # integer counts beyond 2^53
        return [Fraction(rng.randrange(0, 2 ** rng.choice([54, 60, 62]))) for _ in range(n)], False
    if mode == "uniform":  # all weights equal
        return [Fraction(rng.randrange(1, 40), rng.choice([1, 1, 3, 8]))] * n, False
    if mode == "magn":  # weights spanning many orders of magnitude (all exactly representable)
        return [Fraction(rng.randrange(1, 8)) * Fraction(2) ** rng.randrange(-40, 41) for _ in range(n)], False
    if mode == "tiny":  # total just above the smallest normal double
        return [Fraction(rng.randrange(1, 9), 2 ** 1020) for _ in range(n)], False
    if mode == "off_one":  # total 1 + d for d on both sides of every tolerance the library uses
        ws, _ = _weights(rng, n, "dyadic_norm")
        d = Fraction(rng.choice([1, -1]), 2 ** rng.choice([10, 17, 24, 29, 31, 36]))
        i = max(range(n), key=lambda t: ws[t])
        ws[i] += d
        return ws, False
    return [Fraction(rng.randrange(0, 1000), rng.randrange(1, 1000)) for _ in range(n)], False


def _spell(rng, key, form):
    if form == "tuple":
        return list(key)
    if form == "str" and all(0 <= e < 10 for e in key):
        return "".join(str(e) for e in key)
    if form == "comma" and len(key) >= 2:
        return ",".join(str(e) for e in key)
    return list(key)


# outcome entries whose hashes collide pairwise (hash(2**61 - 1) == hash(0), hash(2**61) == hash(1))
_TWINS = [0, 1, 2 ** 61 - 1, 2 ** 61]


def _items(rng, w, n, base, form=None, mode=None):
    if base == "twins":
        keys = [[_TWINS[e] for e in k] for k in _keys(rng, w, n, 4)]
    else:
        keys = _keys(rng, w, n, base)
    mode = mode or rng.choice(["dyadic_norm", "dyadic", "dyadic", "any", "any", "counts", "uniform", "magn",
                               "bigcounts", "off_one"])
    if mode in ("near_one", "far_one") and len(keys) < 2:
        mode = "dyadic"
    ws, exact = _weights(rng, len(keys), mode)
    if sum(ws) == 0:
        ws[0] = Fraction(1)
    form = form or rng.choice(["str", "tuple", "comma", "mixed"])
    items = []
    for k, v in zip(keys, ws):
        f = rng.choice(["str", "tuple", "comma"]) if form == "mixed" else form
        items.append([_spell(rng, k, f), rat(v)])
    return items, exact


def _malformed_construct(rng):
    w = rng.randrange(1, 4)
    items, _ = _items(rng, w, rng.randrange(1, 5), 2)
    pick = rng.choice(list(range(21)) + [12, 13, 13, 18, 19])
    if pick >= 18:  # one bad item at a late position (>= 64) of a big dictionary
        w = rng.randrange(8, 12)
        items, _ = _items(rng, w, rng.randrange(70, 200), 2, form=rng.choice(["str", "tuple", "comma"]),
                          mode=rng.choice(["dyadic", "any", "counts"]))
        at = rng.randrange(64, len(items) + 1)
        bad = rng.randrange(4)
        if bad == 0:
            items[at - 1][1] = rat(-Fraction(rng.randrange(1, 9), 8))
        elif bad == 1:
            items.insert(at, [[0] * (w + 1), "1/4"])
        elif bad == 2:
            items.insert(at, [[-1] + [0] * (w - 1), "1/4"])
        else:
            items.insert(at, ["0" * (w - 1), "1/4"])
        return items
    if pick == 0:
        items = []
    elif pick == 1:
        items[rng.randrange(len(items))][1] = rat(Fraction(-rng.randrange(1, 9), 8))
    elif pick == 2:
        items.append(["0" * (w + 1), "1/4"])
    elif pick == 3:
        items.append([[0] * (w + 2), "1/4"])
    elif pick == 4:
        items.append([[-1] + [0] * (w - 1), "1/4"])
    elif pick == 5:
        items.append(["0" * (w - 1) + "a", "1/4"])
    elif pick == 6:
        items.append(["1,,2", "1/4"])
    elif pick == 7:
        items.append([None, "1/4"])
    elif pick == 8:
        items = [[k, 0] for k, _ in items]
    elif pick == 9:
        items = [[k, "1/" + str(10 ** 310)] for k, _ in items]
    elif pick == 10:  # two spellings of the same outcome: the later value wins
        k = [rng.randrange(2) for _ in range(w)]
        items = [["".join(map(str, k)), "1/4"], [list(k), "3/4"], [[1 - k[0]] + k[1:], "1"]]
    elif pick == 11:
        items.append(["-1," + ",".join(["0"] * w), "1/4"])
    elif pick == 12:  # a negative value hidden in a total of exactly 1 ("already normalised")
        k = _keys(rng, w, 2, 2)
        if len(k) < 2:
            k = [[0] * w, [1] * w]
        neg = Fraction(rng.randrange(1, 9), 8)
        items = [[_spell(rng, k[0], rng.choice(["str", "tuple"])), rat(1 + neg)], [list(k[1]), rat(-neg)]]
        rng.shuffle(items)
    elif pick == 13:  # a tiny negative value
        items[rng.randrange(len(items))][1] = rat(-Fraction(1, 10 ** rng.choice([9, 12, 15, 30])))
    elif pick == 14:  # the odd-length key first / in the middle / last, all tuples or all strings
        form = rng.choice(["str", "tuple"])
        ks = _keys(rng, w, 3, 2) + [[0] * (w + 1)]
        rng.shuffle(ks)
        items = [[_spell(rng, k, form), "1/4"] for k in ks]
    elif pick == 15:  # a negative entry deep inside an all-tuple dictionary
        ks = _keys(rng, w, 3, 2)
        bad = [rng.randrange(2) for _ in range(w)]
        bad[rng.randrange(w)] = -rng.randrange(1, 4)
        ks.insert(rng.randrange(len(ks) + 1), bad)
        items = [[list(k), "1/4"] for k in ks]
    elif pick == 16:  # all weights zero but one negative
        items = [[k, 0] for k, _ in items] + [[[1] * w, 0]]
        items[rng.randrange(len(items))][1] = "-1/2"
        seen, uniq = set(), []
        for k, v in items:
            if _parse_key(k) not in seen:
                seen.add(_parse_key(k))
                uniq.append([k, v])
        items = uniq
    else:  # a single outcome with a negative weight
        items = [[items[0][0], rat(-Fraction(rng.randrange(1, 5), 4))]]
    return items


def _vk(rng, items=None):
    """value / entry types of the caller's dictionary (integer counts are mostly passed as Python ints)"""
    vt = rng.choice(["float", "float", "float", "int", "npfloat"])
    if items and all(isinstance(v, int) for _, v in items) and any(v > 1 for _, v in items) and rng.random() < 0.6:
        vt = "int"
    return vt, rng.choice(["py", "py", "py", "npint"])


def _respell(rng, items, form):
    out = []
    for k, v in items:
        f = rng.choice(["str", "tuple", "comma"]) if form == "mixed" else form
        out.append([_spell(rng, list(_parse_key(k)), f), v])
    return out


def _fresh_key(rng, have, w, base):
    """an outcome of the same alphabet that is not in `have` (None if none was found)"""
    cands = [[_TWINS[e] for e in k] for k in _keys(rng, w, 6, 4)] if base == "twins" else _keys(rng, w, 6, base)
    for cand in cands:
        if tuple(cand) not in have:
            return list(cand)
    return None


def _siblings(rng, items, w, base):
    """variants of one dictionary that differ from it in exactly one respect"""
    kind = rng.choice(["values", "values", "key", "same", "order", "order", "spelling", "nudge"])
    its = [list(x) for x in items]
    if kind == "nudge" and len(its) >= 2:  # nearly the same distribution: a little weight moves between two outcomes
        a, b = rng.sample(range(len(its)), 2)
        tot = sum(unrat(v) for _, v in its)
        d = min(unrat(its[a][1]), tot * Fraction(1, 2 ** rng.choice([6, 10, 14])))
        its[a][1] = rat(unrat(its[a][1]) - d)
        its[b][1] = rat(unrat(its[b][1]) + d)
        return its
    if kind == "values" and len(its) >= 2:
        vs = [v for _, v in its]
        vs = vs[1:] + vs[:1]
        its = [[k, v] for (k, _), v in zip(its, vs)]
    elif kind == "key":
        cand = _fresh_key(rng, {_parse_key(k) for k, _ in its}, w, base)
        if cand is not None:
            its[rng.randrange(len(its))][0] = cand
    elif kind == "order":
        its = its[::-1] if rng.random() < 0.5 else rng.sample(its, len(its))
    elif kind == "spelling":
        its = _respell(rng, its, rng.choice(["str", "tuple", "comma", "mixed"]))
    return its


def _gen_hist(rng, big):
    wide = rng.random() < 0.15
    if wide:
        w, base = rng.randrange(11, 15), 2
    else:
        w = rng.choice([2, 3, 3, 4, 4, 5] + ([6] if big else []))
        base = rng.choice([2, 2, 2, 10, "twins"])
    mode = rng.choice(["dyadic_norm", "dyadic", "dyadic", "any", "counts", "magn", "uniform", "off_one", "near_one"])
    nout = rng.randrange(64, 140) if (wide and rng.random() < 0.3) else rng.randrange(2, 9)
    items, exact = _items(rng, w, nout, base, form=rng.choice(["tuple", "tuple", "str", "comma", "mixed"]), mode=mode)
    nz = rng.random() < 0.75
    vt, kt = _vk(rng, items)
    specs = [_spec(items, nz, vt, kt)]
    for _ in range(rng.choice([0, 1, 1, 2])):
        specs.append(_spec(_siblings(rng, items, w, base), nz if rng.random() < 0.8 else not nz, vt, kt))
    if w <= 3 or (w == 4 and rng.random() < 0.3):
        lists = [list(qs) for r in range(1, w + 1) for qs in itertools.permutations(range(w), r)]
    else:
        lists = []
        for _ in range(rng.randrange(2, 5)):
            sub = rng.sample(range(w), rng.randrange(1, (w if rng.random() < 0.4 else min(w, 4)) + 1))
            if wide and rng.random() < 0.7:
                sub[0] = rng.randrange(10, w)
                sub = list(dict.fromkeys(sub))
            lists += [sub, sub[::-1], rng.sample(sub, len(sub))]
        lists.append(list(range(w)))
    rng.shuffle(lists)
    steps = []
    for qs in lists:
        sidx = rng.randrange(len(specs))
        steps.append(["sub", sidx, qs, rng.random() < 0.2])
        r = rng.random()
        if r < 0.08:
            steps.append(["swap", sidx, rng.randrange(8), rng.randrange(8)])
        elif r < 0.12:
            steps.append(["scale", sidx, rng.randrange(8)])
        elif r < 0.17 and len(specs) >= 2:
            steps.append(["replace", sidx, rng.randrange(len(specs))])
        elif r < 0.20:
            bad = list(qs)
            bad.insert(rng.randrange(len(bad) + 1), rng.choice(qs + [w]))
            steps.append(["sub", sidx, bad, False])
        elif r < 0.30:
            steps.append(["sub", rng.randrange(len(specs)), qs, False])
        elif r < 0.36:  # an outcome is renamed in place
            cand = _fresh_key(rng, {_parse_key(k) for sp in specs for k, _ in sp["items"]}, w, base)
            if cand is not None:
                steps.append(["rekey", sidx, rng.randrange(8), cand])
        elif r < 0.46 and len(qs) >= 2:  # the marginal of a marginal
            inner = rng.sample(range(len(qs)), rng.randrange(1, len(qs) + 1))
            steps.append(["chain", sidx, qs, inner])
    for st in rng.sample(steps, min(4, len(steps))):  # ask again at the end
        if st[0] == "sub":
            steps.append(["sub", st[1], st[2], False])
    c = {"kind": "hist", "specs": specs, "steps": steps, "exact": exact}
    if rng.random() < 0.2:
        c["qtype"] = "npint"
    return c


def _rand_params(rng, which):
    ps = {}
    if which in ("sigma", "both"):
        r = rng.random()
        if r < 0.15:
            pass  # default
        elif r < 0.6:
            den = rng.choice([1, 1, 2, 10, 16])
            ps["sigma"] = rat(Fraction(rng.randrange(1, 80), den))
            if rng.random() < 0.3:  # bandwidths far from 1 in both directions
                den = 1
                ps["sigma"] = rat(rng.choice([Fraction(1, 1000), Fraction(1, 50), Fraction(500), Fraction(10 ** 4),
                                              Fraction(10 ** 6), Fraction(10 ** 9), Fraction(2 ** 40)]))
            if den == 1 and rng.random() < 0.5:
                ps["stype"] = "int"
            elif rng.random() < 0.3:
                ps["stype"] = "npfloat"
        else:
            n = rng.randrange(1, 4)
            sg = [rat(Fraction(rng.randrange(1, 80), rng.choice([1, 4, 10])) * rng.choice([1, 1, 1, 1000, Fraction(1, 100)]))
                  for _ in range(n)]
            if n >= 2 and rng.random() < 0.3:
                sg[1] = sg[0]  # repeated equal widths
            ps["stype"] = rng.choice(["list", "tuple", "array", "array", "ro:f64", "st:f64", "ro:st:f64", "i64", "npfloats"])
            if ps["stype"] == "i64":     # whole widths, as an integer array
                sg = [rat(Fraction(rng.randrange(1, 80)) * rng.choice([1, 1, 1, 1000])) for _ in range(n)]
            ps["sigma"] = sg
    if which in ("epsilon", "both"):
        if rng.random() >= 0.15:
            ps["epsilon"] = rat(rng.choice([Fraction(1, 10 ** 9), Fraction(1, 10 ** 6), Fraction(1, 1000), Fraction(1, 100),
                                            Fraction(1, 8), Fraction(1, 2), Fraction(1, 10 ** 12), Fraction(1)]))
            if rng.random() < 0.25:
                ps["etype"] = "npfloat"
    if rng.random() < 0.35:   # the parameter dictionary is not a plain dict
        ps["ptype"] = rng.choice(["odict", "ddict", "proxy", "proxy"])
    return ps


def _gen_pool(rng, big):
    w = rng.choice([1, 2, 2, 3, 3, 4, 6, 9, 12, 40, 70] + ([16, 20, 31] if big else [16]))
    nout = rng.randrange(64, 100) if (w >= 9 and rng.random() < 0.35) else rng.randrange(2, 9)
    items, _ = _items(rng, w, nout, 2)
    specs = [_spec(items)]
    for _ in range(rng.randrange(1, 4)):
        specs.append(_spec(_siblings(rng, items, w, 2)))
    if rng.random() < 0.6:
        other, _ = _items(rng, w, rng.randrange(1, 9), 2)
        specs.append(_spec(other))
    if rng.random() < 0.3:  # the same outcomes as member 0, listed in another order, with explicit zeros
        z = [[k, v] for k, v in rng.sample(items, len(items))]
        z[0][1] = 0
        if sum(unrat(v) for _, v in z) > 0:
            specs.append(_spec(z))
    params = [_rand_params(rng, "sigma"), _rand_params(rng, "sigma"), _rand_params(rng, "epsilon"),
              _rand_params(rng, "epsilon")]
    n = len(specs)
    steps = []
    for _ in range(rng.randrange(4, 9)):
        fn = rng.choice(["mmd", "mmd", "nll", "jsd"])
        i, j = rng.randrange(n), rng.randrange(n)
        pi = rng.randrange(2) if fn == "mmd" else 2 + rng.randrange(2)
        via = "eval" if rng.random() < 0.2 else "direct"
        steps.append([fn, i, j, pi, via])
        r = rng.random()
        if r < 0.5:
            steps.append([fn, j, i, pi, via])  # the other direction, same parameters
        elif r < 0.7:
            steps.append([fn, i, rng.randrange(n), pi, via])  # one component changed
        elif r < 0.85:
            steps.append([fn, i, j, (pi // 2) * 2 + (1 - pi % 2), via])  # other parameters, same pair
        r = rng.random()
        if r < 0.12:  # a member is edited in place (stays normalised), then asked about again
            steps.append(["swap", i, rng.randrange(100), rng.randrange(100)])
            steps.append([fn, i, j, pi, via])
        elif r < 0.2:
            cand = _fresh_key(rng, {_parse_key(k) for sp in specs for k, _ in sp["items"]}, w, 2)
            if cand is not None:
                steps.append(["rekey", j, rng.randrange(100), cand])
                steps.append([fn, i, j, pi, via])
    for st in rng.sample(steps, min(3, len(steps))):
        steps.append(list(st))
    return {"kind": "pool", "specs": specs, "params": params, "steps": steps}


def _gen_files(rng, big):
    specs, fam = [], []
    exact = True
    for _ in range(rng.randrange(2, 5)):
        w = rng.choice([1, 2, 2, 3, 5, 11, 40])
        base = rng.choice([2, 2, 10, 25, 1000, "twins"])
        if w == 1:
            base = rng.choice([2, 10])  # the F7 class (known finding) stays in the corpus / saveload kind
        nout = rng.randrange(64, 200) if (w >= 11 and rng.random() < 0.3) else rng.randrange(1, 9)
        items, ex = _items(rng, w, nout, base)
        exact = exact and ex
        vt, kt = _vk(rng, items)
        specs.append(_spec(items, rng.random() < 0.9, vt, kt))
        if rng.random() < 0.6:
            specs.append(_spec(_siblings(rng, items, w, base), specs[-1]["normalize"], vt, kt))
            fam.append([len(specs) - 2, len(specs) - 1])
    n = len(specs)
    content = [None, None]
    held = [None, None]
    steps = []
    sib = {}
    for a, b in fam:
        sib[a], sib[b] = b, a
    for _ in range(rng.randrange(5, 12)):
        pth = rng.randrange(2)
        if content[pth] is None or rng.random() < 0.45:
            if rng.random() < 0.5:
                i = rng.randrange(n)
                if content[pth] == "one" and held[pth] in sib and rng.random() < 0.6:
                    i = sib[held[pth]]  # a sibling (often a file of the same size) written over the previous one
                steps.append(["save", pth, i])
                content[pth], held[pth] = "one", i
            else:
                r = rng.random()
                ids = [rng.randrange(n) for _ in range(0 if r < 0.1 else rng.randrange(64, 80) if r < 0.2
                                                       else rng.randrange(1, 5))]
                if fam and ids and rng.random() < 0.6:  # siblings (e.g. the same outcomes with other weights) in one file
                    ids += rng.choice(fam)
                    rng.shuffle(ids)
                if content[pth] == "many" and held[pth] and rng.random() < 0.4:
                    ids = [sib.get(i, i) for i in held[pth]]
                steps.append(["saves", pth, ids])
                content[pth], held[pth] = "many", ids
        elif rng.random() < 0.4:  # an object is edited in place and written again
            i = rng.randrange(n)
            steps.append(["swap", i, rng.randrange(100), rng.randrange(100)])
            if content[pth] == "one":
                steps.append(["save", pth, i])
                held[pth] = i
            else:
                steps.append(["saves", pth, [i, i]])
                held[pth] = [i, i]
        mode = rng.choice(["path", "path", "fobj"])
        steps.append(["load" if content[pth] == "one" else "loads", pth, mode])
        r = rng.random()
        if r < 0.25:
            steps.append(["poke"])
        if r < 0.4:
            steps.append(["load" if content[pth] == "one" else "loads", pth, rng.choice(["path", "fobj"])])
    c = {"kind": "files", "specs": specs, "steps": steps, "exact": exact}
    if rng.random() < 0.3:
        c["ptype"] = "pathlib"
    return c


# --- HTY generators: number types of weights / key entries / qubit lists on the constructor, the normalisation helpers and the marginal
def _hty_weights(rng, n, vtype):
    """weights the type vtype can hold exactly (and, for float32, whose normalisation is exact: the total is a power of two)"""
    if vtype == "bool":
        ws = [Fraction(rng.choice([0, 1, 1])) for _ in range(n)]
        if not any(ws):
            ws[rng.randrange(n)] = Fraction(1)
        return ws, sum(ws) in (1, 2, 4, 8)
    if vtype in ("int", "npfloat"):
        ws, ex = _weights(rng, n, rng.choice(["counts", "dyadic", "dyadic_norm", "any"]))
        if not any(ws):
            ws[0] = Fraction(1)
        return ws, ex
    if vtype in ("npint8", "npuint8"):
        ws = [Fraction(rng.randrange(0, 9)) for _ in range(n)]
        while 3 * sum(ws) + 5 > 127:
            ws[max(range(n), key=lambda i: ws[i])] -= 1
        if not any(ws):
            ws[0] = Fraction(1)
        tot = int(sum(ws))
        return ws, tot & (tot - 1) == 0
    if vtype in ("npint64", "npint32", "npuint64"):
        mode = rng.choice(["counts", "dyadic", "big"])
        if mode == "big":
            top = {"npint64": 2 ** 61, "npint32": 2 ** 29, "npuint64": 2 ** 62}[vtype] // (3 * n)
            return [Fraction(rng.randrange(0, top)) for _ in range(n - 1)] + [Fraction(rng.randrange(1, top))], False
        ws, ex = _weights(rng, n, mode)
        ws = [Fraction(int(w)) for w in ws]
        if not any(ws):
            ws[0] = Fraction(1)
        tot = int(sum(ws))
        return ws, tot & (tot - 1) == 0   # (exact comparison only where the normalisation is exact in binary64)
    if vtype == "npfloat32":
        ws, ex = _weights(rng, n, rng.choice(["dyadic_norm", "dyadic", "dyadic"]))
        if not any(ws):
            ws[0] = Fraction(1)
            ex = False
        return ws, ex
    mode = rng.choice(["any", "any", "dyadic_norm", "dyadic", "counts", "uniform", "off_one", "magn"])   # Fraction
    ws, ex = _weights(rng, n, mode)
    if not any(ws):
        ws[0] = Fraction(1)
    return ws, ex


def _hty_items(rng, w, n, base, vtype, form=None):
    keys = _keys(rng, w, n, base)
    ws, exact = _hty_weights(rng, len(keys), vtype)
    if vtype == "npfloat32" and not exact:   # float32 is only generated where its arithmetic is exact
        vtype = "Fraction"
    form = form or rng.choice(["tuple", "tuple", "str", "comma", "mixed"])
    items = []
    for k, v in zip(keys, ws):
        f = rng.choice(["str", "tuple", "comma"]) if form == "mixed" else form
        items.append([_spell(rng, k, f), rat(v)])
    return items, exact, vtype


def _hty_types(rng, big):
    cases = []
    for rep in range(4 if big else 1):
        for vt in HTY_VTYPES + ["int", "npfloat"]:
            for _ in range(5):
                w = rng.choice([1, 2, 3, 4, 5])
                base = rng.choice([2, 2, 2, 3, 10, 40])
                items, exact, vt2 = _hty_items(rng, w, rng.randrange(1, 8), base, vt)
                kt = rng.choice(["py", "py"] + HTY_KTYPES + ["npint"])
                nz = rng.random() < 0.8
                cases.append({"kind": "construct", "items": items, "normalize": nz, "exact": exact, "vtype": vt2, "ktype": kt})
                cases.append({"kind": "fns", "items": items, "vtype": vt2, "ktype": kt})
                qs = rng.sample(range(w), rng.randrange(1, w + 1))
                r = rng.random()
                if r < 0.08:
                    qs.insert(rng.randrange(len(qs) + 1), rng.choice(qs))         # a duplicate
                elif r < 0.16:
                    qs.insert(rng.randrange(len(qs) + 1), w + rng.randrange(0, 2))   # out of range
                cases.append({"kind": "subdist", "items": items, "normalize": rng.random() < 0.85, "qubits": qs, "exact": exact,
                              "vtype": vt2, "ktype": kt, "qtype": rng.choice(HTY_QTYPES + ["npint"])})
            # a history on long-lived objects of this value type
            w = rng.choice([2, 3, 3, 4])
            items, exact, vt2 = _hty_items(rng, w, rng.randrange(2, 8), rng.choice([2, 2, 10]), vt, form=rng.choice(["tuple", "str", "mixed"]))
            kt = rng.choice(["py"] + HTY_KTYPES)
            nz = rng.random() < 0.7
            specs = [_spec(items, nz, vt2, kt), _spec(_siblings(rng, items, w, 2), nz, vt2, kt)]
            steps = []
            allq = [list(x) for r_ in range(1, w + 1) for x in itertools.permutations(range(w), r_)]
            for qs in rng.sample(allq, min(6, len(allq))):
                sidx = rng.randrange(2)
                steps.append(["sub", sidx, qs, rng.random() < 0.2])
                r = rng.random()
                if r < 0.15:
                    steps.append(["swap", sidx, rng.randrange(8), rng.randrange(8)])
                elif r < 0.25 and vt2 not in ("npint8", "npuint8"):
                    steps.append(["scale", sidx, rng.randrange(8)])
                elif r < 0.45 and len(qs) >= 2:
                    steps.append(["chain", sidx, qs, rng.sample(range(len(qs)), rng.randrange(1, len(qs) + 1))])
            cases.append({"kind": "hist", "specs": specs, "steps": steps, "exact": exact, "qtype": rng.choice(HTY_QTYPES)})
        # malformed input in every value type: a negative weight, all weights zero, a negative / odd-length key with numpy entries
        for vt in HTY_VTYPES:
            if vt in ("bool", "npuint8", "npuint64"):
                continue
            w = rng.randrange(1, 4)
            items, _, vt2 = _hty_items(rng, w, rng.randrange(2, 5), 2, vt, form="tuple")
            bad = [list(x) for x in items]
            bad[rng.randrange(len(bad))][1] = rat(-Fraction(rng.randrange(1, 4), 1 if vt.startswith("npint") else 2))
            cases.append({"kind": "construct", "items": bad, "normalize": rng.random() < 0.8, "exact": False, "vtype": vt2, "ktype": rng.choice(["py"] + HTY_KTYPES)})
            cases.append({"kind": "fns", "items": bad, "vtype": vt2, "ktype": "py"})
        for kt in HTY_KTYPES + ["npint"]:
            w = rng.randrange(2, 5)
            items, exact, vt2 = _hty_items(rng, w, rng.randrange(2, 6), rng.choice([2, 3]), rng.choice(["Fraction", "npint64", "int"]), form="tuple")
            zero = [[k, 0] for k, _ in items]
            cases.append({"kind": "construct", "items": zero, "normalize": True, "exact": False, "vtype": vt2, "ktype": kt})
            odd = [list(x) for x in items] + [[[0] * (w + 1), "1/4"]]
            cases.append({"kind": "construct", "items": odd, "normalize": True, "exact": False, "ktype": kt})
            if kt not in ("npuint8", "npuint64", "bool"):
                neg = [list(x) for x in items] + [[[-1] + [0] * (w - 1), "1/4"]]
                if len({tuple(k) for k, _ in neg}) == len(neg):
                    cases.append({"kind": "construct", "items": neg, "normalize": True, "exact": False, "ktype": kt})
        # every qubit-list form x every ordered sub-list of a width-3 register
        for qt in HTY_QTYPES:
            items, exact, vt2 = _hty_items(rng, 3, rng.randrange(2, 8), 2, rng.choice(["Fraction", "int", "npfloat32"]))
            for r_ in range(1, 4):
                for qs in itertools.permutations(range(3), r_):
                    cases.append({"kind": "subdist", "items": items, "normalize": True, "qubits": list(qs), "exact": exact, "vtype": vt2, "qtype": qt})
            w = rng.choice([11, 12, 13])
            items, exact, vt2 = _hty_items(rng, w, rng.randrange(2, 9), 2, "Fraction", form="tuple")
            qs = rng.sample(range(w), rng.randrange(2, 9))
            cases.append({"kind": "subdist", "items": items, "normalize": True, "qubits": qs, "exact": exact, "vtype": vt2, "qtype": qt})
            cases.append({"kind": "subdist", "items": items, "normalize": True, "qubits": list(range(w - 1, 1, -2)), "exact": exact, "vtype": vt2, "qtype": qt})
    return cases


def _hty_run_fns(D, c):
    """the public helpers behind the constructor, called one after the other on the caller's dictionary (route agreement: the object
    holds what normalising the preprocessed dictionary gives)"""
    inp = _to_dict(c["items"], c.get("vtype", "float"), c.get("ktype", "py"))
    pre = _guard(lambda: D.preprocess_distibution_dict(inp))
    if isinstance(pre, str):
        return {"pre": pre}
    out = {"pre": [[[int(e) for e in k], rat(_hty_exact(v))] for k, v in pre.items()] if all(isinstance(k, tuple) for k in pre) else "not-tuples",
           "pre_same_values": [v is w_ for v, w_ in zip(pre.values(), inp.values())] if len(pre) == len(inp) else None}
    valid = _guard(lambda: bool(D.is_measurement_outcome_distribution(pre)))
    out["valid"] = valid
    if valid is not True:
        return out
    out["is_normalized"] = _guard(lambda: bool(D.is_normalized(pre)))
    normed = _guard(lambda: _quiet(lambda: D.normalize_measurement_outcome_distribution(dict(pre))))
    out["normalized"] = normed if isinstance(normed, str) else _canon_dict(normed)
    if not isinstance(normed, str):
        out["normalized_is_normalized"] = _guard(lambda: bool(D.is_normalized(normed)))
    obj = _guard(lambda: _quiet(lambda: D.MeasurementOutcomeDistribution(inp)))
    out["object"] = obj if isinstance(obj, str) else _canon_dict(obj.distribution_dict)
    return out


def _hty_oracle_fns(c, out):
    cls, keys, vals = _classify_input(c["items"])
    if cls in ("malformed", "collision"):
        return None
    pre = out["pre"]
    if isinstance(pre, str) or pre == "not-tuples":
        return ("preprocess-rejects-keys", f"preprocess_distibution_dict refused / mangled the keys of {c['items']}: {pre}") if keys else None
    if [tuple(k) for k, _ in pre] != keys or any(unrat(g) not in (v, Fraction(float(v))) for (_, g), v in zip(pre, vals)):
        return ("preprocess-changes-content", f"preprocess_distibution_dict({c['items']}) gives {pre}: the outcomes / weights are {list(zip(keys, vals))}")
    if cls == "invalid":
        return None if out["valid"] is not True else ("construct-accepts-invalid", f"is_measurement_outcome_distribution is True for {c['items']}")
    if out["valid"] is not True:
        return ("construct-rejects-valid", f"is_measurement_outcome_distribution({c['items']}) is {out['valid']} for a well-formed dictionary")
    tot = sum(vals)
    off = abs(tot - 1)
    if off == 0 or off > Fraction(1, 10 ** 6):   # (clear of the tolerance with which "sums to 1" is read)
        if out["is_normalized"] is not (off == 0):
            return ("is-normalized-wrong", f"is_normalized is {out['is_normalized']} for weights {[float(v) for v in vals]} of total {float(tot)!r}")
    if cls != "valid":
        return None
    res = out["normalized"]
    if isinstance(res, str):
        return ("construct-rejects-valid", f"normalize_measurement_outcome_distribution raised {res} on {c['items']}")
    got = [(tuple(kk), unrat(v)) for kk, v in res]
    if [kk for kk, _ in got] != keys:
        return ("construct-keys", f"normalize_measurement_outcome_distribution changed the outcomes of {c['items']} to {[kk for kk, _ in got]}")
    for (kk, g), v in zip(got, vals):
        if _off(g, v / tot, "2e-9"):
            return ("construct-proportions", f"normalize_measurement_outcome_distribution({c['items']}): value at {kk} is {float(g)!r}, "
                    f"the proportional share is {float(v / tot)!r}")
    if out.get("normalized_is_normalized") is not True:
        return ("construct-not-normalised", f"is_normalized is {out.get('normalized_is_normalized')} for the normalised dictionary {res}")
    f = _judge_construct(c["items"], True, out["object"], None, "MeasurementOutcomeDistribution: ")
    if f:
        return f
    if not isinstance(out["object"], str):   # route agreement: same outcomes, same values up to rounding
        for (kk, g), (_, h) in zip(got, [(tuple(a), unrat(b)) for a, b in out["object"]]):
            if _off(h, g, "1e-9"):
                return ("construct-proportions", f"the object built from {c['items']} holds {float(h)!r} at {kk}, "
                        f"normalize_measurement_outcome_distribution(preprocess_distibution_dict(.)) gives {float(g)!r}")
    return None
# --- HTY end


def generate(rng, tier):
    big = tier == "thorough"
    cases = []
    # ---- constructor
    for _ in range(900 if big else 150):
        w = rng.choice([0, 1, 1, 2, 2, 3, 4, 6] if big else [0, 1, 1, 2, 2, 3, 4])
        base = rng.choice([2, 2, 2, 10, 40, "twins"])
        mode = rng.choice([None, None, None, None, "near_one", "far_one", "tiny"])
        nout = rng.randrange(1, 9)
        if rng.random() < 0.12:  # big dictionaries / wide registers
            w = rng.choice([9, 12, 16, 33, 64, 70])
            nout = rng.randrange(64, 300)
        items, exact = _items(rng, w, nout, base, mode=mode)
        vt, kt = _vk(rng, items)
        cases.append({"kind": "construct", "items": items, "normalize": rng.random() < 0.85, "exact": exact,
                      "vtype": vt, "ktype": kt})
    for _ in range(60 if big else 12):  # from a probability vector (all 2^n bitstrings, zeros included)
        n = rng.choice([1, 2, 3, 4, 6, 7])
        ws, exact = _weights(rng, 2 ** n, rng.choice(["dyadic_norm", "dyadic", "any"]))
        if sum(ws) == 0:
            ws[0] = Fraction(1)
        items = [[list(k), rat(v)] for k, v in zip(itertools.product([0, 1], repeat=n), ws)]
        cases.append({"kind": "construct", "via": "probs", "items": items, "normalize": True, "exact": exact})
    for _ in range(500 if big else 110):
        cases.append({"kind": "construct", "items": _malformed_construct(rng), "normalize": rng.random() < 0.8,
                      "exact": False})
    # ---- marginals: every ordered sub-list of the qubits for width <= 4
    for w in (1, 2, 3, 4):
        for _ in range(12 if big else 3):
            base = rng.choice([2, 2, 2, 10])
            items, exact = _items(rng, w, rng.randrange(1, min(base ** w, 10) + 1), base)
            nz = rng.random() < 0.85
            for r in range(1, w + 1):
                for qs in itertools.permutations(range(w), r):
                    cases.append({"kind": "subdist", "items": items, "normalize": nz, "qubits": list(qs),
                                  "exact": exact})
    for _ in range(500 if big else 80):
        w = rng.randrange(1, 7 if big else 6)
        base = rng.choice([2, 2, 2, 10, 10, 30])
        items, exact = _items(rng, w, rng.randrange(1, 12), base)
        r = rng.randrange(1, w + 1)
        qs = rng.sample(range(w), r)
        bad = rng.random()
        if bad < 0.06:
            qs = []
        elif bad < 0.12:
            qs = list(qs)
            qs.insert(rng.randrange(len(qs) + 1), rng.choice(qs))  # a duplicate, anywhere
        elif bad < 0.18:
            qs = list(qs)
            qs.insert(rng.randrange(len(qs) + 1), w + rng.randrange(0, 2))  # out of range, anywhere
        elif bad < 0.22:
            qs = [-rng.randrange(1, w + 3)] + qs[1:]
        vt, kt = _vk(rng, items)
        cases.append({"kind": "subdist", "items": items, "normalize": rng.random() < 0.9, "qubits": qs,
                      "exact": exact, "vtype": vt, "ktype": kt})
    for _ in range(150 if big else 30):  # wide registers: qubit indices of two digits, long lists, many outcomes
        w = rng.choice([11, 12, 13, 14, 15] if big else [11, 12, 13]) if rng.random() < 0.8 else rng.choice([33, 64, 70])
        nout = rng.randrange(64, 300) if rng.random() < 0.3 else rng.randrange(2, 10)
        items, exact = _items(rng, w, nout, rng.choice([2, 2, 10, "twins"]))
        qs = rng.sample(range(w), rng.randrange(8, w + 1) if rng.random() < 0.4 else rng.randrange(1, 5))
        qs[rng.randrange(len(qs))] = rng.randrange(10, w)
        qs = list(dict.fromkeys(qs))
        c = {"kind": "subdist", "items": items, "normalize": rng.random() < 0.9, "qubits": qs, "exact": exact}
        if rng.random() < 0.3:
            c["qtype"] = "npint"
        cases.append(c)
    # outcome-count ladder (the property has no bound on the support): 512 .. 2187 outcomes, binary AND multi-level entries
    # (0..2 / 0..9), marginals onto 2-4 positions in a non-ascending order
    for nout in ([511, 512, 1023, 1024, 1025, 2187, 4096] if big else [1023, 1024, 1025, 2187]):
        for base in (2, 3, 10):
            w = {2: 12, 3: 7, 10: 4}[base] if nout <= {2: 4096, 3: 2187, 10: 10000}[base] else 12
            if base ** w < nout:
                continue
            items, exact = _items(rng, w, nout, base, form=rng.choice(["tuple", "comma"]), mode=rng.choice(["dyadic_norm", "counts", "uniform"]))
            qs = rng.sample(range(w), rng.choice([2, 2, 3, 4]))
            if qs == sorted(qs):
                qs.reverse()
            cases.append({"kind": "subdist", "items": items, "normalize": True, "qubits": qs, "exact": exact})
    # ---- histories on long-lived objects
    for _ in range(800 if big else 120):
        cases.append(_gen_hist(rng, big))
    for _ in range(800 if big else 120):
        cases.append(_gen_pool(rng, big))
    for _ in range(600 if big else 120):
        cases.append(_gen_files(rng, big))
    # ---- save / load
    for _ in range(500 if big else 90):
        w = rng.choice([0, 1, 1, 2, 2, 3, 5])
        base = rng.choice([2, 2, 10, 10, 25, 1000])
        if w == 1 and base > 10 and rng.random() < 0.8:
            base = 10  # the F7 class is in the corpus; keep most generated cases inside the domain
        nout = rng.randrange(1, 9)
        r = rng.random()
        if r < 0.1:
            w, nout = rng.choice([9, 12, 33, 64, 70]), rng.randrange(64, 300)
        elif r < 0.2 and w >= 2:
            base = "twins"
        items, exact = _items(rng, w, nout, base)
        vt, kt = _vk(rng, items)
        cases.append({"kind": "saveload", "items": items, "normalize": rng.random() < 0.9, "exact": exact,
                      "many": rng.random() < 0.3, "vtype": vt, "ktype": kt})
    # ---- distances
    for _ in range(900 if big else 160):
        w = rng.randrange(1, 6 if big else 5)
        if rng.random() < 0.2:
            w = rng.choice([8, 9, 10, 12, 16, 24, 31])
        base = 2 if rng.random() < 0.93 else 3
        nbig = w >= 8 and rng.random() < 0.5
        p, _ = _items(rng, w, rng.randrange(40, 90) if nbig else rng.randrange(1, 9), base)
        r = rng.random()
        if r < 0.12:
            q = p
        elif r < 0.30 and len(p) >= 2:
            q = _siblings(rng, p, w, base)
        else:
            q, _ = _items(rng, w, rng.randrange(40, 90) if nbig else rng.randrange(1, 9), base)
        ps = _rand_params(rng, "both")
        c = {"kind": "dist", "p": p, "q": q, "sigma": ps.get("sigma"), "eps": ps.get("epsilon")}
        if ps.get("stype"):
            c["stype"] = ps["stype"]
        if ps.get("etype"):
            c["etype"] = ps["etype"]
        if ps.get("ptype"):
            c["ptype"] = ps["ptype"]
        cases.append(c)
    for _ in range(40 if big else 6):  # registers of width >= 32 (MMD judged by the oracle only, see ASSUMPTIONS)
        w = rng.choice([32, 33, 40, 48, 63, 64, 65, 70])
        p, _ = _items(rng, w, rng.randrange(1, 4), 2)
        q, _ = _items(rng, w, rng.randrange(1, 4), 2)
        cases.append({"kind": "dist", "p": p, "q": q, "sigma": rat(Fraction(rng.randrange(1, 80), 4)),
                      "eps": "1/1000000000"})
    # --- HTY number types on the constructor / normalisation helpers / marginal (a fresh generator: the streams above stay as they were)
    import random as _hty_random
    cases += _hty_types(_hty_random.Random(rng.getrandbits(64)), big)
    # --- HTY end
    return cases


def nontrivial(c):
    k = c["kind"]
    if k == "subdist":
        ks = [_parse_key(x) for x, _ in c["items"]]
        if not ks or any(x is None for x in ks):
            return False
        w, qs = len(ks[0]), c["qubits"]
        ok = qs and len(set(qs)) == len(qs) and all(0 <= q < w for q in qs)
        return bool(ok and len(qs) < w and len(ks) >= 2 and (qs != sorted(qs) or (len(qs) == 1 and qs[0] != 0)))
    if k == "dist":
        kp = {_parse_key(x) for x, _ in c["p"]}
        kq = {_parse_key(x) for x, _ in c["q"]}
        return kp != kq
    if k == "construct":
        return len(c["items"]) >= 2 and sum(unrat(v) for _, v in c["items"]) != 1
    if k == "saveload":
        ks = [_parse_key(x) for x, _ in c["items"]]
        return len(ks) >= 2 and all(x is not None and len(x) >= 2 for x in ks)
    if k == "hist":
        subs = [st for st in c["steps"] if st[0] == "sub" and len(set(st[2])) == len(st[2])]
        reord = any(a[1] == b[1] and a[2] != b[2] and sorted(a[2]) == sorted(b[2]) for a in subs for b in subs)
        return reord or len({st[1] for st in subs}) >= 2
    if k == "pool":
        pairs = {}
        for st in c["steps"]:
            if st[0] in _FNS:
                pairs.setdefault(st[3], set()).add(frozenset((st[1], st[2])))
        return any(len(v) >= 2 for v in pairs.values())
    if k == "files":
        content, rewritten = {}, set()
        for st in c["steps"]:
            if st[0] in ("save", "saves"):
                if st[1] in content and content[st[1]] != st[2]:
                    rewritten.add(st[1])
                content[st[1]] = st[2]
            elif st[0] in ("load", "loads") and st[1] in rewritten:
                return True
        return False
    return False


# ---------------------------------------------------------------- implementation adapter
def _qlist(qs, qtype):
    """the qubit list as the caller writes it (Python ints, or numpy integers)"""
    if qtype == "npint":
        import numpy as np
        return [np.int64(q) for q in qs]
    return list(qs)


# --- HTY the qubit list in other forms: tuple, range (where the list is an arithmetic run), numpy arrays, numpy integers of any width
HTY_QTYPES = ["tuple", "range", "nparray", "nparray_u8", "nparray_i8", "npint8", "npmix"]
_qlist_plain = _qlist


def _qlist(qs, qtype):
    import numpy as np
    qs = list(qs)
    if qtype == "tuple":
        return tuple(qs)
    if qtype == "range":
        if len(qs) >= 2 and len({b - a for a, b in zip(qs, qs[1:])}) == 1 and qs[1] != qs[0]:
            return range(qs[0], qs[-1] + (1 if qs[1] > qs[0] else -1), qs[1] - qs[0])
        if len(qs) == 1 and qs[0] >= 0:
            return range(qs[0], qs[0] + 1)
        return tuple(qs)
    if qtype in ("nparray", "nparray_u8", "nparray_i8"):
        dt = {"nparray": np.int64, "nparray_u8": np.uint8, "nparray_i8": np.int8}[qtype]
        if qs and all(np.iinfo(dt).min <= q <= np.iinfo(dt).max for q in qs):
            return np.array(qs, dtype=dt)
        return qs
    if qtype in ("npint8", "npmix"):
        tys = [np.int8] if qtype == "npint8" else [np.int8, np.uint8, np.int64, np.int16, np.uint32, np.intp]
        out = []
        for i, q in enumerate(qs):
            t = tys[i % len(tys)]
            out.append(t(q) if np.iinfo(t).min <= q <= np.iinfo(t).max else q)
        return out
    return _qlist_plain(qs, qtype)
# --- HTY end


def _edit_in_place(dd, st):
    """edit steps of the histories, applied to a `distribution_dict` IN PLACE (the dictionary object stays the same):
    [swap, obj, a, b] exchanges two values, [scale, obj, a] doubles one, [rekey, obj, a, newkey] renames an outcome"""
    keys = list(dd.keys())
    a = keys[st[2] % len(keys)]
    if st[0] == "swap":
        b = keys[st[3] % len(keys)]
        dd[a], dd[b] = dd[b], dd[a]
    elif st[0] == "scale":
        dd[a] = dd[a] * 2
    elif st[0] == "rekey":
        new = tuple(st[3])
        if new not in dd:
            items = [(new if k == a else k, v) for k, v in dd.items()]
            dd.clear()
            dd.update(items)
    else:
        raise AssertionError("unknown edit")


def _quiet(fn):
    with warnings.catch_warnings():
        warnings.simplefilter("ignore")
        return fn()


def run_impl(c):
    D = _mods()
    k = c["kind"]
    if k == "construct":
        return _run_construct(D, c)
    if k == "subdist":
        src = _guard(lambda: _build_spec(D, c))
        if isinstance(src, str):
            return {"source": src}
        before = _canon_dict(src.distribution_dict)
        qt = c.get("qtype")
        res = _guard(lambda: _quiet(lambda: _canon_dict(src.subdistribution(_qlist(c["qubits"], qt)).distribution_dict)))
        mid = _canon_dict(src.distribution_dict)
        # the same question again, on the same object (a fresh list: whether the list itself is modified is C20's)
        res2 = _guard(lambda: _quiet(lambda: _canon_dict(src.subdistribution(_qlist(c["qubits"], qt)).distribution_dict)))
        return {"source": before, "source_after": mid, "res": res, "res_again": res2,
                "source_after_again": _canon_dict(src.distribution_dict)}
    if k == "saveload":
        return _run_saveload(D, c)
    if k == "dist":
        return _run_dist(D, c)
    if k == "hist":
        return _run_hist(D, c)
    if k == "pool":
        return _run_pool(D, c)
    if k == "files":
        return _run_files(D, c)
    # --- HTY
    if k == "fns":
        return _hty_run_fns(D, c)
    # --- HTY end
    raise AssertionError("unknown kind")


def _run_construct(D, c):
    import numpy as np
    inp = _to_dict(c["items"], c.get("vtype", "float"), c.get("ktype", "py"))
    before = list(inp.items())
    if c.get("via") == "probs":
        vec = np.array([float(v) for v in inp.values()])

        def make():
            return _quiet(lambda: D.create_bitstring_distribution_from_probability_distribution(vec))
    else:
        def make():
            return _quiet(lambda: D.MeasurementOutcomeDistribution(inp, normalize=c["normalize"]))
    obj = _guard(make)
    if isinstance(obj, str):
        return {"res": obj, "input_intact": list(inp.items()) == before}
    out = {"res": _canon_dict(obj.distribution_dict), "input_intact": list(inp.items()) == before}
    if c.get("via") == "probs":
        return out
    # ---- history: the same dictionary is used again, then edited; the first object must not notice
    obj2 = _guard(make)
    out["res_second"] = obj2 if isinstance(obj2, str) else _canon_dict(obj2.distribution_dict)
    out["res_after_second"] = _canon_dict(obj.distribution_dict)
    keys = list(inp.keys())
    if keys:
        inp[keys[0]] = inp[keys[0]] + 5
        inp[keys[-1]] = inp[keys[-1]] * 3
    out["res_after_input_edit"] = _canon_dict(obj.distribution_dict)
    # a third object from the SAME dictionary object, whose content is different now
    out["items_third"] = [[kk if isinstance(kk, str) else [int(e) for e in kk] if isinstance(kk, tuple) else None,
                           rat(_hty_exact(v))] for kk, v in inp.items()]   # --- HTY: _hty_exact (a value of any number type) --- HTY end
    before3 = list(inp.items())
    obj3 = _guard(make)
    out["res_third"] = obj3 if isinstance(obj3, str) else _canon_dict(obj3.distribution_dict)
    out["third_intact"] = list(inp.items()) == before3
    # --- HTY: float32 weights are normalised in float32 arithmetic; the EDITED dictionary's total is no longer a power of two, so its
    # normalisation is rounded to float32 - that third object is not judged (the first two, with exact arithmetic, are)
    if c.get("vtype") == "npfloat32":
        out.pop("res_third")
        out.pop("items_third")
    # --- HTY end
    snap = list(inp.items())
    dd = obj.distribution_dict
    for kk in list(dd.keys()):
        dd[kk] = 0.375
    out["input_intact_after_object_edit"] = list(inp.items()) == snap
    if not isinstance(obj2, str):
        out["second_after_object_edit"] = _canon_dict(obj2.distribution_dict)
    return out


def _run_saveload(D, c):
    import json
    src = _guard(lambda: _build_spec(D, c))
    if isinstance(src, str):
        return {"source": src}
    before = _canon_dict(src.distribution_dict)
    fd, path = tempfile.mkstemp(suffix=".json", prefix="oq_c17_")
    os.close(fd)
    try:
        with warnings.catch_warnings():
            warnings.simplefilter("ignore")
            if c.get("many"):
                D.save_measurement_outcome_distributions([src, src], path)
                with open(path) as f:
                    saved = json.load(f)["measurement_outcome_distribution"]
                saved_items = [[kk, rat(Fraction(v))] for kk, v in saved[0].items()]
                same = saved[0] == saved[1]

                def go():
                    l = D.load_measurement_outcome_distributions(path)
                    assert len(l) == 2 and l[0].distribution_dict == l[1].distribution_dict
                    return _canon_dict(l[0].distribution_dict)
            else:
                D.save_measurement_outcome_distribution(src, path)
                with open(path) as f:
                    saved = json.load(f)["measurement_outcome_distribution"]
                saved_items = [[kk, rat(Fraction(v))] for kk, v in saved.items()]
                same = True

                def go():
                    return _canon_dict(D.load_measurement_outcome_distribution(path).distribution_dict)
            loaded = _guard(go)
    finally:
        os.remove(path)
    return {"source": before, "source_after": _canon_dict(src.distribution_dict), "saved": saved_items,
            "loaded": loaded, "copies_equal": same}


_FNS = {"mmd": "compute_mmd", "nll": "compute_clipped_negative_log_likelihood", "jsd": "compute_jensen_shannon_divergence"}


def _fl(v):
    return float(v)


def _run_dist(D, c):
    P = _guard(lambda: _build(D, c["p"], True))
    Q = _guard(lambda: _build(D, c["q"], True))
    if isinstance(P, str) or isinstance(Q, str):
        return {"p": P if isinstance(P, str) else "ok", "q": Q if isinstance(Q, str) else "ok"}
    pm, pe = _dist_params(c)
    par_m, par_e = _mk_params(pm), _mk_params(pe)  # ONE dictionary for all MMD calls, one for the others
    bp, bq = _canon_dict(P.distribution_dict), _canon_dict(Q.distribution_dict)

    def f(fn, a, b, par):
        return _guard(lambda: _quiet(lambda: _fl(fn(a, b, par))))
    out = {"p": bp, "q": bq,
           "mmd_pq": f(D.compute_mmd, P, Q, par_m), "mmd_qp": f(D.compute_mmd, Q, P, par_m),
           "mmd_pp": f(D.compute_mmd, P, P, par_m),
           "nll_pq": f(D.compute_clipped_negative_log_likelihood, P, Q, par_e),
           "nll_qp": f(D.compute_clipped_negative_log_likelihood, Q, P, par_e),
           "jsd_pq": f(D.compute_jensen_shannon_divergence, P, Q, par_e),
           "jsd_qp": f(D.compute_jensen_shannon_divergence, Q, P, par_e),
           # asked again after everything else, with the dictionaries that were used all along
           "mmd_pq_again": f(D.compute_mmd, P, Q, par_m),
           "nll_pq_again": f(D.compute_clipped_negative_log_likelihood, P, Q, par_e),
           "args_intact": bp == _canon_dict(P.distribution_dict) and bq == _canon_dict(Q.distribution_dict)}
    return out


def _run_hist(D, c):
    srcs = [_guard(lambda s=s: _build_spec(D, s)) for s in c["specs"]]
    init = [x if isinstance(x, str) else _canon_dict(x.distribution_dict) for x in srcs]
    if any(isinstance(x, str) for x in srcs):
        return {"init": init}
    qt = c.get("qtype")
    recs = []
    for st in c["steps"]:
        op, si = st[0], st[1]
        src = srcs[si]
        if op == "sub":
            obj = _guard(lambda: _quiet(lambda: src.subdistribution(_qlist(st[2], qt))))
            rec = {"res": obj if isinstance(obj, str) else _canon_dict(obj.distribution_dict),
                   "src_mid": _canon_dict(src.distribution_dict)}
            if st[3] and not isinstance(obj, str):  # the caller edits what it got
                rd = obj.distribution_dict
                for kk in list(rd.keys()):
                    rd[kk] = 0.625
                rd[tuple([7] * len(st[2]))] = 0.125
            del obj
            rec["src"] = _canon_dict(src.distribution_dict)
        elif op == "chain":  # the marginal of a marginal
            obj = _guard(lambda: _quiet(lambda: src.subdistribution(_qlist(st[2], qt))))
            rec = {"res": obj if isinstance(obj, str) else _canon_dict(obj.distribution_dict)}
            if not isinstance(obj, str):
                obj2 = _guard(lambda: _quiet(lambda: obj.subdistribution(_qlist(st[3], qt))))
                rec["res2"] = obj2 if isinstance(obj2, str) else _canon_dict(obj2.distribution_dict)
                rec["res_after"] = _canon_dict(obj.distribution_dict)
            rec["src_mid"] = _canon_dict(src.distribution_dict)
            rec["src"] = rec["src_mid"]
        elif op in ("swap", "scale", "rekey"):
            _edit_in_place(src.distribution_dict, st)
            rec = {"src": _canon_dict(src.distribution_dict)}
        elif op == "replace":  # the old object is dropped, a new one (other content) takes its place
            srcs[si] = None
            del src
            srcs[si] = _build_spec(D, c["specs"][st[2]])
            rec = {"src": _canon_dict(srcs[si].distribution_dict)}
        else:
            raise AssertionError("unknown step")
        recs.append(rec)
    return {"init": init, "steps": recs}


_EDITS = ("swap", "scale", "rekey")


def _run_pool(D, c):
    ds = [_guard(lambda s=s: _build_spec(D, s)) for s in c["specs"]]
    init = [x if isinstance(x, str) else _canon_dict(x.distribution_dict) for x in ds]
    if any(isinstance(x, str) for x in ds):
        return {"dists": init}
    pars = [_mk_params(ps) for ps in c["params"]]  # long-lived: every step using params[i] passes the same object
    vals = []
    for st in c["steps"]:
        if st[0] in _EDITS:  # the caller edits a member in place; recorded: what the member shows afterwards
            _edit_in_place(ds[st[1]].distribution_dict, st)
            vals.append({"src": _canon_dict(ds[st[1]].distribution_dict)})
            continue
        fn, i, j, pi, via = st
        f = getattr(D, _FNS[fn])
        if via == "eval":
            vals.append(_guard(lambda: _quiet(lambda: _fl(D.evaluate_distribution_distance(
                ds[i], ds[j], f, distance_measure_parameters=pars[pi])))))
        else:
            vals.append(_guard(lambda: _quiet(lambda: _fl(f(ds[i], ds[j], pars[pi])))))
    return {"dists": init, "vals": vals, "dists_after": [_canon_dict(x.distribution_dict) for x in ds]}


def _run_files(D, c):
    import json
    import pathlib
    ds = [_guard(lambda s=s: _build_spec(D, s)) for s in c["specs"]]
    init = [x if isinstance(x, str) else _canon_dict(x.distribution_dict) for x in ds]
    if any(isinstance(x, str) for x in ds):
        return {"dists": init}
    paths = []
    for _ in range(2):
        fd, path = tempfile.mkstemp(suffix=".json", prefix="oq_c17_")
        os.close(fd)
        paths.append(path)
    recs = []
    last = []

    def raw(path):
        with open(path) as f:
            return json.load(f)["measurement_outcome_distribution"]

    def target(path):  # what the caller hands to the save functions
        return pathlib.Path(path) if c.get("ptype") == "pathlib" else path

    def load_with(fn, path, mode):
        if mode == "fobj":
            with open(path) as f:
                return fn(f)
        return fn(path)
    try:
        for st in c["steps"]:
            op = st[0]
            if op in _EDITS:
                _edit_in_place(ds[st[1]].distribution_dict, st)
                recs.append({"src": _canon_dict(ds[st[1]].distribution_dict)})
            elif op == "save":
                _quiet(lambda: D.save_measurement_outcome_distribution(ds[st[2]], target(paths[st[1]])))
                recs.append({"saved": [[kk, rat(Fraction(v))] for kk, v in raw(paths[st[1]]).items()]})
            elif op == "saves":
                _quiet(lambda: D.save_measurement_outcome_distributions([ds[i] for i in st[2]], target(paths[st[1]])))
                recs.append({"saved": [[[kk, rat(Fraction(v))] for kk, v in one.items()] for one in raw(paths[st[1]])]})
            elif op == "load":
                obj = _guard(lambda: _quiet(lambda: load_with(D.load_measurement_outcome_distribution, paths[st[1]], st[2])))
                last = [] if isinstance(obj, str) else [obj]
                recs.append({"loaded": obj if isinstance(obj, str) else _canon_dict(obj.distribution_dict)})
            elif op == "loads":
                objs = _guard(lambda: _quiet(lambda: load_with(D.load_measurement_outcome_distributions, paths[st[1]], st[2])))
                last = [] if isinstance(objs, str) else list(objs)
                recs.append({"loaded": objs if isinstance(objs, str) else [_canon_dict(o.distribution_dict) for o in objs]})
            elif op == "poke":  # the caller edits what the loader returned
                for o in last:
                    for kk in list(o.distribution_dict.keys()):
                        o.distribution_dict[kk] = 0.875
                recs.append({})
            else:
                raise AssertionError("unknown step")
    finally:
        for path in paths:
            os.remove(path)
    return {"dists": init, "steps": recs, "dists_after": [_canon_dict(x.distribution_dict) for x in ds]}


# ---------------------------------------------------------------- model requests / comparison
def _track_hist(c, out):
    """[(step, record, content of the addressed object when the step starts)].  The content is followed from the
    OBSERVED state of the implementation's objects: initial dictionaries, then whatever `distribution_dict` shows
    after an edit step of the history (edits are made by the history itself, not by the library)"""
    cur = list(out["init"])
    res = []
    for st, rec in zip(c["steps"], out["steps"]):
        res.append((st, rec, cur[st[1]]))
        if st[0] not in ("sub", "chain"):
            cur[st[1]] = rec["src"]
    return res


def _track_pool(c, out):
    """[(step, value, observed content of member i, of member j, model items of i, of j)] for the distance steps.
    A member is what its specification says until the history edits it in place; from then on it is what its
    `distribution_dict` showed after the edit"""
    obs = list(out["dists"])
    items = [sp["items"] for sp in c["specs"]]
    res = []
    for st, val in zip(c["steps"], out["vals"]):
        if st[0] in _EDITS:
            obs[st[1]] = val["src"]
            items[st[1]] = val["src"]
            continue
        res.append((st, val, obs[st[1]], obs[st[2]], items[st[1]], items[st[2]]))
    return res, obs


def _pool_plan(c, out):
    """(requests, index of the request answering each distance step)"""
    reqs, where, at = [], {}, []
    for _st, _val, _oi, _oj, ii, ij in _track_pool(c, out)[0]:
        key = common.canon([ii, ij])
        if key not in where:
            where[key] = len(reqs)
            reqs.append(("distdata", {"p": ii, "q": ij}))
        at.append(where[key])
    return reqs, at


def _track_files(c, out):
    """[(step, record, what the step writes / what the file read holds)]: for save steps the list of
    (observed content, model items, normalize flag for the model) of the objects written, for load steps the same list
    as recorded when the path was last written"""
    obs = list(out["dists"])
    items = [(sp["items"], sp.get("normalize", True)) for sp in c["specs"]]
    content = {}
    res = []
    for st, rec in zip(c["steps"], out["steps"]):
        op = st[0]
        if op in _EDITS:
            obs[st[1]] = rec["src"]
            items[st[1]] = (rec["src"], False)
            res.append((st, rec, None))
        elif op in ("save", "saves"):
            ids = [st[2]] if op == "save" else list(st[2])
            content[st[1]] = [(obs[i], items[i][0], items[i][1]) for i in ids]
            res.append((st, rec, content[st[1]]))
        elif op in ("load", "loads"):
            res.append((st, rec, content[st[1]]))
        else:
            res.append((st, rec, None))
    return res, obs


def _files_plan(c, out):
    """(requests, {canonical (items, normalize) -> index of the request})"""
    reqs, where = [], {}
    for st, _rec, held in _track_files(c, out)[0]:
        if st[0] in ("save", "saves"):
            for _obs, its, nz in held:
                key = common.canon([its, nz])
                if key not in where:
                    where[key] = len(reqs)
                    reqs.append(("saveload", {"items": its, "normalize": nz}))
    return reqs, where


def requests(c, out):
    k = c["kind"]
    if k == "construct":
        reqs = [("construct", {"items": c["items"], "normalize": c["normalize"]})]
        if "items_third" in out:
            reqs.append(("construct", {"items": out["items_third"], "normalize": c["normalize"]}))
        return reqs
    if k == "subdist":
        return [("subdist", {"items": c["items"], "normalize": c["normalize"], "qubits": c["qubits"]})]
    if k == "saveload":
        return [("saveload", {"items": c["items"], "normalize": c["normalize"]})]
    if k == "dist":
        return [("distdata", {"p": c["p"], "q": c["q"]})]
    if k == "hist":
        reqs = [("construct", {"items": s["items"], "normalize": s.get("normalize", True)}) for s in c["specs"]]
        if "steps" in out:
            for st, rec, before in _track_hist(c, out):
                if st[0] in ("sub", "chain"):  # the model answers from the content the object has at that moment
                    reqs.append(("subdist", {"items": before, "normalize": False, "qubits": st[2]}))
                if st[0] == "chain" and not isinstance(rec["res"], str):
                    reqs.append(("subdist", {"items": rec["res"], "normalize": False, "qubits": st[3]}))
        return reqs
    if k == "pool":
        if "vals" not in out:
            return [("distdata", {"p": sp["items"], "q": sp["items"]}) for sp in c["specs"]]
        return _pool_plan(c, out)[0]
    if k == "files":
        if "steps" not in out:
            return [("saveload", {"items": sp["items"], "normalize": sp.get("normalize", True)}) for sp in c["specs"]]
        return _files_plan(c, out)[0]
    return []


def _same_dict(impl, model, exact):
    """None if the two canonical dictionaries agree, else a message"""
    if isinstance(impl, str) or isinstance(model, str):
        return None if impl == model else f"impl {impl} model {model}"
    if [k for k, _ in impl] != [k for k, _ in model]:
        return f"keys differ: impl {[k for k, _ in impl]} model {[k for k, _ in model]}"
    for (k, a), (_, b) in zip(impl, model):
        a, b = unrat(a), unrat(b)
        if exact:
            if a != b:
                return f"value at {k}: impl {a} model {b} (exact comparison)"
        elif abs(a - b) > Fraction(1, 10 ** 12) * abs(b):  # relative: all sums are of non-negative numbers
            return f"value at {k}: impl {float(a)!r} model {float(b)!r}"
    return None


def _kernel(sigma, x, y):
    if isinstance(sigma, list):
        return sum(math.exp(-(1.0 / (2 * s)) * (x - y) ** 2) for s in sigma) / len(sigma)
    return math.exp(-(1.0 / (2 * sigma)) * (x - y) ** 2)


def _mmd(codes, t, m, sigma):
    """the quadratic form sum_ij d_i k(x_i, x_j) d_j of the difference d = t - m (Gaussian kernel on the integer codes)"""
    d = [a - b for a, b in zip(t, m)]
    if len(d) <= 12:
        return sum(d[i] * _kernel(sigma, codes[i], codes[j]) * d[j] for i in range(len(d)) for j in range(len(d)))
    import numpy as np  # the same sum for many outcomes: exact integer squared distances, then floats
    x = np.array([int(v) for v in codes], dtype=object)
    d2 = ((x[:, None] - x[None, :]) ** 2).astype(float)
    sig = sigma if isinstance(sigma, list) else [sigma]
    with np.errstate(all="ignore"):
        kern = sum(np.exp(-(1.0 / (2 * sg)) * d2) for sg in sig) / len(sig)
    dv = np.array(d, dtype=float)
    return float(dv @ kern @ dv)


def _nll(t, m, eps):
    return -sum(a * math.log(max(eps, b)) for a, b in zip(t, m))


def _close(a, b, tol=_TOL):
    if isinstance(a, str) or isinstance(b, str):
        return a == b
    return abs(a - b) <= tol * max(1.0, abs(a), abs(b))


def _cmp_num(got, want, tol=_TOL):
    """implementation value vs the value computed from the model's data (nan / inf never agree with a number)"""
    if isinstance(got, str) or isinstance(want, str):
        return got == want
    if not (math.isfinite(got) and math.isfinite(want)):
        return False
    return abs(got - want) <= tol * max(1.0, abs(got), abs(want))


def _cmp_mmd(got, want):
    if isinstance(got, str) or isinstance(want, str):
        return got == want
    return math.isfinite(got) and abs(got - want) <= 1e-12 + _TOL * abs(want)


def _model_values(r, ps_m, ps_e, need=("mmd", "nll")):
    """the seven distance values recomputed from the model's discrete data (union of supports, integer codes, value
    vectors) with math.exp / math.log; `None` for MMD entries of registers the model's arithmetic does not cover"""
    rows = r["rows"]
    t = [float(unrat(x[1])) for x in rows]
    m = [float(unrat(x[2])) for x in rows]
    sigma, _ = _sigma_eps(ps_m)
    _, eps = _sigma_eps(ps_e)
    wide = False  # since the repair b6e2a42 the library's MMD is exact on wide registers too: compared like any other
    if wide:
        want = {"mmd_pq": None, "mmd_qp": None, "mmd_pp": None}
    elif isinstance(r["codes"], str):
        want = {"mmd_pq": r["codes"], "mmd_qp": r["codes"]}
    elif "mmd" not in need:
        want = {}
    else:
        want = {"mmd_pq": _mmd(r["codes"], t, m, sigma), "mmd_qp": _mmd(r["codes"], m, t, sigma)}
    if not wide:
        want["mmd_pp"] = 0.0 if r["self_ok"] else "err:value"  # theorem mmd_self: defined => 0
    want["nll_pq"] = _nll(t, m, eps)
    want["nll_qp"] = _nll(m, t, eps)
    want["jsd_pq"] = want["nll_pq"] / 2 + want["nll_qp"] / 2
    want["jsd_qp"] = want["jsd_pq"]
    return want


def _cmp_sources(out_src, model_src):
    return None if out_src == model_src else f"source: impl {out_src} model {model_src}"


def compare(c, out, resp):
    for r in resp:
        if isinstance(r, dict) and "driver_error" in r:
            return "driver error: " + r["driver_error"]
    r = resp[0]
    if "exc" in out:
        return f"implementation raised {out}"
    k = c["kind"]
    ex = bool(c.get("exact"))
    if k == "construct":
        msg = _same_dict(out["res"], r, ex)
        if msg:
            return "constructor: " + msg
        if "res_second" in out:
            msg = _same_dict(out["res_second"], r, ex)
            if msg:
                return "constructor, second object from the same dictionary: " + msg
            msg = _same_dict(out["res_after_input_edit"], r, ex) or _same_dict(out["res_after_second"], r, ex)
            if msg:
                return "constructor, first object looked at again later: " + msg
        if "res_third" in out and len(resp) > 1:
            msg = _same_dict(out["res_third"], resp[1], False)
            if msg:
                return f"constructor, the same dictionary object with new content {out['items_third']}: " + msg
        return None
    if k == "subdist":
        if isinstance(out.get("source"), str) or isinstance(r.get("source"), str):
            return _cmp_sources(out.get("source"), r.get("source"))
        for a, b, name in ((out["source"], r["source"], "source"), (out["source_after"], r["source_after"], "source after the call"),
                           (out["res"], r["result"], "subdistribution"),
                           (out["res_again"], r["result"], "subdistribution asked a second time"),
                           (out["source_after_again"], r["source_after"], "source after the second call")):
            msg = _same_dict(a, b, ex)
            if msg:
                return f"{name}: {msg}"
        return None
    if k == "saveload":
        if isinstance(out.get("source"), str) or isinstance(r.get("source"), str):
            return _cmp_sources(out.get("source"), r.get("source"))
        msg = _same_dict(out["source"], r["source"], ex)
        if msg:
            return "source: " + msg
        if [x for x, _ in out["saved"]] != [x for x, _ in r["saved"]]:
            return f"saved keys: impl {[x for x, _ in out['saved']]} model {[x for x, _ in r['saved']]}"
        if [unrat(v) for _, v in out["saved"]] != [unrat(v) for _, v in out["source"]]:
            return "saved values differ from the stored values"
        msg = _same_dict(out["loaded"], r["loaded"], ex)
        return msg and "loaded: " + msg
    if k == "dist":
        if "rows" not in r or not isinstance(out.get("p"), list):
            impl_ok = isinstance(out.get("p"), list)
            if impl_ok != ("rows" in r):
                return f"construction of p/q: impl {out.get('p')}/{out.get('q')} model {r}"
            return None
        rows = r["rows"]
        union_impl = sorted(set(map(tuple, [kk for kk, _ in out["p"]])) | set(map(tuple, [kk for kk, _ in out["q"]])))
        if sorted(tuple(x[0]) for x in rows) != union_impl:
            return f"union of supports: impl {union_impl} model {[x[0] for x in rows]}"
        pm, pe = _dist_params(c)
        want = _model_values(r, pm, pe)
        want["mmd_pq_again"] = want["mmd_pq"]
        want["nll_pq_again"] = want["nll_pq"]
        for name, v in want.items():
            if v is None:
                continue
            if name == "mmd_pp" and isinstance(out[name], float) and not isinstance(v, str):
                if not abs(out[name]) <= 1e-12:
                    return f"mmd(p,p): impl {out[name]} model 0"
                continue
            if not (_cmp_mmd(out[name], v) if name.startswith("mmd") else _cmp_num(out[name], v)):
                return f"{name}: impl {out[name]} value from the model's data {v}"
        return None
    if k == "hist":
        n = len(c["specs"])
        for i in range(n):
            msg = _same_dict(out["init"][i], resp[i], ex)
            if msg:
                return f"object {i}: {msg}"
        if "steps" not in out:
            return None
        at = n
        for idx, (st, rec, _before) in enumerate(_track_hist(c, out)):
            if st[0] not in ("sub", "chain"):
                continue
            r = resp[at]
            at += 1
            if isinstance(r.get("source"), str):
                return f"step {idx}: the model rejects the content {_before} of the object: {r['source']}"
            for a, b, name in ((rec["res"], r["result"], "subdistribution"),
                               (rec["src_mid"], r["source_after"], "source after the call")):
                msg = _same_dict(a, b, ex)
                if msg:
                    return f"step {idx} {st} of the history: {name}: {msg}"
            if st[0] == "chain" and not isinstance(rec["res"], str):
                r = resp[at]
                at += 1
                if isinstance(r.get("source"), str):
                    return f"step {idx}: the model rejects the marginal {rec['res']}: {r['source']}"
                for a, b, name in ((rec["res2"], r["result"], "marginal of the marginal"),
                                   (rec["res_after"], r["source_after"], "first marginal after the second call")):
                    msg = _same_dict(a, b, ex)
                    if msg:
                        return f"step {idx} {st} of the history: {name}: {msg}"
        return None
    if k == "pool":
        if "vals" not in out:
            ok_model = all("rows" in x for x in resp)
            return None if not ok_model else f"construction of the pool: impl {out.get('dists')} model accepts all"
        _reqs, at = _pool_plan(c, out)
        for idx, ((st, val, _oi, _oj, _ii, _ij), ri) in enumerate(zip(_track_pool(c, out)[0], at)):
            fn, _i, _j, pi, _via = st
            r = resp[ri]
            if "rows" not in r:
                return f"construction of the pool: model {r}"
            want = _model_values(r, c["params"][pi], c["params"][pi], ("mmd",) if fn == "mmd" else ("nll",))
            v = want["mmd_pq" if fn == "mmd" else "nll_pq" if fn == "nll" else "jsd_pq"]
            if v is None:
                continue
            if not (_cmp_mmd(val, v) if fn == "mmd" else _cmp_num(val, v)):
                return f"distance call no. {idx} {st} of the history: impl {val} value from the model's data {v}"
        return None
    if k == "files":
        if "steps" not in out:
            return None if any(isinstance(x.get("source"), str) for x in resp) else \
                f"construction: impl {out.get('dists')} model accepts all"
        _reqs, where = _files_plan(c, out)
        for idx, (st, rec, held) in enumerate(_track_files(c, out)[0]):
            op = st[0]
            if op in ("save", "saves"):
                saved = [rec["saved"]] if op == "save" else rec["saved"]
                if len(saved) != len(held):
                    return f"step {idx} {st}: {len(saved)} dictionaries written for {len(held)} distributions"
                for (obs, its, nz), sv in zip(held, saved):
                    r = resp[where[common.canon([its, nz])]]
                    if isinstance(r.get("source"), str):
                        return f"step {idx} {st}: impl holds {obs}, model {r['source']}"
                    msg = _same_dict(obs, r["source"], ex)
                    if msg:
                        return f"step {idx} {st}: object written: {msg}"
                    if [x for x, _ in sv] != [x for x, _ in r["saved"]]:
                        return f"step {idx} {st}: saved keys: impl {[x for x, _ in sv]} model {[x for x, _ in r['saved']]}"
                    if [unrat(v) for _, v in sv] != [unrat(v) for _, v in obs]:
                        return f"step {idx} {st}: saved values differ from the stored values {obs}"
            elif op in ("load", "loads"):
                got = [rec["loaded"]] if op == "load" else rec["loaded"]
                if isinstance(got, str):
                    got = [got] * len(held)
                if len(got) != len(held):
                    return f"step {idx} {st}: {len(got)} distributions loaded, {len(held)} were saved"
                for (obs, its, nz), g in zip(held, got):
                    r = resp[where[common.canon([its, nz])]]
                    msg = _same_dict(g, r["loaded"], ex)
                    if msg:
                        return f"step {idx} {st}: loaded ({obs}): {msg}"
        return None
    return None


# ---------------------------------------------------------------- property oracle (implementation only)
def _as_map(canon):
    return {tuple(k): unrat(v) for k, v in canon}


def oracle(c, out):
    k = c["kind"]
    if "exc" in out:
        return (f"{k}-unexpected-{out['exc']}", f"implementation raised {out['exc']}: {out.get('msg')}")
    if k == "construct":
        return _oracle_construct(c, out)
    if k == "subdist":
        return _oracle_subdist(c, out)
    if k == "saveload":
        return _oracle_saveload(c, out)
    if k == "dist":
        return _oracle_dist(c, out)
    if k == "hist":
        return _oracle_hist(c, out)
    if k == "pool":
        return _oracle_pool(c, out)
    if k == "files":
        return _oracle_files(c, out)
    # --- HTY
    if k == "fns":
        return _hty_oracle_fns(c, out)
    # --- HTY end
    return None


def _classify_input(items):
    """('malformed'|'collision'|'invalid'|'degenerate'|'valid', parsed keys, values)"""
    keys = [_parse_key(x) for x, _ in items]
    vals = [unrat(v) for _, v in items]
    if any(x is None for x in keys):
        return "malformed", keys, vals
    if len(set(keys)) != len(keys):
        return "collision", keys, vals
    if (not keys or any(v < 0 for v in vals) or len({len(x) for x in keys}) != 1
            or any(e < 0 for x in keys for e in x)):
        return "invalid", keys, vals
    tot = sum(float(v) for v in vals)
    if tot == 0 or tot < 2.3e-308:
        return "degenerate", keys, vals
    return "valid", keys, vals


def _off(g, want, rel):
    """is the stored number g off the wanted one by more than the RELATIVE tolerance (a wanted 0 must be stored as 0)"""
    g, want = Fraction(g), Fraction(want)
    return abs(g - want) > Fraction(rel) * abs(want)


def _judge_construct(items, normalize, res, via=None, ctx=""):
    """the constructor sentences for one construction: `res` is what the object holds (or the rejection)"""
    cls, keys, vals = _classify_input(items)
    if cls == "invalid":
        if not isinstance(res, str):
            why = ("empty" if not keys else "negative value" if any(v < 0 for v in vals)
                   else "unequal key lengths" if len({len(x) for x in keys}) != 1 else "negative entry")
            return ("construct-accepts-invalid", f"{ctx}input with {why} was accepted: {items} -> {res}")
        return None
    if isinstance(res, str):
        if cls == "valid":
            return ("construct-rejects-valid", f"{ctx}well-formed input {items} rejected with {res}")
        return None
    got = [(tuple(kk), unrat(v)) for kk, v in res]
    if any(v < 0 for _, v in got):
        return ("construct-negative-probability", f"{ctx}stored values {res} contain a negative number")
    s = sum(float(v) for _, v in got)
    if normalize and abs(s - 1) > 2e-9:
        return ("construct-not-normalised", f"{ctx}stored values sum to {s!r} with normalisation on ({items})")
    if cls == "valid" and via == "probs":
        tot = sum(vals)
        gm, wm = dict(got), dict(zip(keys, vals))
        if len(gm) != len(got) or not set(gm) <= set(wm):
            return ("construct-keys", f"stored keys {[kk for kk, _ in got]} for the probability vector {vals}")
        for kk, v in wm.items():
            if _off(gm.get(kk, 0), v / tot, "2e-9"):
                return ("construct-proportions", f"probability vector {[float(x) for x in vals]}: value at {kk} is "
                        f"{float(gm.get(kk, 0))!r}, proportional share is {float(v / tot)!r}")
        return None
    if cls == "valid":
        if [kk for kk, _ in got] != keys:
            return ("construct-keys", f"{ctx}stored keys {[kk for kk, _ in got]} differ from the input keys {keys}")
        tot = sum(vals)
        for (kk, g), v in zip(got, vals):
            want = v / tot if normalize else v
            if _off(g, want, "2e-9"):
                return ("construct-proportions", f"{ctx}input {items} (normalize={normalize}): value at {kk} is "
                        f"{float(g)!r}, proportional share is {float(want)!r}")
    return None


def _oracle_construct(c, out):
    cls, keys, vals = _classify_input(c["items"])
    res = out["res"]
    if not out.get("input_intact", True):
        return ("construct-mutates-input", f"the constructor (normalize={c['normalize']}) modified the dictionary "
                f"{c['items']} passed to it")
    f = _judge_construct(c["items"], c["normalize"], res, c.get("via"))
    if f or isinstance(res, str):
        return f
    if "res_third" in out and all(kk is not None for kk, _ in out["items_third"]):
        # the caller's dictionary OBJECT is the same, its content is not: the new object is judged on the new content
        f = _judge_construct(out["items_third"], c["normalize"], out["res_third"], None,
                             f"a dictionary that held {c['items']} when a first object was built from it, now updated: ")
        if f:
            return f
    # "always holds ...": the object keeps its content whatever happens later to the dictionary it was built from,
    # and two objects built from one dictionary do not share state
    if "res_second" in out and cls == "valid":
        if out["res_second"] != res:
            return ("construct-not-repeatable", f"the same dictionary {c['items']} (normalize={c['normalize']}) gave {res} the "
                    f"first time and {out['res_second']} the second time")
        if out["res_after_second"] != res:
            return ("construct-aliases-input", f"object built from {c['items']} held {res}; after a second object was built "
                    f"from the same dictionary it holds {out['res_after_second']}")
        if out["res_after_input_edit"] != res:
            return ("construct-aliases-input", f"object built from {c['items']} held {res}; after the caller updated its own "
                    f"dictionary the object holds {out['res_after_input_edit']}")
        if out.get("second_after_object_edit", res) != res:
            return ("construct-aliases-input", f"two objects built from {c['items']}: editing the first one's "
                    f"distribution_dict changed the second to {out['second_after_object_edit']}")
        if not out.get("input_intact_after_object_edit", True):
            return ("construct-aliases-input", f"editing the distribution_dict of the object built from {c['items']} "
                    "changed the caller's dictionary")
    return None


def _multidigit(canon):
    return any(e >= 10 for kk, _ in canon for e in kk)


def _show_specs(specs):
    return "; ".join(f"d{i} = MeasurementOutcomeDistribution({sp['items']}, normalize={sp.get('normalize', True)})"
                     for i, sp in enumerate(specs))


def _show_hist_steps(steps):
    out = []
    for st in steps:
        if st[0] == "sub":
            out.append(f"r = d{st[1]}.subdistribution({st[2]})" + (", r.distribution_dict edited" if st[3] else ""))
        elif st[0] == "swap":
            out.append(f"values no. {st[2]} and {st[3]} (mod size) of d{st[1]}.distribution_dict swapped")
        elif st[0] == "scale":
            out.append(f"value no. {st[2]} (mod size) of d{st[1]}.distribution_dict doubled")
        elif st[0] == "rekey":
            out.append(f"outcome no. {st[2]} (mod size) of d{st[1]}.distribution_dict renamed to {tuple(st[3])}")
        elif st[0] == "chain":
            out.append(f"d{st[1]}.subdistribution({st[2]}).subdistribution({st[3]})")
        elif st[0] == "replace":
            out.append(f"d{st[1]} = a new object built like d{st[2]}")
        elif st[0] in _FNS:
            out.append(f"{st[0]}(d{st[1]}, d{st[2]}, par{st[3]})" + (" via evaluate_distribution_distance" if st[4] == "eval" else ""))
        else:
            out.append(str(st))
    return "; ".join(out) if out else "nothing"


def _judge_specs(specs, built):
    """the constructor sentences for every object a history is run on"""
    for i, (sp, x) in enumerate(zip(specs, built)):
        f = _judge_construct(sp["items"], sp.get("normalize", True), x, None, f"object d{i}: ")
        if f:
            return f
    return None


def _judge_marginal(src, qs, res, ctx=""):
    """the marginal sentence for one answer `res` of subdistribution(qs) on an object whose content is `src`"""
    w = len(src[0][0])
    if any(q < 0 for q in qs):
        return None
    bad = (not qs) or len(set(qs)) != len(qs) or any(q >= w for q in qs)
    if bad:
        if not isinstance(res, str):
            return ("subdistribution-accepts-invalid-qubits", f"{ctx}qubit list {qs} on width {w} accepted: {res}")
        return None
    sig = "subdistribution-multidigit-entry" if _multidigit(src) else "subdistribution-marginal"
    if isinstance(res, str):
        return (sig, f"{ctx}subdistribution({qs}) of {src} raised {res}")
    want = {}
    for kk, v in src:
        nk = tuple(kk[q] for q in qs)
        want[nk] = want.get(nk, Fraction(0)) + unrat(v)
    got = _as_map(res)
    if len(got) != len(res):
        return (sig, f"{ctx}duplicate outcomes in the marginal {res}")
    if set(got) != set(want):
        return (sig, f"{ctx}marginal of {src} on {qs} has outcomes {sorted(got)}, the projections are {sorted(want)}")
    for nk, v in want.items():
        if _off(got[nk], v, "1e-12"):
            return (sig, f"{ctx}marginal of {src} on {qs} at {nk} is {float(got[nk])!r}, the sum of the projecting "
                    f"outcomes is {float(v)!r}")
    return None


def _oracle_subdist(c, out):
    src = out.get("source")
    f = _judge_construct(c["items"], c["normalize"], src)
    if f or isinstance(src, str):
        return f
    if out["source_after"] != src:
        return ("subdistribution-mutates-source",
                f"source was {src} before and {out['source_after']} after subdistribution({c['qubits']})")
    f = _judge_marginal(src, c["qubits"], out["res"])
    if f:
        return f
    if "res_again" in out:
        if out["source_after_again"] != src:
            return ("subdistribution-mutates-source",
                    f"source was {src} before and {out['source_after_again']} after two calls of subdistribution({c['qubits']})")
        return _judge_marginal(src, c["qubits"], out["res_again"], "asked a second time on the same object: ")
    return None


def _oracle_hist(c, out):
    f = _judge_specs(c["specs"], out["init"])
    if f:
        return f
    if "steps" not in out:
        return None
    for idx, (st, rec, before) in enumerate(_track_hist(c, out)):
        ctx = f"{_show_specs(c['specs'])}; then {_show_hist_steps(c['steps'][:idx])}; now d{st[1]}: "
        if st[0] == "sub":
            if rec["src_mid"] != before:
                return ("subdistribution-mutates-source",
                        f"{ctx}content was {before} before and {rec['src_mid']} after subdistribution({st[2]})")
            f = _judge_marginal(before, st[2], rec["res"], ctx)
            if f:
                return f
            if rec["src"] != before:
                return ("subdistribution-result-shares-state",
                        f"{ctx}editing the object returned by subdistribution({st[2]}) changed the source from {before} "
                        f"to {rec['src']}")
        elif st[0] == "chain":
            if rec["src_mid"] != before:
                return ("subdistribution-mutates-source",
                        f"{ctx}content was {before} before and {rec['src_mid']} after subdistribution({st[2]})")
            f = _judge_marginal(before, st[2], rec["res"], ctx)
            if f:
                return f
            if not isinstance(rec["res"], str):  # the marginal object is a distribution like any other
                ctx2 = ctx + f"m = d{st[1]}.subdistribution({st[2]}) holds {rec['res']}; m: "
                f = _judge_marginal(rec["res"], st[3], rec["res2"], ctx2)
                if f:
                    return f
                if rec["res_after"] != rec["res"]:
                    return ("subdistribution-mutates-source",
                            f"{ctx2}content was {rec['res']} before and {rec['res_after']} after subdistribution({st[3]})")
        elif st[0] == "replace":
            if rec["src"] != out["init"][st[2]]:
                return ("construct-not-repeatable", f"{ctx}a second object built from {c['specs'][st[2]]['items']} holds "
                        f"{rec['src']}, the first one held {out['init'][st[2]]}")
    return None


def _judge_roundtrip(src, ld, what):
    """the save/load sentence for one loaded dictionary `ld` of a saved distribution whose content is `src`"""
    tot = sum(float(unrat(v)) for _, v in src)
    if not math.isclose(tot, 1):
        return None  # the sentence is about normalised distributions
    w = len(src[0][0])
    sig = "single-subsystem-multidigit-key" if (w == 1 and _multidigit(src)) else "save-load-roundtrip"
    if isinstance(ld, str):
        return (sig, f"{what}: saved {src}; loading raised {ld}")
    if _as_map(ld) != _as_map(src) or len(ld) != len(src):
        return (sig, f"{what}: saved {src}; loaded {ld}")
    return None


def _oracle_saveload(c, out):
    src = out.get("source")
    f = _judge_construct(c["items"], c["normalize"], src)
    if f or isinstance(src, str):
        return f
    if out["source_after"] != src:
        return ("save-mutates-source", "saving modified the distribution")
    if not out.get("copies_equal", True):
        return ("save-load-roundtrip", "two copies of one distribution were written differently")
    return _judge_roundtrip(src, out["loaded"], f"written as keys {[x for x, _ in out['saved']]}")


def _oracle_files(c, out):
    ds = out["dists"]
    f = _judge_specs(c["specs"], ds)
    if f:
        return f
    if "steps" not in out:
        return None
    track, final = _track_files(c, out)
    for idx, (st, rec, held) in enumerate(track):
        op = st[0]
        if op in ("load", "loads"):
            what = (f"{_show_specs(c['specs'])}" + (", paths given to the savers as pathlib.Path" if c.get("ptype") else "")
                    + f"; steps [op, file no. (edits: object no.), ...] {c['steps'][:idx]}, then {st} "
                    f"(the file was written from objects holding {[o for o, _, _ in held]})")
            got = rec["loaded"]
            if op == "load":
                got = [got]
            elif isinstance(got, str):
                got = [got] * len(held)
            if len(got) != len(held):
                if all(math.isclose(sum(float(unrat(v)) for _, v in o), 1) for o, _, _ in held):
                    return ("save-load-roundtrip", f"{what}: {len(held)} distributions saved, {len(got)} loaded")
                continue
            for (o, _its, _nz), g in zip(held, got):
                f = _judge_roundtrip(o, g, what)
                if f:
                    return f
    if out["dists_after"] != final:
        return ("save-mutates-source", f"saving / loading modified a distribution: {final} -> {out['dists_after']}")
    return None


def _is_bits(canon):
    return all(len(kk) >= 1 and all(e in (0, 1) for e in kk) for kk, _ in canon)


def _vectors(P, Q):
    union = sorted(set(P) | set(Q))
    return union, [float(P.get(kk, 0)) for kk in union], [float(Q.get(kk, 0)) for kk in union]


def _judge_mmd(val, P, Q, sigma, what):
    """the MMD sentences for one value of compute_mmd between the distributions P and Q (outcome -> probability):
    defined, a non-negative number, zero between equal distributions, and the quadratic form of the difference"""
    union, t, m = _vectors(P, Q)
    bits = all(len(kk) >= 1 and all(e in (0, 1) for e in kk) for kk in union)
    wide = False  # registers of width >= 32 are judged like any other since the repair b6e2a42

    def sg(x):
        return "mmd-wide-register-overflow" if wide else x
    if isinstance(val, str):
        return (sg("mmd-raises" if bits else "mmd-nonbinary-outcome"), f"compute_mmd raised {val}: {what}")
    if not math.isfinite(val):
        return (sg("mmd-not-a-number"), f"compute_mmd returned {val!r}: {what}")
    if val < -1e-12:
        return (sg("mmd-negative"), f"mmd = {val!r} < 0: {what}")
    if t == m and abs(val) > 1e-12:
        return (sg("mmd-self-nonzero"), f"mmd between equal distributions = {val!r}: {what}")
    if bits:
        codes = [int("".join(map(str, kk)), 2) for kk in union]
        ref = _mmd(codes, t, m, sigma)
        if abs(ref - val) > 1e-12 + _TOL * abs(ref):  # (both are sums of terms |d_i d_j k_ij| <= 1: rounding ~1e-15)
            return (sg("mmd-value"), f"mmd = {val!r}, quadratic form of the difference = {ref!r}: {what}")
    return None


def _judge_sym(a, b, sig, what, wide=False):
    if isinstance(a, str) or isinstance(b, str):
        return None  # judged by the per-value clauses
    if a != b and not abs(a - b) <= _TOL * max(1.0, abs(a)):  # (nan differs from everything, itself included)
        return ("mmd-wide-register-overflow" if wide else sig, f"d(p,q)={a!r} d(q,p)={b!r}: {what}")
    return None


def _judge_nll(val, a, b, eps, n, what):
    """clipped NLL of target vector `a` under model vector `b`: at least the entropy (up to the clipping constant),
    and the defining sum"""
    if isinstance(val, str):
        return ("nll-raises", f"clipped log-likelihood raised {val}: {what}")
    ent = -sum(x * math.log(x) for x in a if x > 0)
    bound = ent + (sum(a) - sum(b)) - n * eps
    if not math.isfinite(val) or val < bound - _TOL * max(1.0, abs(bound)):
        return ("nll-below-entropy", f"clipped NLL = {val!r} < entropy - n*eps = {bound!r}: {what}")
    ref = _nll(a, b, eps)
    if abs(ref - val) > _TOL * max(1.0, abs(ref)):
        return ("nll-value", f"clipped NLL = {val!r}, definition gives {ref!r}: {what}")
    return None


def _judge_jsd(val, t, m, eps, what):
    if isinstance(val, str):
        return ("nll-raises", f"divergence raised {val}: {what}")
    ref = _nll(t, m, eps) / 2 + _nll(m, t, eps) / 2
    if not math.isfinite(val) or abs(val - ref) > _TOL * max(1.0, abs(ref)):
        return ("jsd-value", f"jsd = {val!r} is not the mean of the two clipped log-likelihoods ({ref!r}): {what}")
    return None


def _oracle_dist(c, out):
    if not isinstance(out.get("p"), list):
        for name in ("p", "q"):
            cls, _, _ = _classify_input(c[name])
            if cls == "valid" and out.get(name) != "ok":
                return ("construct-rejects-valid", f"well-formed input {c[name]} rejected with {out.get(name)}")
        return None
    f = _judge_specs([{"items": c["p"]}, {"items": c["q"]}], [out["p"], out["q"]])
    if f:
        return f
    if not out.get("args_intact", True):
        return ("distance-mutates-argument", "a distance function modified one of its arguments")
    P, Q = _as_map(out["p"]), _as_map(out["q"])
    pm, pe = _dist_params(c)
    sigma, _ = _sigma_eps(pm)
    _, eps = _sigma_eps(pe)
    union, t, m = _vectors(P, Q)
    bits = _is_bits(out["p"]) and _is_bits(out["q"])
    wide = False  # registers of width >= 32 are judged like any other since the repair b6e2a42
    what = (f"p={out['p']} q={out['q']} sigma={sigma} epsilon={eps} (widths given as {c.get('stype') or 'python numbers'}, "
            f"parameter dictionary as {c.get('ptype') or 'dict'}, ONE dictionary object for all calls)")

    def mmd_part():
        mm = [out["mmd_pq"], out["mmd_qp"], out["mmd_pp"], out.get("mmd_pq_again", out["mmd_pq"])]
        if any(isinstance(v, str) for v in mm):
            sig = "mmd-wide-register-overflow" if wide else "mmd-raises" if bits else "mmd-nonbinary-outcome"
            return (sig, f"compute_mmd raised ({mm}) on distributions {out['p']} / {out['q']}; {what}")
        return (_judge_sym(mm[0], mm[1], "mmd-not-symmetric", "mmd, " + what, wide)
                or _judge_mmd(mm[0], P, Q, sigma, "mmd(p,q), " + what)
                or _judge_mmd(mm[1], Q, P, sigma, "mmd(q,p), " + what)
                or _judge_mmd(mm[2], P, P, sigma, "mmd(p,p), " + what)
                or _judge_mmd(mm[3], P, Q, sigma, "mmd(p,q) asked again with the same parameter dictionary, " + what))

    def nll_part():
        nl = [out["nll_pq"], out["nll_qp"], out["jsd_pq"], out["jsd_qp"], out.get("nll_pq_again", out["nll_pq"])]
        if any(isinstance(v, str) for v in nl):
            return ("nll-raises", f"log-likelihood / divergence raised: {nl}; {what}")
        return (_judge_nll(nl[0], t, m, eps, len(union), "p under q, " + what)
                or _judge_nll(nl[1], m, t, eps, len(union), "q under p, " + what)
                or _judge_sym(nl[2], nl[3], "jsd-not-symmetric", "jsd, " + what)
                or _judge_jsd(nl[2], t, m, eps, "jsd(p,q), " + what)
                or _judge_jsd(nl[3], m, t, eps, "jsd(q,p), " + what)
                or _judge_nll(nl[4], t, m, eps, len(union),
                              "p under q asked again with the same parameter dictionary, " + what))
    if not bits:  # the MMD failure of this class is a known finding: let it not hide the other sentences
        return nll_part() or mmd_part()
    return mmd_part() or nll_part()


def _oracle_pool(c, out):
    f = _judge_specs(c["specs"], out["dists"])
    if f:
        return f
    if "vals" not in out:
        return None
    track, final = _track_pool(c, out)
    known_first = None
    seen = {}
    shown = []
    at = 0
    for idx, st in enumerate(c["steps"]):
        if st[0] in _EDITS:  # answers given before the edit say nothing about the object as it is now
            seen = {kk: v for kk, v in seen.items() if st[1] not in (kk[1], kk[2])}
            shown.append(st)
            continue
        _st, val, oi, oj, _ii, _ij = track[at]
        at += 1
        fn, i, j, pi, via = st
        sigma, eps = _sigma_eps(c["params"][pi])
        Pi, Pj = _as_map(oi), _as_map(oj)
        union, t, m = _vectors(Pi, Pj)
        what = (f"{_show_specs(c['specs'])}; parameter dictionaries par0..par{len(c['params']) - 1} = {c['params']} "
                f"(each ONE object, re-used); after {_show_hist_steps(shown)}: {fn}(d{i}, d{j}, par{pi})"
                + (" through evaluate_distribution_distance" if via == "eval" else "")
                + f" where d{i} holds {oi} and d{j} holds {oj}")
        shown.append(st)
        wide = False
        back = seen.get((fn, j, i, pi))
        if fn == "mmd":
            f = _judge_mmd(val, Pi, Pj, sigma, what)
            if not f and back is not None:
                f = _judge_sym(back, val, "mmd-not-symmetric", what, wide)
        elif fn == "nll":
            f = _judge_nll(val, t, m, eps, len(union), what)
        else:
            f = _judge_jsd(val, t, m, eps, what)
            if not f and back is not None:
                f = _judge_sym(back, val, "jsd-not-symmetric", what)
        if f:
            if f[0] in ("mmd-wide-register-overflow", "mmd-nonbinary-outcome"):
                known_first = known_first or f
            else:
                return f
        seen[(fn, i, j, pi)] = val
    if out["dists_after"] != final:
        return ("distance-mutates-argument", f"a distance function modified a distribution: {final} -> "
                f"{out['dists_after']}")
    return known_first


def distribution(cases, outs):
    kinds = {}
    widths = {}
    errs = {}
    for c, o in zip(cases, outs):
        kinds[c["kind"]] = kinds.get(c["kind"], 0) + 1
        its = c.get("items", c.get("p", c["specs"][0]["items"] if c.get("specs") else []))
        ks = [_parse_key(x) for x, _ in its]
        if ks and ks[0] is not None:
            widths[len(ks[0])] = widths.get(len(ks[0]), 0) + 1
        vs = list(o.values()) if isinstance(o, dict) else []
        for rec in (o.get("steps") or [] if isinstance(o, dict) else []):
            vs += [rec.get("res"), rec.get("res2"), rec.get("loaded")] if isinstance(rec, dict) else []
        vs += (o.get("vals") or []) if isinstance(o, dict) else []
        vs = [v for v in vs if isinstance(v, str)]
        for v in vs:
            if isinstance(v, str) and v.startswith("err:"):
                errs[v] = errs.get(v, 0) + 1
    ptypes, stypes = {}, {}
    for c in cases:
        for ps in (c.get("params", []) if c["kind"] == "pool" else [c] if c["kind"] == "dist" else []):
            sg = ps.get("sigma")
            st = ps.get("stype") or ("list" if isinstance(sg, list) else "float" if sg is not None else "absent")
            stypes[st] = stypes.get(st, 0) + 1
            ptypes[ps.get("ptype") or "dict"] = ptypes.get(ps.get("ptype") or "dict", 0) + 1
    return {"widths": {str(k): v for k, v in sorted(widths.items())}, "errors_hit": errs,
            "kernel_width_container_types": dict(sorted(stypes.items())),
            "parameter_dictionary_types": dict(sorted(ptypes.items())),
            "exact_compared": sum(1 for c in cases if c.get("exact")),
            "reordered_marginals": sum(1 for c in cases if c["kind"] == "subdist" and c["qubits"] != sorted(c["qubits"])),
            "history_steps": sum(len(c["steps"]) for c in cases if c["kind"] in ("hist", "pool", "files")),
            "dictionaries_of_64_or_more_outcomes": sum(
                1 for c in cases if max([len(c.get("items", []))] + [len(c.get(x, [])) for x in ("p", "q")]
                                        + [len(sp["items"]) for sp in c.get("specs", [])]) >= 64),
            "registers_of_width_32_or_more": sum(1 for k in widths if k >= 32 for _ in range(widths[k]))}


# --- HTY evidence: which number types the constructor / normalisation / marginal cases of a run used
_distribution_plain = distribution


def distribution(cases, outs):
    d = _distribution_plain(cases, outs)
    vt, kt, qt = {}, {}, {}
    for c in cases:
        specs = c.get("specs") if c["kind"] == "hist" else [c] if c["kind"] in ("construct", "subdist", "fns", "saveload") else []
        for sp in specs or []:
            vt[sp.get("vtype", "float")] = vt.get(sp.get("vtype", "float"), 0) + 1
            kt[sp.get("ktype", "py")] = kt.get(sp.get("ktype", "py"), 0) + 1
        if c["kind"] in ("subdist", "hist"):
            qt[c.get("qtype") or "list"] = qt.get(c.get("qtype") or "list", 0) + 1
    d["number_types"] = {"weight_types": vt, "key_entry_types": kt, "qubit_list_forms": qt,
                         "helper_route_cases": sum(1 for c in cases if c["kind"] == "fns")}
    return d


RULE += ("; NUMBER TYPES (constructor, preprocess / is_measurement_outcome_distribution / is_normalized / normalize helpers called "
         "directly [kind fns, route agreement with the object], marginal, histories): weights as Fraction / bool / numpy float32 / int8 / "
         "uint8 / int32 / int64 / uint64 next to int / float / numpy float64, key entries as numpy int8 / uint8 / int32 / uint64 / mixed "
         "widths / Python bools, qubit lists as tuple / range / numpy arrays (int64, uint8, int8) / numpy integers of any width; "
         "malformed input (negative weight, zero total, negative / odd-length key) in every type")
TRUSTED += [
    "number types: Fraction / int(numerator) / int(denominator) / float(v) read the exact value of a stored Fraction, Python or numpy integer, "
    "bool, numpy float32 / float64; numpy scalar arithmetic against Python numbers keeps the numpy type (NEP 50) and is exact where "
    "the result is representable (typed cases are generated so that it is)",
]
ASSUMPTIONS += [
    "number types (established on the unchanged library): a weight may be a Python int / float / bool, a Fraction or a numpy real scalar; "
    "a key is a string or a tuple of Python ints / bools / numpy integers (numpy bool, float and sympy entries are refused with "
    "RuntimeError - out of domain); the qubit list may be a list / tuple / range / 1-d numpy integer array of Python or numpy ints.  "
    "numpy float32 weights are normalised in float32: they are generated with dyadic values whose total is a power of two (exact)",
    "KNOWN FINDING weights-narrow-numpy-int-total-wraps (probed directly on every run by harness/finding_probes.py, not generated): weights given as numpy integers of a width their TOTAL does not fit - "
    "sum() of numpy scalars wraps around, MeasurementOutcomeDistribution({(0,): np.int8(100), (1,): np.int8(100)}) holds the "
    "'probabilities' -1.79 each (np.uint8(200), np.uint8(100): 4.55 and 2.27); typed integer weights are generated with 3 * total + 5 inside the type",
]
# --- HTY end
