"""C17 — outcome distributions stay normalised; marginals and distances obey their laws."""
import itertools
import math
import os
import re
import tempfile
import warnings
from fractions import Fraction

from .. import common
from ..common import rat, unrat

PROP = "C17"
RULE = ("kinds construct / subdist / saveload / dist; structured random dictionaries (bit, digit and multi-digit "
        "outcomes; string, comma-string and tuple keys; dyadic and arbitrary weights) + a malformed stream + all "
        "ordered qubit sub-lists for width <= 4; non-trivial: marginal onto a proper subset listed out of ascending "
        "order (or a single non-first qubit), a pair of distributions with different supports, an un-normalised "
        "constructor input with >= 2 outcomes, a save/load of >= 2 outcomes of width >= 2; distinct = distinct "
        "canonical JSON of the case")
TRUSTED = [
    "Python float arithmetic: the model computes in exact rationals; implementation and model are compared exactly "
    "on dyadic inputs whose sums/normalisations are exact in binary64 and within 1e-12 (relative) otherwise; "
    "distances within 1e-9",
    "math.isclose(x, 1) is |x-1| <= 1e-9*max(|x|,1) (enters the theorems as an arbitrary predicate `close`)",
    "math.exp / math.log / np.exp are the real exponential and logarithm up to rounding (the analytic theorems "
    "mmd_nonneg, nll_ge_entropy are over R; the harness recomputes the value from the model's exact data with "
    "math.exp/math.log and compares within 1e-9)",
    "int(str) parses ASCII [+-]?digits+ as decimal (other spellings accepted by Python's int() are not generated); "
    "str(int) is the decimal numeral; str.split / str.join / dict insertion order as documented",
    "json.dumps / json.load is the identity on {text key: double} objects and keeps insertion order; the file "
    "system returns what was written",
    "iteration order of Python's set of outcomes is arbitrary: theorems mmd_order_irrelevant / nll_order_irrelevant "
    "show the real-valued result does not depend on it",
]
ASSUMPTIONS = [
    "in-domain inputs: dictionaries whose keys are equal-length tuples of non-negative ints, digit strings or "
    "comma-separated integer strings, with non-negative finite weights of positive total (a zero / denormal total "
    "is rejected with ValueError and is treated as a rejection, not a violation)",
    "kernel widths sigma > 0 (scalar or non-empty list), clipping constant epsilon > 0",
    "qubit lists for the marginal: non-empty, distinct, 0 <= q < width (negative Python indices are modelled but "
    "not judged by the oracle)",
]

_TOL = 1e-9


def _mods():
    common.use_repo()
    import orquestra.quantum.distributions as D
    return D


# ---------------------------------------------------------------- case construction helpers
def _raw_key(k):
    """JSON key -> python key: str stays, list -> tuple, None -> a key of a wrong type"""
    if isinstance(k, str):
        return k
    if isinstance(k, list):
        return tuple(k)
    return 5


def _to_dict(items):
    return {_raw_key(k): float(unrat(v)) for k, v in items}


def _canon_dict(dd):
    """distribution_dict -> [[key as list, exact value]] in insertion order"""
    return [[[int(e) for e in k], rat(Fraction(v))] for k, v in dd.items()]


def _parse_key(k):
    """oracle's own reading of a key: tuple of ints, or None if the text is not a key spelling"""
    if isinstance(k, list):
        return tuple(k)
    if isinstance(k, str):
        parts = k.split(",") if "," in k else list(k)
        if "," in k:
            if not all(re.fullmatch(r"[+-]?[0-9]+", p) for p in parts):
                return None
        elif not all(re.fullmatch(r"[0-9]", p) for p in parts):
            return None
        return tuple(int(p) for p in parts)
    return None


def _build(D, items, normalize):
    with warnings.catch_warnings():
        warnings.simplefilter("ignore")
        return D.MeasurementOutcomeDistribution(_to_dict(items), normalize=normalize)


def _guard(fn):
    try:
        return fn()
    except RuntimeError:
        return "err:runtime"
    except ValueError:
        return "err:value"
    except IndexError:
        return "err:index"


# ---------------------------------------------------------------- corpus / generator
def corpus():
    return [
        # F6 (fixed d900b77): subdistribution emptied its source
        {"kind": "subdist", "items": [["011", "1/4"], ["101", "1/2"], ["111", "1/4"]], "normalize": True,
         "qubits": [2, 0], "exact": True},
        # F7: one-subsystem key with an entry >= 10 does not survive save/load
        {"kind": "saveload", "items": [[[12], "1/2"], [[3], "1/2"]], "normalize": True, "exact": True},
        {"kind": "saveload", "items": [[[12], "1/2"], [[34], "1/2"]], "normalize": True, "exact": True},
        {"kind": "saveload", "items": [[[12, 4], "1/2"], [[3, 5], "1/2"]], "normalize": True, "exact": True},
        # (fixed b64c4ba) multi-digit entries were split into digits by subdistribution; kept as regression inputs
        {"kind": "subdist", "items": [[[12, 3], "1/2"], [[1, 23], "1/2"]], "normalize": True, "qubits": [0, 1],
         "exact": True},
        {"kind": "subdist", "items": [[[12, 0], "1/2"], [[3, 0], "1/2"]], "normalize": True, "qubits": [0],
         "exact": True},
        # MMD is only defined on bitstrings
        {"kind": "dist", "p": [[[2], 1]], "q": [[[2], 1]], "sigma": 1, "eps": "1/1000000000"},
        {"kind": "dist", "p": [["01", 1]], "q": [["10", "1/2"], ["11", "1/2"]], "sigma": "3/10",
         "eps": "1/1000000000"},
        {"kind": "construct", "items": [["01", 1], [[0, 1], 3], ["1,1", 4]], "normalize": True, "exact": False},
        {"kind": "construct", "items": [], "normalize": True, "exact": True},
        {"kind": "construct", "items": [["0", "1/2"], ["1", "2147483649/4294967296"]], "normalize": True,
         "exact": True},
        {"kind": "construct", "items": [["0", "1/2"], ["1", "268435457/536870912"]], "normalize": True,
         "exact": False},
    ]


def _keys(rng, w, n, base):
    space = base ** w
    n = max(1, min(n, space))
    if space <= 4096:
        idx = rng.sample(range(space), n)
    else:
        idx = list({rng.randrange(space) for _ in range(n)})
    out = []
    for i in idx:
        k = []
        for _ in range(w):
            k.append(i % base)
            i //= base
        out.append(k[::-1])
    return out


def _weights(rng, n, mode):
    """returns (list of Fractions, exact?)"""
    if mode == "dyadic_norm":  # already summing to 1, dyadic
        den = 2 ** rng.randrange(3, 8)
        cuts = sorted(rng.randrange(0, den + 1) for _ in range(n - 1))
        ps = [b - a for a, b in zip([0] + cuts, cuts + [den])]
        return [Fraction(p, den) for p in ps], True
    if mode == "dyadic":  # integer weights whose total is a power of two (exact normalisation)
        parts = [rng.randrange(0, 9) for _ in range(n)]
        s = sum(parts)
        p2 = 1
        while p2 < max(s, 1):
            p2 *= 2
        parts[rng.randrange(n)] += p2 - s
        sc = rng.choice([1, 1, 2, 8])
        return [Fraction(p, sc) for p in parts], True
    if mode == "near_one":  # total 1 + 2^-31 is "close": kept as it is
        return [Fraction(1, 2)] * 1 + [Fraction(1, 2) + Fraction(1, 2 ** 31)] + [Fraction(0)] * (n - 2), n >= 2
    if mode == "far_one":  # total 1 + 2^-28 is not close: renormalised (inexact)
        return [Fraction(1, 2)] * 1 + [Fraction(1, 2) + Fraction(1, 2 ** 28)] + [Fraction(0)] * (n - 2), False
    return [Fraction(rng.randrange(0, 1000), rng.randrange(1, 1000)) for _ in range(n)], False


def _spell(rng, key, form):
    if form == "tuple":
        return list(key)
    if form == "str" and all(0 <= e < 10 for e in key):
        return "".join(str(e) for e in key)
    if form == "comma" and len(key) >= 2:
        return ",".join(str(e) for e in key)
    return list(key)


def _items(rng, w, n, base, form=None, mode=None):
    keys = _keys(rng, w, n, base)
    mode = mode or rng.choice(["dyadic_norm", "dyadic", "dyadic", "any", "any"])
    if mode in ("near_one", "far_one") and len(keys) < 2:
        mode = "dyadic"
    ws, exact = _weights(rng, len(keys), mode)
    if sum(ws) == 0:
        ws[0] = Fraction(1)
    form = form or rng.choice(["str", "tuple", "comma", "mixed"])
    items = []
    for k, v in zip(keys, ws):
        f = rng.choice(["str", "tuple", "comma"]) if form == "mixed" else form
        items.append([_spell(rng, k, f), rat(v)])
    return items, exact


def _malformed_construct(rng):
    w = rng.randrange(1, 4)
    items, _ = _items(rng, w, rng.randrange(1, 5), 2)
    pick = rng.randrange(12)
    if pick == 0:
        items = []
    elif pick == 1:
        items[rng.randrange(len(items))][1] = rat(Fraction(-rng.randrange(1, 9), 8))
    elif pick == 2:
        items.append(["0" * (w + 1), "1/4"])
    elif pick == 3:
        items.append([[0] * (w + 2), "1/4"])
    elif pick == 4:
        items.append([[-1] + [0] * (w - 1), "1/4"])
    elif pick == 5:
        items.append(["0" * (w - 1) + "a", "1/4"])
    elif pick == 6:
        items.append(["1,,2", "1/4"])
    elif pick == 7:
        items.append([None, "1/4"])
    elif pick == 8:
        items = [[k, 0] for k, _ in items]
    elif pick == 9:
        items = [[k, "1/" + str(10 ** 310)] for k, _ in items]
    elif pick == 10:  # two spellings of the same outcome: the later value wins
        k = [rng.randrange(2) for _ in range(w)]
        items = [["".join(map(str, k)), "1/4"], [list(k), "3/4"], [[1 - k[0]] + k[1:], "1"]]
    else:
        items.append(["-1," + ",".join(["0"] * w), "1/4"])
    return items


def generate(rng, tier):
    big = tier == "thorough"
    cases = []
    # ---- constructor
    for _ in range(900 if big else 150):
        w = rng.choice([0, 1, 1, 2, 2, 3, 4, 6] if big else [0, 1, 1, 2, 2, 3, 4])
        base = rng.choice([2, 2, 2, 10, 40])
        mode = rng.choice([None, None, None, "near_one", "far_one"])
        items, exact = _items(rng, w, rng.randrange(1, 9), base, mode=mode)
        cases.append({"kind": "construct", "items": items, "normalize": rng.random() < 0.85, "exact": exact})
    for _ in range(400 if big else 70):
        cases.append({"kind": "construct", "items": _malformed_construct(rng), "normalize": rng.random() < 0.8,
                      "exact": False})
    # ---- marginals: every ordered sub-list of the qubits for width <= 4
    for w in (1, 2, 3, 4):
        for _ in range(12 if big else 3):
            base = rng.choice([2, 2, 2, 10])
            items, exact = _items(rng, w, rng.randrange(1, min(base ** w, 10) + 1), base)
            nz = rng.random() < 0.85
            for r in range(1, w + 1):
                for qs in itertools.permutations(range(w), r):
                    cases.append({"kind": "subdist", "items": items, "normalize": nz, "qubits": list(qs),
                                  "exact": exact})
    for _ in range(500 if big else 80):
        w = rng.randrange(1, 7 if big else 6)
        base = rng.choice([2, 2, 2, 10, 10, 30])
        items, exact = _items(rng, w, rng.randrange(1, 12), base)
        r = rng.randrange(1, w + 1)
        qs = rng.sample(range(w), r)
        bad = rng.random()
        if bad < 0.06:
            qs = []
        elif bad < 0.12:
            qs = qs + [qs[0]]
        elif bad < 0.18:
            qs = qs + [w + rng.randrange(0, 2)]
        elif bad < 0.22:
            qs = [-rng.randrange(1, w + 3)] + qs[1:]
        cases.append({"kind": "subdist", "items": items, "normalize": rng.random() < 0.9, "qubits": qs,
                      "exact": exact})
    # ---- save / load
    for _ in range(500 if big else 90):
        w = rng.choice([0, 1, 1, 2, 2, 3, 5])
        base = rng.choice([2, 2, 10, 10, 25, 1000])
        if w == 1 and base > 10 and rng.random() < 0.8:
            base = 10  # the F7 class is in the corpus; keep most generated cases inside the domain
        items, exact = _items(rng, w, rng.randrange(1, 9), base)
        cases.append({"kind": "saveload", "items": items, "normalize": rng.random() < 0.9, "exact": exact,
                      "many": rng.random() < 0.3})
    # ---- distances
    for _ in range(900 if big else 160):
        w = rng.randrange(1, 6 if big else 5)
        base = 2 if rng.random() < 0.93 else 3
        p, _ = _items(rng, w, rng.randrange(1, 9), base)
        if rng.random() < 0.12:
            q = p
        else:
            q, _ = _items(rng, w, rng.randrange(1, 9), base)
        if rng.random() < 0.7:
            sigma = rat(Fraction(rng.randrange(1, 80), rng.choice([1, 2, 10, 16])))
        else:
            sigma = [rat(Fraction(rng.randrange(1, 80), rng.choice([1, 4, 10]))) for _ in range(rng.randrange(1, 4))]
        eps = rat(rng.choice([Fraction(1, 10 ** 9), Fraction(1, 10 ** 9), Fraction(1, 10 ** 6), Fraction(1, 1000),
                              Fraction(1, 8), Fraction(1, 2)]))
        cases.append({"kind": "dist", "p": p, "q": q, "sigma": sigma, "eps": eps})
    return cases


def nontrivial(c):
    k = c["kind"]
    if k == "subdist":
        ks = [_parse_key(x) for x, _ in c["items"]]
        if not ks or any(x is None for x in ks):
            return False
        w, qs = len(ks[0]), c["qubits"]
        ok = qs and len(set(qs)) == len(qs) and all(0 <= q < w for q in qs)
        return bool(ok and len(qs) < w and len(ks) >= 2 and (qs != sorted(qs) or (len(qs) == 1 and qs[0] != 0)))
    if k == "dist":
        kp = {_parse_key(x) for x, _ in c["p"]}
        kq = {_parse_key(x) for x, _ in c["q"]}
        return kp != kq
    if k == "construct":
        return len(c["items"]) >= 2 and sum(unrat(v) for _, v in c["items"]) != 1
    if k == "saveload":
        ks = [_parse_key(x) for x, _ in c["items"]]
        return len(ks) >= 2 and all(x is not None and len(x) >= 2 for x in ks)
    return False


# ---------------------------------------------------------------- implementation adapter
def run_impl(c):
    D = _mods()
    k = c["kind"]
    if k == "construct":
        inp = _to_dict(c["items"])
        before = dict(inp)

        def go():
            with warnings.catch_warnings():
                warnings.simplefilter("ignore")
                return _canon_dict(D.MeasurementOutcomeDistribution(inp, normalize=c["normalize"]).distribution_dict)
        res = _guard(go)
        return {"res": res, "input_intact": list(inp.items()) == list(before.items())}
    if k == "subdist":
        src = _guard(lambda: _build(D, c["items"], c["normalize"]))
        if isinstance(src, str):
            return {"source": src}
        before = _canon_dict(src.distribution_dict)

        def go():
            with warnings.catch_warnings():
                warnings.simplefilter("ignore")
                return _canon_dict(src.subdistribution(list(c["qubits"])).distribution_dict)
        res = _guard(go)
        return {"source": before, "source_after": _canon_dict(src.distribution_dict), "res": res}
    if k == "saveload":
        src = _guard(lambda: _build(D, c["items"], c["normalize"]))
        if isinstance(src, str):
            return {"source": src}
        before = _canon_dict(src.distribution_dict)
        fd, path = tempfile.mkstemp(suffix=".json", prefix="oq_c17_")
        os.close(fd)
        try:
            import json
            with warnings.catch_warnings():
                warnings.simplefilter("ignore")
                if c.get("many"):
                    D.save_measurement_outcome_distributions([src, src], path)
                    with open(path) as f:
                        saved = json.load(f)["measurement_outcome_distribution"]
                    saved_items = [[kk, rat(Fraction(v))] for kk, v in saved[0].items()]
                    same = saved[0] == saved[1]

                    def go():
                        l = D.load_measurement_outcome_distributions(path)
                        assert len(l) == 2 and l[0].distribution_dict == l[1].distribution_dict
                        return _canon_dict(l[0].distribution_dict)
                else:
                    D.save_measurement_outcome_distribution(src, path)
                    with open(path) as f:
                        saved = json.load(f)["measurement_outcome_distribution"]
                    saved_items = [[kk, rat(Fraction(v))] for kk, v in saved.items()]
                    same = True

                    def go():
                        return _canon_dict(D.load_measurement_outcome_distribution(path).distribution_dict)
                loaded = _guard(go)
        finally:
            os.remove(path)
        return {"source": before, "source_after": _canon_dict(src.distribution_dict), "saved": saved_items,
                "loaded": loaded, "copies_equal": same}
    if k == "dist":
        P = _guard(lambda: _build(D, c["p"], True))
        Q = _guard(lambda: _build(D, c["q"], True))
        if isinstance(P, str) or isinstance(Q, str):
            return {"p": P if isinstance(P, str) else "ok", "q": Q if isinstance(Q, str) else "ok"}
        sg = c["sigma"]
        sigma = [float(unrat(s)) for s in sg] if isinstance(sg, list) else float(unrat(sg))
        eps = float(unrat(c["eps"]))
        bp, bq = _canon_dict(P.distribution_dict), _canon_dict(Q.distribution_dict)

        def f(fn, a, b, par):
            return _guard(lambda: float(fn(a, b, dict(par))))
        out = {"p": bp, "q": bq,
               "mmd_pq": f(D.compute_mmd, P, Q, {"sigma": sigma}), "mmd_qp": f(D.compute_mmd, Q, P, {"sigma": sigma}),
               "mmd_pp": f(D.compute_mmd, P, P, {"sigma": sigma}),
               "nll_pq": f(D.compute_clipped_negative_log_likelihood, P, Q, {"epsilon": eps}),
               "nll_qp": f(D.compute_clipped_negative_log_likelihood, Q, P, {"epsilon": eps}),
               "jsd_pq": f(D.compute_jensen_shannon_divergence, P, Q, {"epsilon": eps}),
               "jsd_qp": f(D.compute_jensen_shannon_divergence, Q, P, {"epsilon": eps}),
               "args_intact": bp == _canon_dict(P.distribution_dict) and bq == _canon_dict(Q.distribution_dict)}
        return out
    raise AssertionError("unknown kind")


# ---------------------------------------------------------------- model requests / comparison
def requests(c, out):
    k = c["kind"]
    if k == "construct":
        return [("construct", {"items": c["items"], "normalize": c["normalize"]})]
    if k == "subdist":
        return [("subdist", {"items": c["items"], "normalize": c["normalize"], "qubits": c["qubits"]})]
    if k == "saveload":
        return [("saveload", {"items": c["items"], "normalize": c["normalize"]})]
    if k == "dist":
        return [("distdata", {"p": c["p"], "q": c["q"]})]
    return []


def _same_dict(impl, model, exact):
    """None if the two canonical dictionaries agree, else a message"""
    if isinstance(impl, str) or isinstance(model, str):
        return None if impl == model else f"impl {impl} model {model}"
    if [k for k, _ in impl] != [k for k, _ in model]:
        return f"keys differ: impl {[k for k, _ in impl]} model {[k for k, _ in model]}"
    for (k, a), (_, b) in zip(impl, model):
        a, b = unrat(a), unrat(b)
        if exact:
            if a != b:
                return f"value at {k}: impl {a} model {b} (exact comparison)"
        elif abs(a - b) > Fraction(1, 10 ** 12) * max(1, abs(b)):
            return f"value at {k}: impl {float(a)} model {float(b)}"
    return None


def _kernel(sigma, x, y):
    if isinstance(sigma, list):
        return sum(math.exp(-(1.0 / (2 * s)) * (x - y) ** 2) for s in sigma) / len(sigma)
    return math.exp(-(1.0 / (2 * sigma)) * (x - y) ** 2)


def _mmd(codes, t, m, sigma):
    d = [a - b for a, b in zip(t, m)]
    return sum(d[i] * _kernel(sigma, codes[i], codes[j]) * d[j] for i in range(len(d)) for j in range(len(d)))


def _nll(t, m, eps):
    return -sum(a * math.log(max(eps, b)) for a, b in zip(t, m))


def _close(a, b, tol=_TOL):
    if isinstance(a, str) or isinstance(b, str):
        return a == b
    return abs(a - b) <= tol * max(1.0, abs(a), abs(b))


def compare(c, out, resp):
    r = resp[0]
    if isinstance(r, dict) and "driver_error" in r:
        return "driver error: " + r["driver_error"]
    if "exc" in out:
        return f"implementation raised {out}"
    k = c["kind"]
    ex = bool(c.get("exact"))
    if k == "construct":
        msg = _same_dict(out["res"], r, ex)
        return msg and "constructor: " + msg
    if k == "subdist":
        if isinstance(out.get("source"), str) or isinstance(r.get("source"), str):
            return None if out.get("source") == r.get("source") else f"source: impl {out.get('source')} model {r.get('source')}"
        for a, b, name in ((out["source"], r["source"], "source"), (out["source_after"], r["source_after"], "source after the call"),
                           (out["res"], r["result"], "subdistribution")):
            msg = _same_dict(a, b, ex)
            if msg:
                return f"{name}: {msg}"
        return None
    if k == "saveload":
        if isinstance(out.get("source"), str) or isinstance(r.get("source"), str):
            return None if out.get("source") == r.get("source") else f"source: impl {out.get('source')} model {r.get('source')}"
        msg = _same_dict(out["source"], r["source"], ex)
        if msg:
            return "source: " + msg
        if [s for s, _ in out["saved"]] != [s for s, _ in r["saved"]]:
            return f"saved keys: impl {[s for s, _ in out['saved']]} model {[s for s, _ in r['saved']]}"
        if [unrat(v) for _, v in out["saved"]] != [unrat(v) for _, v in out["source"]]:
            return "saved values differ from the stored values"
        msg = _same_dict(out["loaded"], r["loaded"], ex)
        return msg and "loaded: " + msg
    if k == "dist":
        if "rows" not in r or not isinstance(out.get("p"), list):
            impl_ok = isinstance(out.get("p"), list)
            if impl_ok != ("rows" in r):
                return f"construction of p/q: impl {out.get('p')}/{out.get('q')} model {r}"
            return None
        rows = r["rows"]
        union_impl = sorted(set(map(tuple, [kk for kk, _ in out["p"]])) | set(map(tuple, [kk for kk, _ in out["q"]])))
        if sorted(tuple(x[0]) for x in rows) != union_impl:
            return f"union of supports: impl {union_impl} model {[x[0] for x in rows]}"
        t = [float(unrat(x[1])) for x in rows]
        m = [float(unrat(x[2])) for x in rows]
        sg = c["sigma"]
        sigma = [float(unrat(s)) for s in sg] if isinstance(sg, list) else float(unrat(sg))
        eps = float(unrat(c["eps"]))
        if isinstance(r["codes"], str):
            want = {"mmd_pq": r["codes"], "mmd_qp": r["codes"]}
        else:
            want = {"mmd_pq": _mmd(r["codes"], t, m, sigma), "mmd_qp": _mmd(r["codes"], m, t, sigma)}
        want["mmd_pp"] = 0.0 if r["self_ok"] else "err:value"  # theorem mmd_self: defined => 0
        want["nll_pq"] = _nll(t, m, eps)
        want["nll_qp"] = _nll(m, t, eps)
        want["jsd_pq"] = want["nll_pq"] / 2 + want["nll_qp"] / 2
        want["jsd_qp"] = want["jsd_pq"]
        for name, v in want.items():
            if name == "mmd_pp" and isinstance(out[name], float) and not isinstance(v, str):
                if abs(out[name]) > 1e-12:
                    return f"mmd(p,p): impl {out[name]} model 0"
                continue
            if not _close(out[name], v):
                return f"{name}: impl {out[name]} value from the model's data {v}"
        return None
    return None


# ---------------------------------------------------------------- property oracle (implementation only)
def _as_map(canon):
    return {tuple(k): unrat(v) for k, v in canon}


def oracle(c, out):
    k = c["kind"]
    if "exc" in out:
        return (f"{k}-unexpected-{out['exc']}", f"implementation raised {out['exc']}: {out.get('msg')}")
    if k == "construct":
        return _oracle_construct(c, out)
    if k == "subdist":
        return _oracle_subdist(c, out)
    if k == "saveload":
        return _oracle_saveload(c, out)
    if k == "dist":
        return _oracle_dist(c, out)
    return None


def _classify_input(items):
    """('malformed'|'collision'|'invalid'|'degenerate'|'valid', parsed keys, values)"""
    keys = [_parse_key(x) for x, _ in items]
    vals = [unrat(v) for _, v in items]
    if any(x is None for x in keys):
        return "malformed", keys, vals
    if len(set(keys)) != len(keys):
        return "collision", keys, vals
    if (not keys or any(v < 0 for v in vals) or len({len(x) for x in keys}) != 1
            or any(e < 0 for x in keys for e in x)):
        return "invalid", keys, vals
    tot = sum(float(v) for v in vals)
    if tot == 0 or tot < 2.3e-308:
        return "degenerate", keys, vals
    return "valid", keys, vals


def _oracle_construct(c, out):
    cls, keys, vals = _classify_input(c["items"])
    res = out["res"]
    if not out.get("input_intact", True):
        return ("construct-mutates-input", "the constructor modified the dictionary passed to it")
    if cls == "invalid":
        if not isinstance(res, str):
            why = ("empty" if not keys else "negative value" if any(v < 0 for v in vals)
                   else "unequal key lengths" if len({len(x) for x in keys}) != 1 else "negative entry")
            return ("construct-accepts-invalid", f"input with {why} was accepted: {c['items']} -> {res}")
        return None
    if isinstance(res, str):
        if cls == "valid":
            return ("construct-rejects-valid", f"well-formed input {c['items']} rejected with {res}")
        return None
    got = [(tuple(kk), unrat(v)) for kk, v in res]
    if any(v < 0 for _, v in got):
        return ("construct-negative-probability", f"stored values {res} contain a negative number")
    s = sum(float(v) for _, v in got)
    if c["normalize"] and abs(s - 1) > 2e-9:
        return ("construct-not-normalised", f"stored values sum to {s!r} with normalisation on ({c['items']})")
    if cls == "valid":
        if [kk for kk, _ in got] != keys:
            return ("construct-keys", f"stored keys {[kk for kk, _ in got]} differ from the input keys {keys}")
        tot = sum(vals)
        for (kk, g), v in zip(got, vals):
            want = v / tot if c["normalize"] else v
            if abs(float(g) - float(want)) > 2e-9 * max(1.0, abs(float(want))):
                return ("construct-proportions", f"value at {kk} is {float(g)!r}, proportional share is {float(want)!r}")
    return None


def _multidigit(canon):
    return any(e >= 10 for kk, _ in canon for e in kk)


def _oracle_subdist(c, out):
    src = out.get("source")
    if isinstance(src, str):
        cls, _, _ = _classify_input(c["items"])
        if cls == "valid":
            return ("construct-rejects-valid", f"well-formed input {c['items']} rejected with {src}")
        return None
    if out["source_after"] != src:
        return ("subdistribution-mutates-source",
                f"source was {src} before and {out['source_after']} after subdistribution({c['qubits']})")
    w = len(src[0][0])
    qs = c["qubits"]
    if any(q < 0 for q in qs):
        return None
    bad = (not qs) or len(set(qs)) != len(qs) or any(q >= w for q in qs)
    res = out["res"]
    if bad:
        if not isinstance(res, str):
            return ("subdistribution-accepts-invalid-qubits", f"qubit list {qs} on width {w} accepted: {res}")
        return None
    sig = "subdistribution-multidigit-entry" if _multidigit(src) else "subdistribution-marginal"
    if isinstance(res, str):
        return (sig, f"subdistribution({qs}) of {src} raised {res}")
    want = {}
    for kk, v in src:
        nk = tuple(kk[q] for q in qs)
        want[nk] = want.get(nk, Fraction(0)) + unrat(v)
    got = _as_map(res)
    if len(got) != len(res):
        return (sig, f"duplicate outcomes in the marginal {res}")
    if set(got) != set(want):
        return (sig, f"marginal of {src} on {qs} has outcomes {sorted(got)}, the projections are {sorted(want)}")
    for nk, v in want.items():
        if abs(float(got[nk]) - float(v)) > 1e-12 * max(1.0, float(v)):
            return (sig, f"marginal at {nk} is {float(got[nk])!r}, the sum of the projecting outcomes is {float(v)!r}")
    return None


def _oracle_saveload(c, out):
    src = out.get("source")
    if isinstance(src, str):
        cls, _, _ = _classify_input(c["items"])
        if cls == "valid":
            return ("construct-rejects-valid", f"well-formed input {c['items']} rejected with {src}")
        return None
    if out["source_after"] != src:
        return ("save-mutates-source", "saving modified the distribution")
    if not out.get("copies_equal", True):
        return ("save-load-roundtrip", "two copies of one distribution were written differently")
    s = sum(float(unrat(v)) for _, v in src)
    if not math.isclose(s, 1):
        return None  # the sentence is about normalised distributions
    w = len(src[0][0])
    sig = "single-subsystem-multidigit-key" if (w == 1 and _multidigit(src)) else "save-load-roundtrip"
    ld = out["loaded"]
    if isinstance(ld, str):
        return (sig, f"saved {src} as keys {[x for x, _ in out['saved']]}; loading raised {ld}")
    if _as_map(ld) != _as_map(src) or len(ld) != len(src):
        return (sig, f"saved {src}; loaded {ld}")
    return None


def _is_bits(canon):
    return all(len(kk) >= 1 and all(e in (0, 1) for e in kk) for kk, _ in canon)


def _oracle_dist(c, out):
    if not isinstance(out.get("p"), list):
        for name in ("p", "q"):
            cls, _, _ = _classify_input(c[name])
            if cls == "valid" and out.get(name) != "ok":
                return ("construct-rejects-valid", f"well-formed input {c[name]} rejected with {out.get(name)}")
        return None
    if not out.get("args_intact", True):
        return ("distance-mutates-argument", "a distance function modified one of its arguments")
    P, Q = _as_map(out["p"]), _as_map(out["q"])
    sg = c["sigma"]
    sigma = [float(unrat(s)) for s in sg] if isinstance(sg, list) else float(unrat(sg))
    eps = float(unrat(c["eps"]))
    union = sorted(set(P) | set(Q))
    t = [float(P.get(kk, 0)) for kk in union]
    m = [float(Q.get(kk, 0)) for kk in union]
    bits = _is_bits(out["p"]) and _is_bits(out["q"])
    mm = [out["mmd_pq"], out["mmd_qp"], out["mmd_pp"]]
    if any(isinstance(v, str) for v in mm):
        sig = "mmd-raises" if bits else "mmd-nonbinary-outcome"
        return (sig, f"compute_mmd raised ({mm}) on distributions {out['p']} / {out['q']}")
    if abs(mm[0] - mm[1]) > _TOL * max(1.0, abs(mm[0])):
        return ("mmd-not-symmetric", f"mmd(p,q)={mm[0]!r} mmd(q,p)={mm[1]!r}")
    if mm[0] < -1e-12 or mm[1] < -1e-12:
        return ("mmd-negative", f"mmd(p,q)={mm[0]!r} < 0 for sigma={sigma}")
    if abs(mm[2]) > 1e-12:
        return ("mmd-self-nonzero", f"mmd(p,p)={mm[2]!r}")
    if bits:
        codes = [int("".join(map(str, kk)), 2) for kk in union]
        ref = _mmd(codes, t, m, sigma)
        if abs(ref - mm[0]) > _TOL * max(1.0, abs(ref)):
            return ("mmd-value", f"mmd(p,q)={mm[0]!r}, quadratic form of the difference = {ref!r}")
    nl = [out["nll_pq"], out["nll_qp"], out["jsd_pq"], out["jsd_qp"]]
    if any(isinstance(v, str) for v in nl):
        return ("nll-raises", f"log-likelihood / divergence raised: {nl}")
    for val, a, b, name in ((nl[0], t, m, "p under q"), (nl[1], m, t, "q under p")):
        ent = -sum(x * math.log(x) for x in a if x > 0)
        bound = ent + (sum(a) - sum(b)) - len(union) * eps
        if val < bound - _TOL * max(1.0, abs(bound)):
            return ("nll-below-entropy", f"clipped NLL of {name} = {val!r} < entropy - n*eps = {bound!r}")
        ref = _nll(a, b, eps)
        if abs(ref - val) > _TOL * max(1.0, abs(ref)):
            return ("nll-value", f"clipped NLL of {name} = {val!r}, definition gives {ref!r}")
    if abs(nl[2] - nl[3]) > _TOL * max(1.0, abs(nl[2])):
        return ("jsd-not-symmetric", f"jsd(p,q)={nl[2]!r} jsd(q,p)={nl[3]!r}")
    if abs(nl[2] - (nl[0] / 2 + nl[1] / 2)) > _TOL * max(1.0, abs(nl[2])):
        return ("jsd-value", f"jsd(p,q)={nl[2]!r} is not the mean of the two log-likelihoods {nl[0]!r}, {nl[1]!r}")
    return None


def distribution(cases, outs):
    kinds = {}
    widths = {}
    errs = {}
    for c, o in zip(cases, outs):
        kinds[c["kind"]] = kinds.get(c["kind"], 0) + 1
        its = c.get("items", c.get("p", []))
        ks = [_parse_key(x) for x, _ in its]
        if ks and ks[0] is not None:
            widths[len(ks[0])] = widths.get(len(ks[0]), 0) + 1
        for v in (o.values() if isinstance(o, dict) else []):
            if isinstance(v, str) and v.startswith("err:"):
                errs[v] = errs.get(v, 0) + 1
    return {"widths": {str(k): v for k, v in sorted(widths.items())}, "errors_hit": errs,
            "exact_compared": sum(1 for c in cases if c.get("exact")),
            "reordered_marginals": sum(1 for c in cases if c["kind"] == "subdist" and c["qubits"] != sorted(c["qubits"]))}
