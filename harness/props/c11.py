"""C11 — operators and result artefacts survive dict, file and text round trips."""
import io
import itertools
import json as std_json
import math
import os
import pathlib
import random
import shutil
import tempfile
from fractions import Fraction

from .. import common
from ..common import rat, unrat

PROP = "C11"
RULE = ("seeded random Pauli terms/sums (int, float, complex, negative zero, 1e-12..1e14, exponent-format, "
        "multi-digit qubits, duplicates, near-zero terms, constants, the empty sum) through dict / rapidjson text / "
        "save_+load_ files (path and open file) / operator lists / str()->PauliTerm|PauliSum; hand-written and "
        "malformed texts and dictionaries for the parser and convert_dict_to_op; every persisted artefact "
        "(Measurements, ExpectationValues, Parities, ValueEstimate, list, layers, connectivity, ordering, nmeas) "
        "through its save_/load_ pair by path and by open file (also pathlib / StringIO / binary file objects); "
        "SEQUENCES of sibling cases (near-equal / one-digit / hash-colliding coefficients, one letter, one index, one "
        "frame, one bit ... changed) run on the same file name and, where flagged, on the same in-place mutated object, "
        "every load repeated after overwriting the first result; large shapes (>= 64 terms / operators / shots / "
        "elements, widths 9..16), uniform and wide-dynamic-range arrays, numpy-typed coefficients and odd array "
        "layouts.  non-trivial: operator case with a complex or "
        "exponent-format coefficient or a constant term; artefact case with >=1 frame / non-empty payload; "
        "distinct = distinct canonical JSON of the case")
TRUSTED = [
    "json / rapidjson read back the dictionary they wrote (finite doubles exactly, ints exactly, tuples as lists, "
    "None as null): hypothesis `de (ser d) = some (norm d)` of save_load_operator / save_then_load",
    "str(c) / complex(text) on int, float, complex of magnitude < 1e15: the text has no '*', no blank, a '+' only "
    "inside brackets, brackets iff both parts are non-zero, and complex(str(c)) has the value of c (CoefLaw); the "
    "structural parts are re-checked on every generated coefficient by the driver op coef_law",
    "frozenset iteration of term.operations is some permutation of the dict items (hypothesis `order`)",
    "ndarray.tolist() / np.array() are mutually inverse on non-zero-size arrays and tolist() of such an array is a "
    "non-empty (truthy) list; array + 1j*imag has real part array and imaginary part imag (hypotheses hback/htruthy)",
    "np.isclose(c, 0.0) is |c| <= 1e-8 (the abstract predicate negl of the theorems; instantiated exactly in the driver)",
    "float sums of like terms are compared on dyadic coefficients only (exact in doubles)",
]
ASSUMPTIONS = [
    "coefficients are Python int / float / complex (numpy float64 / complex128 included: they are subclasses) with "
    "magnitude < 1e15 (the quantifier of the property)",
    "objects returned by the library belong to the caller (the harness overwrites them before it calls again); public "
    "attributes (term.coefficient, sum.terms, values, correlations, bitstrings, precision, layers) may be assigned or "
    "mutated in place between two save/convert/print calls",
    "arrays have at least one element (a zero-size array loses its shape through tolist(); outside the property)",
    "a path is a str (the loaders test isinstance(file, str)); load_nmeas_estimate takes a path only, by its signature",
    "the parser model is ASCII: whitespace = space,\\t,\\n,\\r,\\v,\\f; re.I is ASCII case folding; the driver's reader "
    "of complex literals covers finite decimal literals (no inf/nan/underscores)",
]

PAULIS = "XYZ"


# --------------------------------------------------------------------------- library access
def _lib():
    common.use_repo()
    import numpy as np
    import rapidjson
    from orquestra.quantum.operators import PauliSum, PauliTerm
    from orquestra.quantum.operators import _io as opio
    from orquestra.quantum.measurements import ExpectationValues, Measurements, Parities
    from orquestra.quantum.measurements import expectation_values as evm
    from orquestra.quantum.measurements import parities as parm
    from orquestra.quantum import utils
    from orquestra.quantum.circuits import layouts

    class L:
        pass

    L.np, L.rapidjson, L.PauliSum, L.PauliTerm, L.opio = np, rapidjson, PauliSum, PauliTerm, opio
    L.EV, L.Meas, L.Par, L.evm, L.parm, L.utils, L.layouts = ExpectationValues, Measurements, Parities, evm, parm, utils, layouts
    return L


# --------------------------------------------------------------------------- coefficient encoding
def _num(x):
    """canonical exact JSON of a Python real (int or finite float)"""
    return rat(Fraction(x))


def enc_coef(c, npy=False):
    """case-file encoding of a coefficient object (exact; keeps type and signed zeros); npy: the coefficient is handed
    to the library as numpy.float64 / numpy.complex128 (subclasses of float / complex)"""
    if isinstance(c, complex):
        e = {"t": "complex", "re": float(c.real).hex(), "im": float(c.imag).hex()}
    elif isinstance(c, float):
        e = {"t": "float", "re": float(c).hex()}
    else:
        return {"t": "int", "re": int(c)}
    if npy or type(c).__module__ == "numpy":
        e["np"] = True
    return e


def dec_py(e):
    """the plain Python number of an encoded coefficient"""
    if e["t"] == "complex":
        return complex(float.fromhex(e["re"]), float.fromhex(e["im"]))
    if e["t"] == "float":
        return float.fromhex(e["re"])
    return int(e["re"])


def dec_coef(e):
    v = dec_py(e)
    if e.get("np"):
        import numpy as np
        return np.complex128(v) if e["t"] == "complex" else np.float64(v)
    return v


def coef_canon(c):
    """value + complex-ness of a coefficient as the model sees it"""
    if isinstance(c, complex):
        return {"re": _num(c.real), "im": _num(c.imag), "cplx": True}
    return {"re": _num(c), "im": 0, "cplx": False}


def build_op(L, case):
    terms = [L.PauliTerm({int(q): o for q, o in t["ops"]}, dec_coef(t["coef"])) for t in case["terms"]]
    if case.get("single"):
        return terms[0]
    return L.PauliSum(terms)


def term_canon(t):
    return {"ops": [[int(q), o] for q, o in t._ops.items()], "coef": coef_canon(t.coefficient)}


def dict_canon(d):
    """the library's operator dictionary with exact numbers"""
    out = {"terms": []}
    for td in d["terms"]:
        c = {"real": _num(td["coefficient"]["real"])}
        if "imag" in td["coefficient"]:
            c["imag"] = _num(td["coefficient"]["imag"])
        out["terms"].append({"pauli_ops": [{"qubit": int(p["qubit"]), "op": p["op"]} for p in td["pauli_ops"]],
                             "coefficient": c})
    return out


# --------------------------------------------------------------------------- array encoding
def nest_canon(x):
    if isinstance(x, list):
        return [nest_canon(y) for y in x]
    return _num(x)


def carr_canon(L, a):
    a = L.np.asarray(a)
    if L.np.iscomplexobj(a):
        return {"re": nest_canon(a.real.tolist()), "im": nest_canon(a.imag.tolist())}
    return {"re": nest_canon(a.tolist()), "im": None}


def carr_build(L, e):
    """the ndarray of an encoded array; optional "dtype" (values are representable in it by construction) and
    "layout": F = Fortran order, strided = every second element of a larger buffer, T = transposed view,
    ro = read-only"""
    np = L.np
    a = np.array(_unnest(e["re"], e.get("int", False)))
    if e.get("im") is not None:
        a = a + 1j * np.array(_unnest(e["im"], False))
    if e.get("dtype"):
        a = a.astype(e["dtype"])
    lay = e.get("layout")
    if lay == "F":
        a = np.asfortranarray(a)
    elif lay == "strided" and a.ndim >= 1:
        big = np.zeros(tuple(2 * d for d in a.shape), dtype=a.dtype)
        sl = (slice(None, None, 2),) * a.ndim
        big[sl] = a
        a = big[sl]
    elif lay == "T" and a.ndim == 2:
        a = np.ascontiguousarray(a.T).T
    elif lay == "ro":
        a.setflags(write=False)
    return a


def _unnest(x, as_int):
    if isinstance(x, list):
        return [_unnest(y, as_int) for y in x]
    f = unrat(x)
    return int(f) if as_int else float(f)


def arrdict_canon(d):
    out = {"real": nest_canon(d["real"])}
    if "imag" in d:
        out["imag"] = nest_canon(d["imag"])
    return out


def frames_canon(L, fr):
    return None if fr is None else [carr_canon(L, a) for a in fr]


# --------------------------------------------------------------------------- corpus
def _t(ops, c):
    return {"ops": [[q, o] for q, o in ops], "coef": enc_coef(c)}


def corpus():
    z = [
        # F3 (fixed, 74495c0): the printed constant term `2.0*I` was rejected by the parser
        {"kind": "text", "terms": [_t([], 2.0)], "single": True},
        {"kind": "text", "terms": [_t([(0, "Z"), (12, "X")], 1 + 2j), _t([], -0.5), _t([(3, "Y")], 1e-12)]},
        {"kind": "text", "terms": []},
        {"kind": "text", "terms": [_t([(0, "Z")], complex(-0.0, 2.0)), _t([(1, "X")], -2j), _t([(123, "Y")], 123456789012345.0)]},
        {"kind": "op", "via": "file", "terms": [_t([(0, "Z"), (12, "X")], 0.5 - 3j), _t([], -2)]},
        {"kind": "op", "via": "json", "terms": [_t([(3, "Y")], 1.0), _t([(1, "X")], 1e-12), _t([(3, "Y")], complex(0.25, 0.0))]},
        {"kind": "op", "via": "dict", "terms": [_t([(0, "Z")], 1.0), _t([(0, "Z")], -1.0), _t([(1, "X")], 2.0), _t([(0, "Z")], 1.0)]},
        {"kind": "op", "via": "fileobj", "terms": []},
        {"kind": "opset", "via": "file", "ops": [[_t([(0, "X")], 1j)], [], [_t([], 3)]]},
        {"kind": "parse", "text": " 2.5 * z3 * X1 ", "as": "term"},
        {"kind": "parse", "text": "1+2j*Z0", "as": "term"},
        {"kind": "parse", "text": "Z0*Z0", "as": "term"},
        {"kind": "parse", "text": "1e+16*Z0", "as": "sum"},
        {"kind": "baddict", "dict": {"terms": [{"pauli_ops": [{"qubit": 1, "op": "X"}, {"qubit": 1, "op": "Y"}], "coefficient": {"real": 1}}]}},
        {"kind": "ev", "via": "path", "values": {"re": [0, 0, -1], "im": None},
         "correlations": [{"re": [[1, -1], [-1, 1]], "im": None}, {"re": [[1]], "im": None}],
         "covariances": [{"re": [["1/8", "-1/8"], ["-1/8", "1/8"]], "im": [[0, "1/2"], ["-1/2", 0]]}]},
        {"kind": "ev", "via": "fileobj", "values": {"re": [1, 2], "im": [0, 0]}, "correlations": None, "covariances": None},
        # fixed 060d7df: frames given as an empty list used to come back as None
        {"kind": "ev", "via": "path", "values": {"re": [1, 2], "im": None}, "correlations": [], "covariances": None},
        {"kind": "par", "via": "path", "values": {"re": [[18, 50], [120, 113]], "im": None, "int": True}, "correlations": []},
        {"kind": "par", "via": "fileobj", "values": {"re": [[18, 50], [120, 113]], "im": None, "int": True},
         "correlations": [{"re": [[[1, 2], [3, 4]], [[5, 6], [7, 8]]], "im": None, "int": True}]},
        {"kind": "ve", "via": "path", "value": "3/2", "precision": None, "np": False},
        {"kind": "ve", "via": "fileobj", "value": "-1/4", "precision": "1/1024", "np": True},
        {"kind": "meas", "via": "path", "bitstrings": [[0, 1], [1, 1], [0, 1]], "np": False},
        {"kind": "meas", "via": "fileobj", "bitstrings": [], "np": False},
        {"kind": "list", "via": "path", "list": [1, "1/2", [2, 3], "a"]},
        {"kind": "layers", "via": "path", "layers": [[[0, 1], [2, 3]], [[1, 2]]]},
        {"kind": "conn", "via": "fileobj", "connectivity": [[0, 1], [1, 2], [10, 11]]},
        {"kind": "ordering", "via": "path", "ordering": [3, 0, 2, 1]},
        {"kind": "nmeas", "K": "7/2", "nterms": 4, "frame_meas": {"re": [1, 2], "im": None}},
        # fixed 4422d44: saved with the default frame_meas=None the loader used to raise KeyError
        {"kind": "nmeas", "K": "7/2", "nterms": 4, "frame_meas": None},
    ]
    return z + _corpus_histories()


def _seq(*steps):
    return {"kind": "seq", "steps": list(steps)}


def _corpus_histories():
    """fixed histories / shapes of the classes that plain one-shot cases cannot see (each found MISSED by an earlier
    version of this check when the corresponding change was planted in a scratch copy of the library)"""
    zz = [(0, "Z"), (1, "Z")]
    npc = _t([(2, "Z")], 1 + 2j)
    npc["coef"]["np"] = True
    npf = _t([(0, "X"), (11, "Y")], 0.1)
    npf["coef"]["np"] = True
    big_meas = [[(i * 7 + j * 3 + (i * j) % 5) % 2 for j in range(4)] for i in range(70)]
    return [
        # a memo keyed by a tolerant == / a rounded hash: the second operator must not come back with the first one's coefficient
        _seq({"kind": "op", "via": "file", "terms": [_t(zz, 0.5), _t([(3, "X")], 2.0)]},
             {"kind": "op", "via": "file", "terms": [_t(zz, 0.5000002), _t([(3, "X")], 2.0000004)]},
             {"kind": "op", "via": "file", "terms": [_t(zz, 0.5), _t([(3, "X")], 2.0)]}),
        # hash(-1) == hash(-2)
        _seq({"kind": "op", "via": "dict", "terms": [_t(zz, -1.0), _t([(3, "X")], -1)]},
             {"kind": "op", "via": "dict", "terms": [_t(zz, -2.0), _t([(3, "X")], -2)]}),
        # same file name, same file size, other content
        _seq({"kind": "op", "via": "file", "terms": [_t(zz, 0.15838287025480557)]},
             {"kind": "op", "via": "file", "terms": [_t(zz, 0.15838287025480555)]},
             {"kind": "op", "via": "fileobj", "terms": [_t(zz, 0.15838287025480557)]}),
        # the same objects, coefficient assigned between two conversions / prints (real -> complex too)
        _seq({"kind": "op", "via": "dict", "terms": [_t(zz, 1234.5), _t([], 2)]},
             {"kind": "op", "via": "dict", "terms": [_t(zz, complex(1234.5, 1e-05)), _t([], 3)], "inplace": True}),
        _seq({"kind": "text", "terms": [_t(zz, 2.5)], "single": True},
             {"kind": "text", "terms": [_t(zz, -3.5)], "single": True, "inplace": True},
             {"kind": "text", "terms": [_t(zz, 0.75j)], "single": True, "derive": "copy"}),
        _seq({"kind": "text", "terms": [_t(zz, 2.5), _t([(4, "Y")], 1j)]},
             {"kind": "text", "terms": [_t(zz, 2.5), _t([(4, "Y")], 1j)], "derive": "reparse"},
             {"kind": "text", "terms": [_t(zz, 7.25), _t([(4, "Y")], 1j)], "inplace": True}),
        _seq({"kind": "op", "via": "json", "terms": [_t(zz, 2.5), _t([(4, "Y")], 1j)]},
             {"kind": "op", "via": "json", "terms": [_t(zz, 2.5), _t([(4, "Y")], 1j)], "derive": "reload"},
             {"kind": "op", "via": "json", "terms": [_t(zz, 7.25), _t([(4, "Y")], 1j)], "inplace": True}),
        _seq({"kind": "text", "terms": [_t(zz, 2.5), _t(zz, 1.5), _t([(4, "Y")], 1j)]},
             {"kind": "text", "terms": [_t(zz, 4.0), _t([(4, "Y")], 1j)], "derive": "simplify"},
             {"kind": "text", "terms": [_t(zz, 4.5), _t([(4, "Y")], 2j)], "inplace": True}),
        # artefacts: the same object changed in place and saved again under the same name
        _seq({"kind": "ev", "via": "path", "values": {"re": [1, 2, 3], "im": None}, "correlations": [{"re": [[1, 0], [0, 1]], "im": None}], "covariances": None},
             {"kind": "ev", "via": "path", "values": {"re": [1, 5, 3], "im": None}, "correlations": [{"re": [[1, "1/2"], ["1/2", 1]], "im": None}], "covariances": None, "inplace": True},
             {"kind": "ev", "via": "fileobj", "values": {"re": [1, 5, 3], "im": None}, "correlations": None, "covariances": [{"re": [[1, "1/2"], ["1/2", 1]], "im": None}], "derive": "reload"}),
        _seq({"kind": "meas", "via": "path", "bitstrings": [[0, 1], [1, 1], [0, 1]], "np": False},
             {"kind": "meas", "via": "path", "bitstrings": [[0, 1], [1, 0], [0, 1]], "np": False, "inplace": True},
             {"kind": "meas", "via": "path", "bitstrings": [[0, 1], [1, 0], [0, 1]], "np": False, "inplace": True, "altpath": True}),
        _seq({"kind": "ve", "via": "path", "value": "3/2", "precision": "1/8", "np": False},
             {"kind": "ve", "via": "path", "value": "3/2", "precision": None, "np": False, "inplace": True},
             {"kind": "ve", "via": "path", "value": "3/2", "precision": 0, "np": False, "inplace": True}),
        _seq({"kind": "list", "via": "path", "list": [1, 0, "", [], None, False]},
             {"kind": "list", "via": "path", "list": [1, 0, "", [], None, True]}),
        _seq({"kind": "par", "via": "path", "values": {"re": [[18, 50], [120, 113]], "im": None, "int": True}, "correlations": []},
             {"kind": "par", "via": "path", "values": {"re": [[18, 50], [120, 113]], "im": None, "int": True}, "correlations": []}),
        _seq({"kind": "layers", "via": "path", "layers": [[[0, 1], [2, 3]]]}, {"kind": "layers", "via": "path", "layers": [[[1, 0], [2, 3]]]}),
        _seq({"kind": "nmeas", "K": "7/2", "nterms": 4, "frame_meas": {"re": [1, 2], "im": None}},
             {"kind": "nmeas", "K": "7/2", "nterms": 5, "frame_meas": {"re": [1, 2], "im": None}},
             {"kind": "nmeas", "K": "7/2", "nterms": 5, "frame_meas": None}),
        # one list holding nearly equal / equal operators
        {"kind": "opset", "via": "file", "ops": [[_t(zz, 0.5)], [_t(zz, 0.5000002)], [_t(zz, 0.5)], [_t(zz, -1.0)], [_t(zz, -2.0)]]},
        # imaginary parts far below 1e-5 of the real parts everywhere; uniform and nearly uniform arrays
        {"kind": "ev", "via": "path", "values": {"re": [2250000, 670000], "im": ["7/2", "-7/2"]},
         "correlations": [{"re": [[2250000, 1200000], [1200000, 670000]], "im": [[0, "7/2"], ["-7/2", 0]]}], "covariances": None},
        {"kind": "ev", "via": "path", "values": {"re": ["1/2", "1/2", "1/2", "1/2"], "im": None},
         "correlations": [{"re": [[1, 1], [1, 1]], "im": None}],
         "covariances": [{"re": [["1/2", "2251799813685249/4503599627370496"], ["1/2", "1/2"]], "im": None}]},
        # wide registers (leading zeros), >= 64 unsorted shots
        {"kind": "meas", "via": "path", "bitstrings": [[0] * 9, [0] * 8 + [1], [1] + [0] * 8, [0, 1] + [0] * 7], "np": False},
        {"kind": "meas", "via": "fileobj", "bitstrings": big_meas, "np": False},
        # numpy-typed coefficients
        {"kind": "op", "via": "file", "terms": [npf, npc]},
        {"kind": "text", "terms": [npf, npc]},
    ]


# --------------------------------------------------------------------------- generators
def gen_coef(rng, exact):
    """exact=True: dyadic values whose sums are exact in doubles"""
    def dy():
        return rng.randrange(-2 ** 12, 2 ** 12) / 2 ** rng.randrange(0, 8)

    def real_any():
        r = rng.random()
        if r < 0.35:
            return dy()
        if r < 0.45:
            return rng.choice([0.0, -0.0, 1.0, -1.0])
        if r < 0.6:
            return rng.choice([1e-12, -1e-12, 3e-9, 1e-8, -1e-8, 1.5e-7, 2.5e-8, 1e-5, 5e-324, 1e-300])
        if r < 0.75:
            return rng.choice([1e14, -1e14, 123456789012345.0, 999999999999999.0, 9.99e14, 1e13 + 0.5, 4503599627370497.0 / 8])
        if r < 0.9:
            return rng.uniform(-10, 10)
        return rng.uniform(-1, 1) * 10.0 ** rng.randrange(-12, 15)

    kind = rng.random()
    if exact:
        if kind < 0.2:
            return rng.randrange(-50, 50)
        if kind < 0.6:
            return dy()
        return complex(dy(), rng.choice([0.0, -0.0, dy(), dy()]))
    if kind < 0.2:
        return rng.choice([0, 1, -1, 2, -7, 10 ** 15 - 1, -(10 ** 15 - 1), rng.randrange(-10 ** 6, 10 ** 6), rng.randrange(-10 ** 14, 10 ** 14)])
    if kind < 0.55:
        return real_any()
    re, im = real_any(), real_any()
    r = rng.random()
    if r < 0.15:
        re = rng.choice([0.0, -0.0])
    elif r < 0.3:
        im = rng.choice([0.0, -0.0])
    c = complex(re, im)
    if abs(c) >= 1e15:
        c = complex(re / 2, im / 2)
    # keep complex magnitudes away from the 1e-8 boundary (hypot rounding)
    if 5e-9 < abs(c) < 2e-8:
        c = complex(re * 4, im * 4)
    return c


def gen_ops(rng, small):
    k = rng.choice([0, 1, 1, 2, 2, 3, 4])
    pool = list(range(4)) if small else [0, 1, 2, 3, 7, 10, 12, 99, 100, 123, 1000, 4096]
    qs = rng.sample(pool, min(k, len(pool)))
    return [[q, rng.choice(PAULIS)] for q in qs]


def gen_operator(rng, allow_dups):
    small = rng.random() < 0.5
    n = rng.choice([0, 1, 1, 2, 3, 4, 6])
    exact = allow_dups and rng.random() < 0.6
    terms = []
    keys = []
    for _ in range(n):
        if exact and keys and rng.random() < 0.4:
            ops = [list(p) for p in rng.choice(keys)]
            rng.shuffle(ops)  # same set, other insertion order
        else:
            ops = gen_ops(rng, small)
            if not exact and any(sorted(map(tuple, ops)) == sorted(map(tuple, k)) for k in keys):
                continue
        keys.append(ops)
        terms.append({"ops": ops, "coef": enc_coef(gen_coef(rng, exact))})
    if exact and terms and rng.random() < 0.3:
        # an exactly cancelling partner
        t = rng.choice(terms)
        c = dec_coef(t["coef"])
        terms.append({"ops": [list(p) for p in t["ops"]], "coef": enc_coef(-c)})
    return terms


def gen_nested(rng, shape, kind):
    if not shape:
        if kind == "int":
            return rng.randrange(0, 500)
        r = rng.random()
        if r < 0.5:
            return rat(Fraction(rng.randrange(-2 ** 10, 2 ** 10), 2 ** rng.randrange(0, 6)))
        if r < 0.6:
            return 0
        return rat(Fraction(rng.choice([rng.uniform(-1, 1), 1e-300, 1e300, 0.1, -1e-12, 12345.678])))
    return [gen_nested(rng, shape[1:], kind) for _ in range(shape[0])]


def gen_carr(rng, shape, kind="float", cplx=None):
    if cplx is None:
        cplx = kind != "int" and rng.random() < 0.4
    a = {"re": gen_nested(rng, shape, kind), "im": gen_nested(rng, shape, "float") if cplx else None}
    if cplx and rng.random() < 0.3:
        a["im"] = _zeros_like(a["im"])  # complex dtype with all-zero imaginary part
    if kind == "int":
        a["int"] = True
    return a


def _zeros_like(x):
    return [_zeros_like(y) for y in x] if isinstance(x, list) else 0


def gen_frames(rng, mk):
    r = rng.random()
    if r < 0.2:
        return None
    if r < 0.27:
        return []
    return [mk() for _ in range(rng.choice([1, 1, 2, 3]))]


FREE_TEXTS = [
    "Z0", "X1*Y2", "2*Z0", "2.5*z3*x1", " 3 * X1 ", "(1+2j) * Y2", "(1+2j)*Y2 + 3*Z1", "1+2j*Z0", "", "Z", "Z-1", "1e5*Z0",
    "j*Z0", ".5*X0", "5.*X0", "Z0*Z0", "Z0*X0", "I0", "I", "2*I", "X1*I", "I*X1", "Z0\n", "Z0 ", "\tZ0", "Z0 +", "+Z0", "Z0++X1",
    "Z0 + X1", "Z0+X1", "(1-2j)*Z0+(3+4j)*X1", "(1+0j)*Z0", "1j*Z0", "-1j*Z0", "(-0-2j)*Z0", "2*3*Z0", "Z0*2", "Q0", "Z0x", "z007",
    "Z 0", "Z0 * * X1", "*Z0", "Z0*", "1e-12*I + 1e-12*I", "(1+2j)", "(1+2j)*I", "1 + 2j*Z0", "(1 + 2j)*Z0", "( 1+2j )*Z0",
    "0x10*Z0", "1e+3*Z0", "1e+3*Z0 + X1", "(1e+3+2j)*Z0 + X1", "2)*Z0 + (3*X1", "Z0 + (X1",
    "Z12345678901234567890", "-Z0", "+2*Z0", "- 2*Z0", "2.*Z0*Y0", "X0*y0", "(2)*Z0", "((2))*Z0", "2j", "j", "(j)*X1",
    "1e-400*Z0", "00012*Z003", "2e0*Z0", "2E0*Z0", "2J*Z0", "(1+J)*Z0", "(1-j)*Z0", "1+j*Z0", "Z0 + 1e5", "3",
]


# --------------------------------------------------------------------------- builders of single cases (used by the
# sequence / large / exotic streams; the plain streams of generate() are older and kept as they were)
NEAR = 1 + 2.0 ** -22      # ~2.4e-7 relative: below PauliTerm's tolerant ==/hash and np.allclose, far above 1e-8 absolute
NEAR_ABS = 2.0 ** -23      # ~1.2e-7 absolute; both keep small dyadic values exact in doubles
QPOOL_BIG = [0, 1, 2, 3, 7, 10, 12, 99, 100, 123, 1000, 4096, 65536, 10 ** 9]
OP_VIAS = ["dict", "json", "file", "fileobj", "stringio", "binary", "pathlib"]
ART_VIAS = ["path", "fileobj", "stringio", "binary", "pathlib"]


def _key(ops):
    return tuple(sorted((int(q), o) for q, o in ops))


def gen_coef_spread(rng):
    """complex coefficients whose parts differ by many orders of magnitude (both parts far above 1e-8 absolute or the
    small one exactly representable): a relative tolerance applied to them loses the small part"""
    big = rng.choice([1.0, 12.5, 1234.5, 1e6, 2.25e6, 1e9, 1e13]) * rng.choice([1, -1])
    small = rng.choice([1e-7, 3.5e-6, 1e-5, 2.0 ** -20, 1e-3, 3.5]) * rng.choice([1, -1])
    if abs(small) >= abs(big):
        small = small * 1e-7
    return complex(big, small) if rng.random() < 0.6 else complex(small, big)


def gen_simple_operator(rng, n, pool=None, kmax=4, exact=False):
    """n terms on pairwise different Pauli strings with |coefficient| > 1e-8: a simplified operator, for which the
    property promises exact preservation"""
    terms, keys, tries = [], set(), 0
    pool = pool or (list(range(4)) if rng.random() < 0.5 else QPOOL_BIG)
    while len(terms) < n and tries < 20 * n + 50:
        tries += 1
        k = rng.choice([0, 1, 1, 2, 2, 3, 4][: kmax + 3])
        qs = rng.sample(pool, min(k, len(pool)))
        ops = [[q, rng.choice(PAULIS)] for q in qs]
        if _key(ops) in keys:
            continue
        r = rng.random()
        c = gen_coef(rng, True) if exact else (gen_coef_spread(rng) if r < 0.15 else gen_coef(rng, False))
        if not abs(c) > 2e-8:
            continue
        keys.add(_key(ops))
        terms.append({"ops": ops, "coef": enc_coef(c, npy=(not exact and rng.random() < 0.08))})
    return terms


def _digit_sibling(rng, x):
    """a float whose text has the same length and differs in its last digit (the files have the same size)"""
    tx = repr(x)
    if "e" in tx or "n" in tx or "." not in tx or not tx[-1].isdigit():
        return None
    for d in rng.sample("123456789", 9):
        if d != tx[-1]:
            y = float(tx[:-1] + d)
            if repr(y) == tx[:-1] + d:
                return y
    return None


def _vary_coef(rng, e, mode):
    """a sibling coefficient (encoded); None if the mode does not apply"""
    c = dec_py(e)
    npy = bool(e.get("np"))
    if mode in ("near", "abs"):
        def f(x):
            return x * NEAR if mode == "near" else x + NEAR_ABS
        if isinstance(c, complex):
            which = rng.randrange(3)
            c2 = complex(f(c.real) if which != 1 else c.real, f(c.imag) if which != 0 else c.imag)
        else:
            c2 = f(float(c))
    elif mode == "digit":
        if isinstance(c, complex):
            im = _digit_sibling(rng, c.imag)
            re = _digit_sibling(rng, c.real) if im is None else None
            if im is None and re is None:
                return None
            c2 = complex(c.real if re is None else re, c.imag if im is None else im)
        elif isinstance(c, float):
            c2 = _digit_sibling(rng, c)
            if c2 is None:
                return None
        else:
            c2 = c + rng.choice([1, -1]) if abs(c) % 10 not in (0, 9) and abs(c) > 10 else None
            if c2 is None:
                return None
    elif mode == "hash":
        # hash(-1) == hash(-2) for int, float and the parts of a complex
        def h(x):
            return type(x)(-2) if x == -1 else type(x)(-1)
        c2 = complex(h(c.real), c.imag) if isinstance(c, complex) else h(c)
    elif mode == "neg":
        c2 = -c
    elif mode == "type":
        if isinstance(c, complex):
            c2 = c.real if c.imag == 0 else complex(c.imag, c.real)
        elif isinstance(c, float):
            c2 = complex(c, 0.0) if rng.random() < 0.5 or c != int(c) else int(c)
        else:
            c2 = float(c)
    elif mode == "imag":
        c2 = complex(c.real, c.imag + max(abs(c), 1.0) * 1e-7) if isinstance(c, complex) else complex(c, max(abs(c), 1.0) * 1e-7)
    elif mode == "np":
        return dict(e, np=not npy) if e["t"] != "int" else enc_coef(float(c), npy=True)
    else:
        return None
    if not (2e-8 < abs(c2) < 1e15):
        return None
    return enc_coef(c2, npy=npy and not isinstance(c2, int))


TERM_MODES = ["same", "near", "abs", "digit", "hash", "neg", "type", "imag", "np", "swapcoef", "letter", "qubit", "reorder",
              "perm", "drop", "add", "neardup"]


def vary_terms(rng, terms, mode):
    """a sibling operator: `terms` with exactly one component changed"""
    ts = [{"ops": [list(p) for p in t["ops"]], "coef": dict(t["coef"])} for t in terms]
    if not ts:
        mode = "add" if mode != "same" else "same"
    keys = {_key(t["ops"]) for t in ts}
    i = rng.randrange(len(ts)) if ts else 0
    if mode in ("near", "abs", "digit", "hash", "neg", "type", "imag", "np"):
        e = _vary_coef(rng, ts[i]["coef"], mode) or _vary_coef(rng, ts[i]["coef"], "near") or _vary_coef(rng, ts[i]["coef"], "neg")
        if e is not None:
            ts[i]["coef"] = e
    elif mode == "swapcoef" and len(ts) >= 2:
        j = rng.choice([x for x in range(len(ts)) if x != i])
        ts[i]["coef"], ts[j]["coef"] = ts[j]["coef"], ts[i]["coef"]
    elif mode == "letter" and ts[i]["ops"]:
        k = rng.randrange(len(ts[i]["ops"]))
        old = ts[i]["ops"][k][1]
        ts[i]["ops"][k][1] = rng.choice([x for x in PAULIS if x != old])
        if _key(ts[i]["ops"]) in keys:
            ts[i]["ops"][k][1] = old
    elif mode == "qubit" and ts[i]["ops"]:
        k = rng.randrange(len(ts[i]["ops"]))
        used = {q for q, _ in ts[i]["ops"]}
        old = ts[i]["ops"][k][0]
        cand = [q for q in (old + 1, old * 10, old * 10 + 1, old + 10, 0) if q not in used]
        ts[i]["ops"][k][0] = rng.choice(cand)
        if _key(ts[i]["ops"]) in keys:
            ts[i]["ops"][k][0] = old
    elif mode == "reorder":
        ts[i]["ops"].reverse()
    elif mode == "perm" and len(ts) >= 2:
        ts = ts[1:] + ts[:1]
    elif mode == "drop" and len(ts) >= 2:
        del ts[i]
    elif mode == "add":
        new = gen_simple_operator(rng, 1)
        if new and _key(new[0]["ops"]) not in keys:
            ts.insert(rng.randrange(len(ts) + 1), new[0])
    elif mode == "neardup" and ts:
        # an unsimplified sum: a second term on the same Pauli string with a nearly equal (dyadic, hence exactly
        # summable) coefficient
        c = 0
        while not c:
            c = rng.randrange(-2 ** 10, 2 ** 10) / 2 ** rng.randrange(0, 6)
        ts[i]["coef"] = enc_coef(c)
        ops = [list(p) for p in ts[i]["ops"]]
        rng.shuffle(ops)
        ts.insert(rng.randrange(len(ts) + 1), {"ops": ops, "coef": enc_coef(c * NEAR if rng.random() < 0.5 else c + NEAR_ABS)})
    return ts


# ---- arrays
def _leaves(x, path=()):
    if isinstance(x, list):
        out = []
        for i, y in enumerate(x):
            out += _leaves(y, path + (i,))
        return out
    return [path]


def _get(x, path):
    for i in path:
        x = x[i]
    return x


def _set(x, path, v):
    for i in path[:-1]:
        x = x[i]
    x[path[-1]] = v


def _copy_nest(x):
    return [_copy_nest(y) for y in x] if isinstance(x, list) else x


def _map_nest(x, f):
    return [_map_nest(y, f) for y in x] if isinstance(x, list) else f(x)


def _fl(v):
    """float of an encoded leaf"""
    return float(unrat(v))


def vary_carr(rng, a, mode=None):
    """a sibling array: one element / the imaginary part changed (same shape)"""
    b = {k: (_copy_nest(v) if isinstance(v, list) else v) for k, v in a.items()}
    is_int = bool(a.get("int")) or str(a.get("dtype", "")).startswith(("int", "uint"))
    narrow = bool(a.get("dtype"))
    paths = _leaves(b["re"])
    if not paths or not isinstance(b["re"], list):
        return b
    mode = mode or rng.choice(["same", "near", "elem", "swap2", "tinyimag", "dropimag", "neg", "zero"])
    p = rng.choice(paths)
    part = "im" if b.get("im") is not None and rng.random() < 0.5 else "re"
    if mode == "near" and not is_int and not narrow:
        v = _fl(_get(b[part], p))
        _set(b[part], p, rat(Fraction(v * NEAR if v else NEAR_ABS)))
    elif mode == "elem":
        _set(b[part], p, rng.randrange(0, 100) if is_int or narrow else rat(Fraction(rng.uniform(-2, 2))))
    elif mode == "swap2" and len(paths) >= 2:
        q = rng.choice([x for x in paths if x != p])
        u, v = _get(b[part], p), _get(b[part], q)
        _set(b[part], p, v)
        _set(b[part], q, u)
    elif mode == "tinyimag" and not is_int and not narrow and b.get("im") is None:
        b["im"] = _map_nest(b["re"], lambda v: rat(Fraction(_fl(v) * 1e-7 if _fl(v) else 1e-9)))
    elif mode == "dropimag" and b.get("im") is not None and not str(a.get("dtype", "")).startswith("complex"):
        b["im"] = None
    elif mode == "neg" and not str(a.get("dtype", "")).startswith("uint"):
        v = unrat(_get(b[part], p))
        _set(b[part], p, rat(-v))
    elif mode == "zero":
        _set(b[part], p, 0)
    return b


def gen_carr2(rng, shape, kind="float", cplx=None):
    """gen_carr plus the shapes a fast path or a tolerance would single out"""
    r = rng.random()
    if kind == "int" or r < 0.45:
        a = gen_carr(rng, shape, kind, cplx)
        if kind == "int" and rng.random() < 0.2:
            a["dtype"] = rng.choice(["int32", "int16", "uint16"])
        elif kind == "int" and rng.random() < 0.15:
            # counts beyond 2**53 (exact in int64, not in a double)
            for p in _leaves(a["re"])[:2]:
                _set(a["re"], p, 2 ** 53 + 1 + rng.randrange(0, 1000))
        if rng.random() < 0.2:
            a["layout"] = rng.choice(["F", "strided", "T", "ro"])
        return a
    if r < 0.6:
        # uniform / nearly uniform
        v = rng.choice([0.0, 1.0, -0.5, 0.1, 12345.678, 1e-9])
        exact = rng.random() < 0.5
        a = {"re": _map_nest(gen_nested(rng, shape, "int"), lambda _: rat(Fraction(v))), "im": None}
        if not exact:
            ps = _leaves(a["re"])
            for p in rng.sample(ps, max(1, len(ps) // 3)):
                _set(a["re"], p, rat(Fraction(v * (1 + 1e-9) if v else 1e-12)))
        return a
    if r < 0.75:
        # complex with imaginary parts tiny relative to the real parts, everywhere
        re = _map_nest(gen_nested(rng, shape, "int"), lambda _: rat(Fraction(rng.choice([1.0, 6.7e5, 1.2e6, 2.25e6, -3.5e3]) * rng.uniform(0.5, 1))))
        im = _map_nest(re, lambda v: rat(Fraction(_fl(v) * rng.choice([1e-6, 3e-7, 1e-9, 0.0]))))
        if all(unrat(_get(im, p)) == 0 for p in _leaves(im)):
            _set(im, _leaves(im)[0], rat(Fraction(1e-7)))
        return {"re": re, "im": None if cplx is False else im}
    if r < 0.87:
        # wide dynamic range inside one array
        return {"re": _map_nest(gen_nested(rng, shape, "int"), lambda _: rat(Fraction(rng.uniform(-1, 1) * 10.0 ** rng.randrange(-12, 13)))),
                "im": None if cplx is False or rng.random() < 0.6 else _map_nest(gen_nested(rng, shape, "int"), lambda _: rat(Fraction(rng.uniform(-1, 1) * 10.0 ** rng.randrange(-12, 13))))}
    # narrow dtypes: small dyadic values, exactly representable
    dt = rng.choice(["float32", "float16", "complex64", "int8"])
    re = _map_nest(gen_nested(rng, shape, "int"), lambda _: rat(Fraction(rng.randrange(-64, 64), 1 if dt == "int8" else 8)))
    a = {"re": re, "im": None, "dtype": dt}
    if dt == "complex64":
        a["im"] = _map_nest(re, lambda _: rat(Fraction(rng.randrange(-64, 64), 8)))
    if dt == "int8":
        a["int"] = True
    if rng.random() < 0.3:
        a["layout"] = rng.choice(["F", "strided", "T"])
    if cplx is False:
        a["im"] = None
        if dt == "complex64":
            a["dtype"] = "float32"
    return a


def mk_op(rng, via=None, n=None, simple=None):
    simple = rng.random() < 0.75 if simple is None else simple
    if simple:
        terms = gen_simple_operator(rng, rng.choice([1, 1, 2, 3, 4, 6]) if n is None else n)
    else:
        terms = gen_operator(rng, allow_dups=True)
    c = {"kind": "op", "via": via or rng.choice(OP_VIAS), "terms": terms}
    if len(terms) == 1 and rng.random() < 0.5:
        c["single"] = True
    return c


def mk_text(rng, n=None):
    terms = gen_simple_operator(rng, rng.choice([1, 1, 2, 3, 4]) if n is None else n) if rng.random() < 0.7 else gen_operator(rng, allow_dups=False)
    c = {"kind": "text", "terms": terms}
    if len(terms) == 1 and rng.random() < 0.5:
        c["single"] = True
    return c


def mk_opset(rng, via=None, n=None):
    n = rng.choice([1, 2, 3, 4]) if n is None else n
    ops = []
    for _ in range(n):
        r = rng.random()
        if ops and r < 0.45:
            # a sibling of an earlier member (iterates of one Hamiltonian / groupings repeat terms)
            ops.append(vary_terms(rng, rng.choice(ops), rng.choice(["same", "near", "abs", "digit", "hash", "swapcoef", "letter", "perm"])))
        elif r < 0.55:
            ops.append([])
        else:
            ops.append(gen_simple_operator(rng, rng.choice([1, 2, 3])))
    return {"kind": "opset", "via": via or rng.choice(["file", "fileobj", "stringio", "binary", "pathlib"]), "ops": ops}


def mk_ev(rng, via=None, n=None, m=None, nframes=None):
    n = n or rng.randrange(1, 5)

    def mk():
        mm = m or rng.randrange(1, 4)
        return gen_carr2(rng, [mm, mm])

    def frames():
        if nframes is not None:
            return [mk() for _ in range(nframes)]
        fr = gen_frames(rng, mk)
        if fr and rng.random() < 0.2:
            fr.append(_copy_nest_dict(rng.choice(fr)))       # the same frame twice
        return fr
    return {"kind": "ev", "via": via or rng.choice(ART_VIAS), "values": gen_carr2(rng, [n]), "correlations": frames(), "covariances": frames()}


def _copy_nest_dict(a):
    return {k: (_copy_nest(v) if isinstance(v, list) else v) for k, v in a.items()}


def mk_par(rng, via=None, n=None, m=None):
    n = n or rng.randrange(1, 5)

    def mkp():
        mm = m or rng.randrange(1, 4)
        return gen_carr2(rng, [mm, mm, 2], kind=rng.choice(["int", "int", "float"]), cplx=False)
    return {"kind": "par", "via": via or rng.choice(ART_VIAS), "values": gen_carr2(rng, [n, 2], kind=rng.choice(["int", "int", "float"]), cplx=False),
            "correlations": gen_frames(rng, mkp)}


def mk_ve(rng, via=None):
    prec = rng.choice([None, None, rat(Fraction(rng.randrange(1, 1000), 2 ** 12)), rat(Fraction(rng.uniform(0, 1))), 0, rat(Fraction(1e-300)), rat(Fraction(2.5e-9))])
    val = rng.choice([rat(Fraction(rng.uniform(-5, 5))), rat(Fraction(rng.randrange(-100, 100), 16)), 0, rat(Fraction(1e-300)), rat(Fraction(-1e300)),
                      rat(Fraction(0.1 + 0.2)), rat(Fraction(rng.uniform(-1, 1) * 1e-9))])
    return {"kind": "ve", "via": via or rng.choice(ART_VIAS), "value": val, "precision": prec, "np": rng.random() < 0.4}


def mk_meas(rng, via=None, w=None, shots=None, plain=False):
    w = rng.randrange(0, 6) if w is None else w
    shots = rng.choice([0, 1, 2, 5, 9]) if shots is None else shots
    r = 1.0 if plain else rng.random()
    if r < 0.15 and shots:
        one = [rng.randrange(2) for _ in range(w)]
        bs = [list(one) for _ in range(shots)]                 # all shots equal
    elif r < 0.25:
        bs = [[0] * w for _ in range(shots)]                   # all-zero (falsy) outcomes
    elif r < 0.35:
        bs = sorted([rng.randrange(2) for _ in range(w)] for _ in range(shots))   # already sorted
    else:
        bs = [[rng.randrange(2) for _ in range(w)] for _ in range(shots)]
    return {"kind": "meas", "via": via or rng.choice(ART_VIAS), "bitstrings": bs, "np": rng.choice([False, False, "int8"])}


FALSY_ITEMS = [0, "", [], False, None, "0", [[]], [0]]


def mk_list(rng, via=None, n=None):
    def item(d=0):
        r = rng.random()
        if r < 0.25:
            return rng.randrange(-1000, 1000)
        if r < 0.5:
            return rat(Fraction(rng.uniform(-3, 3)))
        if r < 0.6:
            return rng.choice(["a", "", "0110", "x y", "null", "NaN"])
        if r < 0.72:
            return rng.choice(FALSY_ITEMS + [True, 2 ** 53 + 1, -(2 ** 63) - 5, 2 ** 61 - 1, 10 ** 30])
        if d < 2:
            return [item(d + 1) for _ in range(rng.randrange(0, 4))]
        return 0
    n = rng.randrange(0, 6) if n is None else n
    r = rng.random()
    if r < 0.1 and n:
        lst = [item()] * n                                      # all items equal
    else:
        lst = [item() for _ in range(n)]
    return {"kind": "list", "via": via or rng.choice(ART_VIAS), "list": _copy_nest(lst)}


def mk_layers(rng, via=None, nl=None, per=None):
    hi = rng.choice([12, 12, 200, 5000])
    layers = [[rng.sample(range(hi), rng.choice([2, 2, 3])) for _ in range(rng.randrange(0, 4) if per is None else per)]
              for _ in range(rng.randrange(0, 4) if nl is None else nl)]
    return {"kind": "layers", "via": via or rng.choice(ART_VIAS), "layers": layers}


def mk_conn(rng, via=None, n=None):
    hi = rng.choice([20, 20, 300, 5000])
    r = rng.random()
    if r < 0.2:
        k = rng.randrange(2, 8)
        conn = [[i, i + 1] for i in range(k)]                   # a line: sorted, contiguous
    else:
        conn = [rng.sample(range(hi), rng.choice([2, 2, 3])) for _ in range(rng.randrange(0, 6) if n is None else n)]
    return {"kind": "conn", "via": via or rng.choice(ART_VIAS), "connectivity": conn}


def mk_ordering(rng, via=None, n=None):
    n = rng.randrange(0, 8) if n is None else n
    order = list(range(n))
    if rng.random() < 0.75:
        rng.shuffle(order)                                      # else: the identity ordering (already sorted)
    return {"kind": "ordering", "via": via or rng.choice(ART_VIAS), "ordering": order}


def mk_nmeas(rng, n=None):
    fm = None if rng.random() < 0.15 else gen_carr2(rng, [n or rng.randrange(1, 5)], cplx=False)
    if fm is not None and fm.get("im") is not None:
        fm = {"re": fm["re"], "im": None}
    K = rng.choice([rat(Fraction(rng.uniform(0, 1e6))), 0, rat(Fraction(1e-12)), rat(Fraction(2.0 ** 60))])
    return {"kind": "nmeas", "K": K, "nterms": rng.choice([rng.randrange(0, 50), 0, 2 ** 53 + 1]), "frame_meas": fm}


# ---- siblings of artefact cases
def _vary_frames(rng, fr, mk):
    """None <-> [] <-> frames; one frame changed / dropped / duplicated / moved"""
    r = rng.random()
    if fr is None:
        return [] if r < 0.5 else [mk()]
    if not fr:
        return None if r < 0.5 else [mk()]
    fr = [_copy_nest_dict(a) for a in fr]
    if r < 0.5:
        i = rng.randrange(len(fr))
        fr[i] = vary_carr(rng, fr[i])
    elif r < 0.6:
        fr.append(_copy_nest_dict(rng.choice(fr)))
    elif r < 0.7:
        fr.reverse()
    elif r < 0.8:
        fr.pop(rng.randrange(len(fr)))
    elif r < 0.9:
        return None
    return fr


def vary_case(rng, c):
    """a sibling case: differs from `c` in (at most) one component"""
    import copy
    k = c["kind"]
    d = copy.deepcopy(c)
    d.pop("inplace", None)
    d.pop("derive", None)
    if k in ("op", "text"):
        mode = rng.choice(TERM_MODES)
        if k == "text" and mode == "neardup":
            mode = "near"
        d["terms"] = vary_terms(rng, c["terms"], mode)
        if len(d["terms"]) != 1:
            d.pop("single", None)
    elif k == "opset":
        if d["ops"] and rng.random() < 0.8:
            i = rng.randrange(len(d["ops"]))
            d["ops"][i] = vary_terms(rng, d["ops"][i], rng.choice([m for m in TERM_MODES if m != "neardup"]))
        elif rng.random() < 0.5:
            d["ops"].append(gen_simple_operator(rng, 2))
        else:
            d["ops"].reverse()
    elif k == "ev":
        r = rng.random()
        if r < 0.3:
            d["values"] = vary_carr(rng, c["values"])
        elif r < 0.4:
            d["correlations"], d["covariances"] = d["covariances"], d["correlations"]
        else:
            key = rng.choice(["correlations", "covariances"])
            d[key] = _vary_frames(rng, c[key], lambda: gen_carr2(rng, [2, 2]))
    elif k == "par":
        if rng.random() < 0.5:
            d["values"] = vary_carr(rng, c["values"], rng.choice(["same", "elem", "swap2", "zero"]))
        else:
            fr = _vary_frames(rng, c["correlations"], lambda: gen_carr(rng, [2, 2, 2], kind="int", cplx=False))
            d["correlations"] = fr
    elif k == "ve":
        r = rng.random()
        if r < 0.6:
            cur = c["precision"]
            d["precision"] = rng.choice([x for x in [None, 0, rat(Fraction(1, 1024)), rat(Fraction(float(unrat(cur or 1)) * NEAR))] if x != cur])
        elif r < 0.9:
            v = float(unrat(c["value"]))
            d["value"] = rat(Fraction(v * NEAR if v else NEAR_ABS))
    elif k == "meas":
        bs = d["bitstrings"]
        r = rng.random()
        if bs and bs[0] and r < 0.4:
            i, j = rng.randrange(len(bs)), rng.randrange(len(bs[0]))
            bs[i][j] = 1 - bs[i][j]
        elif len(bs) >= 2 and r < 0.6:
            i, j = rng.sample(range(len(bs)), 2)
            bs[i], bs[j] = bs[j], bs[i]
        elif r < 0.8:
            w = len(bs[0]) if bs else rng.randrange(0, 4)
            bs.insert(rng.randrange(len(bs) + 1), [rng.randrange(2) for _ in range(w)])
        elif bs and r < 0.9:
            bs.pop(rng.randrange(len(bs)))
    elif k == "list":
        lst = d["list"]
        r = rng.random()
        if lst and r < 0.4:
            lst[rng.randrange(len(lst))] = rng.choice(FALSY_ITEMS + [1, "b", rat(Fraction(rng.uniform(-1, 1)))])
        elif len(lst) >= 2 and r < 0.6:
            i, j = rng.sample(range(len(lst)), 2)
            lst[i], lst[j] = lst[j], lst[i]
        elif r < 0.85:
            lst.insert(rng.randrange(len(lst) + 1), _copy_nest(rng.choice(FALSY_ITEMS)))
        d["list"] = _copy_nest(lst)
    elif k in ("layers", "conn"):
        groups = [g for layer in d["layers"] for g in layer] if k == "layers" else d["connectivity"]
        r = rng.random()
        if groups and r < 0.4:
            rng.choice(groups).reverse()
        elif groups and r < 0.7:
            g = rng.choice(groups)
            i = rng.randrange(len(g))
            g[i] = next(x for x in (g[i] + 1, g[i] + 2, g[i] + 3, g[i] + 4) if x not in g)
        elif k == "layers":
            d["layers"].append([[0, 1]])
        else:
            d["connectivity"].append([0, 1])
    elif k == "ordering":
        o = d["ordering"]
        if len(o) >= 2 and rng.random() < 0.7:
            i, j = rng.sample(range(len(o)), 2)
            o[i], o[j] = o[j], o[i]
        else:
            o.append(len(o))
    elif k == "nmeas":
        r = rng.random()
        if r < 0.3:
            v = float(unrat(c["K"]))
            d["K"] = rat(Fraction(v * NEAR if v else NEAR_ABS))
        elif r < 0.5:
            d["nterms"] = c["nterms"] + 1
        elif r < 0.7:
            d["frame_meas"] = None if c["frame_meas"] is not None else gen_carr(rng, [2], cplx=False)
        elif c["frame_meas"] is not None:
            d["frame_meas"] = vary_carr(rng, c["frame_meas"], rng.choice(["near", "elem", "swap2", "zero"]))
    return d


MK = {"op": mk_op, "text": mk_text, "opset": mk_opset, "ev": mk_ev, "par": mk_par, "ve": mk_ve, "meas": mk_meas, "list": mk_list,
      "layers": mk_layers, "conn": mk_conn, "ordering": mk_ordering}
SEQ_KINDS = ["op"] * 6 + ["text"] * 4 + ["opset"] * 2 + ["ev"] * 4 + ["par"] * 2 + ["ve"] * 2 + ["meas"] * 3 + ["list"] * 2 + \
    ["layers", "conn", "ordering", "nmeas", "nmeas"]
OP_THEMES = [["near"], ["abs"], ["near", "abs"], ["digit"], ["digit", "same"], ["hash", "hash"], ["swapcoef"], ["same"], ["same", "near"],
             ["type", "np"], ["imag", "near"], ["letter"], ["qubit", "reorder"], ["neardup"], None, None, None]


def gen_seq(rng):
    """a history: sibling cases executed one after the other on the same file name and (where a step says `inplace`)
    on the same object, mutated through its public attributes.  Every step is an ordinary case of its own and is
    judged by the ordinary oracle of its kind."""
    k = rng.choice(SEQ_KINDS)
    if rng.random() < 0.25:
        # medium sizes: beyond 64 bytes / 8 doubles / 9 qubits, so that a key built from a prefix or a width collides
        base = {"op": lambda: mk_op(rng, n=rng.choice([8, 12]), simple=True), "text": lambda: mk_text(rng, n=rng.choice([8, 12])),
                "opset": lambda: mk_opset(rng, n=rng.choice([6, 10])), "ev": lambda: mk_ev(rng, n=rng.choice([9, 20]), m=rng.choice([3, 4])),
                "par": lambda: mk_par(rng, n=rng.choice([9, 20]), m=3), "ve": lambda: mk_ve(rng),
                "meas": lambda: mk_meas(rng, w=rng.choice([3, 9, 10]), shots=rng.choice([10, 33, 70])),
                "list": lambda: mk_list(rng, n=rng.choice([10, 30])), "layers": lambda: mk_layers(rng, nl=4, per=5),
                "conn": lambda: mk_conn(rng, n=rng.choice([10, 70])), "ordering": lambda: mk_ordering(rng, n=rng.choice([10, 70])),
                "nmeas": lambda: mk_nmeas(rng, n=rng.choice([9, 20]))}[k]()
    else:
        base = mk_nmeas(rng) if k == "nmeas" else MK[k](rng)
    same_via = rng.random() < 0.7
    if same_via and "via" in base and rng.random() < 0.6:
        base["via"] = "file" if k in ("op", "opset") else "path"
    steps = [base]
    theme = rng.choice(OP_THEMES) if k in ("op", "text") else None
    n = len(theme) + 1 if theme else rng.choice([2, 3, 3, 4])
    for i in range(1, n):
        prev = steps[-1]
        if theme:
            import copy
            st = copy.deepcopy(prev)
            st.pop("inplace", None)
            st.pop("derive", None)
            mode = theme[i - 1]
            if k == "text" and mode == "neardup":
                mode = "near"
            st["terms"] = vary_terms(rng, prev["terms"], mode)
            if len(st["terms"]) != 1:
                st.pop("single", None)
        else:
            st = vary_case(rng, prev)
        r = rng.random()
        if r < 0.45:
            st["inplace"] = True
        elif r < 0.7 and k in ("op", "text"):
            st["derive"] = rng.choice(DERIVE_OPS)
            st["inplace"] = rng.random() < 0.5      # used when the derivation does not apply to this shape
        elif r < 0.65 and k not in ("opset", "nmeas"):
            st["derive"] = "reload"
        if "via" in st and not same_via:
            st["via"] = rng.choice(OP_VIAS if k == "op" else (OP_VIAS[2:] if k == "opset" else ART_VIAS))
        st.pop("altpath", None)
        if rng.random() < 0.2:
            st["altpath"] = True                                 # the same (or changed) object saved under another file name
        steps.append(st)
    if rng.random() < 0.35:
        import copy
        again = copy.deepcopy(steps[0])                          # A, B, A
        if rng.random() < 0.5:
            again["inplace"] = True
        steps.append(again)
    return {"kind": "seq", "steps": steps}


DERIVE_OPS = ["copy", "copy", "simplify", "mul1", "reparse", "reload"]


def gen_pairs(rng):
    """every kind of one-component change of an operator x every way of getting the second object (new object, the
    first one changed in place, a copy(new_coefficient) of the first) at least once per run, for the dict/file routes
    and for the text route"""
    import copy
    out = []
    for k in ("op", "text"):
        for mode in TERM_MODES:
            if k == "text" and mode == "neardup":
                continue
            for how in ("new", "inplace", "copy"):
                base = mk_op(rng, simple=True) if k == "op" else mk_text(rng)
                if not base["terms"]:
                    base["terms"] = gen_simple_operator(rng, 2)
                    base.pop("single", None)
                if mode in ("swapcoef", "perm", "drop") and len(base["terms"]) < 2:
                    base["terms"] = gen_simple_operator(rng, 3)
                    base.pop("single", None)
                st = copy.deepcopy(base)
                st["terms"] = vary_terms(rng, base["terms"], mode)
                if len(st["terms"]) != 1:
                    st.pop("single", None)
                if how == "inplace":
                    st["inplace"] = True
                elif how == "copy":
                    st["derive"] = "copy"
                steps = [base, st]
                if rng.random() < 0.3:
                    again = copy.deepcopy(base)
                    again["inplace"] = rng.random() < 0.5
                    steps.append(again)
                out.append({"kind": "seq", "steps": steps})
        # an object MADE BY THE LIBRARY (simplify / 1 * op / parser / loader) and then changed through its attributes
        for der in ("simplify", "mul1", "reparse", "reload"):
            for mode in ("near", "abs", "digit", "type", "imag", "neg"):
                base = mk_op(rng, simple=True, n=rng.choice([1, 2, 3])) if k == "op" else mk_text(rng, n=rng.choice([1, 2, 3]))
                if not base["terms"]:
                    base["terms"] = gen_simple_operator(rng, 2)
                if der in ("simplify", "reload") or len(base["terms"]) != 1:
                    base.pop("single", None)
                made = copy.deepcopy(base)
                made["derive"] = der
                st = copy.deepcopy(base)
                st["terms"] = vary_terms(rng, base["terms"], mode)
                st["inplace"] = True
                out.append({"kind": "seq", "steps": [base, made, st]})
    return out


def _bump_last(a):
    """array encoding with its LAST element changed (a long common prefix, a different tail)"""
    b = _copy_nest_dict(a)
    p = _leaves(b["re"])[-1]
    v = unrat(_get(b["re"], p))
    _set(b["re"], p, 8 if v == 7 else 7)      # a small integer: exact in every dtype used
    return b


def gen_tail_pairs(rng):
    """medium-size artefacts (more than 8 numbers / 64 bytes) and a sibling that differs only at the very end, as a new
    object and as the first object changed in place: a key made of a prefix, a length or a shape does not tell them apart"""
    import copy
    out = []
    for how in ("new", "inplace"):
        bases = [
            {"kind": "ev", "via": "path", "values": gen_carr(rng, [rng.choice([12, 20])], cplx=False),
             "correlations": [gen_carr(rng, [4, 4], cplx=False)], "covariances": [gen_carr(rng, [3, 3], cplx=True)]},
            {"kind": "par", "via": "path", "values": gen_carr(rng, [rng.choice([9, 16]), 2], kind="int", cplx=False),
             "correlations": [gen_carr(rng, [3, 3, 2], kind="int", cplx=False)]},
            {"kind": "nmeas", "K": rat(Fraction(rng.uniform(0, 1e6))), "nterms": rng.randrange(1, 50), "frame_meas": gen_carr(rng, [12], cplx=False)},
            mk_meas(rng, via="path", w=rng.choice([3, 9, 13]), shots=rng.choice([12, 70]), plain=True),
            mk_list(rng, via="path", n=rng.choice([12, 40])),
            mk_conn(rng, via="path", n=rng.choice([12, 40])),
            mk_layers(rng, via="path", nl=3, per=6),
            mk_ordering(rng, via="path", n=rng.choice([12, 40])),
        ]
        for base in bases:
            st = copy.deepcopy(base)
            k = base["kind"]
            if k == "ev":
                key = rng.choice(["values", "correlations", "covariances"])
                if key == "values":
                    st["values"] = _bump_last(base["values"])
                else:
                    st[key][-1] = _bump_last(base[key][-1])
            elif k == "par":
                if rng.random() < 0.5:
                    st["values"] = _bump_last(base["values"])
                else:
                    st["correlations"][-1] = _bump_last(base["correlations"][-1])
            elif k == "nmeas":
                st["frame_meas"] = _bump_last(base["frame_meas"])
            elif k == "meas":
                st["bitstrings"][-1][-1] = 1 - st["bitstrings"][-1][-1]
            elif k == "list":
                st["list"][-1] = "tail"
            elif k == "conn":
                st["connectivity"][-1] = list(reversed(st["connectivity"][-1]))
            elif k == "layers":
                st["layers"][-1][-1] = list(reversed(st["layers"][-1][-1]))
            elif k == "ordering":
                st["ordering"][-1], st["ordering"][-2] = st["ordering"][-2], st["ordering"][-1]
            if how == "inplace":
                st["inplace"] = True
            out.append({"kind": "seq", "steps": [base, st, copy.deepcopy(base)]})
    return out


def gen_big(rng, tier):
    """shapes beyond the thresholds at which a fast path would plausibly switch (>= 64 items, widths >= 9 / >= 13)"""
    pool = list(range(40)) + [64, 100, 128, 1000, 4096]
    out = [
        {"kind": "op", "via": rng.choice(["file", "json", "fileobj"]), "terms": gen_simple_operator(rng, rng.choice([64, 65, 100, 130]), pool=pool)},
        {"kind": "op", "via": "dict", "terms": gen_simple_operator(rng, 70, pool=pool, exact=True)},
        {"kind": "text", "terms": gen_simple_operator(rng, rng.choice([64, 90]), pool=pool)},
        mk_opset(rng, via=rng.choice(["file", "fileobj"]), n=rng.choice([64, 65, 80])),
        mk_meas(rng, w=rng.choice([9, 10, 12]), shots=rng.choice([3, 7])),
        mk_meas(rng, w=rng.choice([13, 16, 20]), shots=rng.choice([5, 64]), plain=True),
        mk_meas(rng, w=rng.choice([2, 3, 5]), shots=rng.choice([64, 100, 1000]), plain=True),
        mk_meas(rng, w=rng.choice([1, 3, 5]), shots=rng.choice([64, 100])),
        mk_meas(rng, w=rng.choice([9, 13]), shots=rng.choice([1, 2])),
        mk_ev(rng, n=rng.choice([64, 100]), m=rng.choice([8, 9, 13]), nframes=rng.choice([1, 2])),
        mk_ev(rng, n=3, m=2, nframes=rng.choice([8, 64])),
        mk_par(rng, n=rng.choice([64, 100]), m=rng.choice([6, 8])),
        mk_list(rng, n=rng.choice([64, 200])),
        mk_layers(rng, nl=rng.choice([3, 64]), per=rng.choice([22, 3])),
        mk_conn(rng, n=rng.choice([64, 150])),
        mk_ordering(rng, n=rng.choice([64, 100, 500])),
        mk_nmeas(rng, n=rng.choice([64, 100])),
    ]
    # term-count ladder (no bound in the property): across the round numbers where a block-wise / chunked conversion would sit,
    # each with its neighbours (a dropped or doubled LAST item shows at n = block * k + 1)
    # (the harness re-reads and re-converts every operator several times: ~7 s for 512 terms, so the quick tier stops at 257)
    ladder = [64, 100, 128, 256, 512, 1000, 1024] if tier == "thorough" else [64, 100, 128, 256]
    sizes = {129, 257} | {x + d for x in rng.sample(ladder, 3 if tier == "thorough" else 2) for d in (-1, 0, 1)}
    if tier == "thorough":
        sizes |= {513, 1025}
    for n in sorted(sizes):
        out.append({"kind": "op", "via": rng.choice(["dict", "dict", "json", "file"]), "terms": gen_simple_operator(rng, n, pool=list(range(7)), exact=True)})
    out.append(mk_opset(rng, via="file", n=rng.choice([129, 257])))
    # wide registers: leading zeros and a sibling differing in the leading bit
    w = rng.choice([9, 13])
    out.append({"kind": "meas", "via": "path", "bitstrings": [[0] * w, [0] * (w - 1) + [1], [1] + [0] * (w - 1), [0, 1] + [0] * (w - 2)], "np": False})
    return out


def gen_exotic(rng):
    """legal but unusual inputs, one component at a time"""
    out = []
    for via in OP_VIAS:
        out.append(mk_op(rng, via=via, simple=True))
    for via in ART_VIAS:
        out.append(rng.choice([mk_ev, mk_par, mk_ve, mk_meas, mk_list, mk_layers, mk_conn, mk_ordering])(rng, via=via))
    # numpy-typed coefficients of every flavour, through every route
    for via in ("dict", "file", "fileobj"):
        ts = [_t([(0, "X"), (11, "Y")], 0.1), _t([(2, "Z")], 1 + 2j), _t([], -2.5e-7), _t([(1, "Y")], complex(0.0, 3e-6))]
        for t in ts:
            t["coef"]["np"] = True
        out.append({"kind": "op", "via": via, "terms": ts})
    ts = [_t([(0, "X")], 0.1), _t([(2, "Z"), (5, "Z")], 1 - 2j), _t([], 3e-7)]
    for t in ts:
        t["coef"]["np"] = True
    out.append({"kind": "text", "terms": ts})
    out.append({"kind": "text", "terms": ts[1:2], "single": True})
    return out


def generate(rng, tier):
    big = tier == "thorough"
    mul = 8 if big else 1
    cases = []
    vias = ["dict", "json", "file", "fileobj"]
    for i in range(120 * mul):
        terms = gen_operator(rng, allow_dups=True)
        c = {"kind": "op", "via": vias[i % 4], "terms": terms}
        if len(terms) == 1 and rng.random() < 0.5:
            c["single"] = True
        cases.append(c)
    for i in range(25 * mul):
        ops = [gen_operator(rng, allow_dups=True) for _ in range(rng.choice([0, 1, 2, 3]))]
        cases.append({"kind": "opset", "via": ["file", "fileobj"][i % 2], "ops": ops})
    for _ in range(130 * mul):
        terms = gen_operator(rng, allow_dups=rng.random() < 0.3)
        c = {"kind": "text", "terms": terms}
        if len(terms) == 1 and rng.random() < 0.5:
            c["single"] = True
        cases.append(c)
    for tx in FREE_TEXTS:
        cases.append({"kind": "parse", "text": tx, "as": "term"})
        cases.append({"kind": "parse", "text": tx, "as": "sum"})
    for _ in range(30 * mul):
        # random assemblies of plausible fragments
        frag = ["Z0", "X12", "y3", "I", "I4", "2", "-2.5", "1e-7", "(1+2j)", "(3-1e-5j)", "2j", " ", " ", "*", "*", "+", "+", " + ", "(", ")"]
        tx = "".join(rng.choice(frag) for _ in range(rng.randrange(1, 9)))
        cases.append({"kind": "parse", "text": tx, "as": rng.choice(["term", "sum"])})
    for _ in range(20 * mul):
        # malformed / unusual dictionaries for convert_dict_to_op
        nt = rng.randrange(1, 4)
        terms = []
        for _ in range(nt):
            nq = rng.randrange(0, 4)
            pops = [{"qubit": rng.choice([0, 1, 2, 2, 3, -1, 15]), "op": rng.choice(["X", "Y", "Z", "I", "I", "Q"])} for _ in range(nq)]
            co = {"real": rat(Fraction(rng.randrange(-64, 64), 8))}
            if rng.random() < 0.5:
                co["imag"] = rng.choice([0, rat(Fraction(rng.randrange(-64, 64), 8))])
            terms.append({"pauli_ops": pops, "coefficient": co})
        cases.append({"kind": "baddict", "dict": {"terms": terms}})
    pv = ["path", "fileobj"]
    for i in range(40 * mul):
        n = rng.randrange(1, 5)
        cplx = rng.random() < 0.4

        def mk():
            m = rng.randrange(1, 4)
            return gen_carr(rng, [m, m], cplx=rng.random() < 0.5)
        cases.append({"kind": "ev", "via": pv[i % 2], "values": gen_carr(rng, [n], cplx=cplx),
                      "correlations": gen_frames(rng, mk), "covariances": gen_frames(rng, mk)})
    for i in range(25 * mul):
        n = rng.randrange(1, 5)

        def mkp():
            m = rng.randrange(1, 4)
            return gen_carr(rng, [m, m, 2], kind=rng.choice(["int", "float"]), cplx=False)
        cases.append({"kind": "par", "via": pv[i % 2], "values": gen_carr(rng, [n, 2], kind=rng.choice(["int", "int", "float"]), cplx=False),
                      "correlations": gen_frames(rng, mkp)})
    for i in range(20 * mul):
        prec = rng.choice([None, None, rat(Fraction(rng.randrange(1, 1000), 2 ** 12)), rat(Fraction(rng.uniform(0, 1))), 0])
        val = rng.choice([rat(Fraction(rng.uniform(-5, 5))), rat(Fraction(rng.randrange(-100, 100), 16)), 0, rat(Fraction(1e-300)), rat(Fraction(-1e300))])
        cases.append({"kind": "ve", "via": pv[i % 2], "value": val, "precision": prec, "np": rng.random() < 0.4})
    for i in range(25 * mul):
        w = rng.randrange(0, 6)
        bs = [[rng.randrange(2) for _ in range(w)] for _ in range(rng.choice([0, 1, 2, 5, 9]))]
        cases.append({"kind": "meas", "via": pv[i % 2], "bitstrings": bs, "np": rng.random() < 0.3})
    for i in range(15 * mul):
        def item(d=0):
            r = rng.random()
            if r < 0.3:
                return rng.randrange(-1000, 1000)
            if r < 0.6:
                return rat(Fraction(rng.uniform(-3, 3)))
            if r < 0.75:
                return rng.choice(["a", "", "0110", "x y"])
            if d < 2:
                return [item(d + 1) for _ in range(rng.randrange(0, 4))]
            return 0
        cases.append({"kind": "list", "via": pv[i % 2], "list": [item() for _ in range(rng.randrange(0, 6))]})
    for i in range(15 * mul):
        layers = [[rng.sample(range(12), rng.choice([2, 2, 3])) for _ in range(rng.randrange(0, 4))] for _ in range(rng.randrange(0, 4))]
        cases.append({"kind": "layers", "via": pv[i % 2], "layers": layers})
        conn = [rng.sample(range(20), rng.choice([2, 2, 3])) for _ in range(rng.randrange(0, 6))]
        cases.append({"kind": "conn", "via": pv[(i + 1) % 2], "connectivity": conn})
        order = list(range(rng.randrange(0, 8)))
        rng.shuffle(order)
        cases.append({"kind": "ordering", "via": pv[i % 2], "ordering": order})
    for i in range(12 * mul):
        fm = None if rng.random() < 0.15 else gen_carr(rng, [rng.randrange(1, 5)], cplx=False)
        cases.append({"kind": "nmeas", "K": rat(Fraction(rng.uniform(0, 1e6))), "nterms": rng.randrange(0, 50), "frame_meas": fm})
    # ---- histories of sibling cases, large shapes, unusual-but-legal inputs (independent PRNG streams, so the plain
    # streams above are the same whatever is added here)
    r2 = random.Random(rng.random())
    for _ in range(110 * mul):
        cases.append(gen_seq(r2))
    r5 = random.Random(rng.random())
    for _ in range(1 if not big else 4):
        cases += gen_pairs(r5)
        cases += gen_tail_pairs(r5)
    r3 = random.Random(rng.random())
    for _ in range(1 if not big else 4):
        cases += gen_big(r3, tier)
    r4 = random.Random(rng.random())
    for _ in range(2 * mul):
        cases += gen_exotic(r4)
    return cases


def nontrivial(c):
    k = c["kind"]
    if k == "seq":
        return len(c["steps"]) >= 2
    if k in ("op", "text"):
        def exp_fmt(e):
            return e["t"] != "int" and ("e" in repr(dec_py(e)))
        return any(t["coef"]["t"] == "complex" or exp_fmt(t["coef"]) or not t["ops"] for t in c["terms"])
    if k == "opset":
        return any(any(t["coef"]["t"] == "complex" or not t["ops"] for t in o) for o in c["ops"])
    if k in ("parse", "baddict"):
        return True
    if k == "ev":
        return bool(c["correlations"]) or bool(c["covariances"])
    if k == "par":
        return bool(c["correlations"])
    if k == "ve":
        return c["precision"] is not None
    if k == "meas":
        return len(c["bitstrings"]) >= 2
    if k in ("list", "layers", "conn", "ordering"):
        return bool(c.get("list") or c.get("layers") or c.get("connectivity") or c.get("ordering"))
    if k == "nmeas":
        return True
    return False


# --------------------------------------------------------------------------- implementation side
class _Env:
    """what the steps of one history share: one directory and file name, and the previous input object of each kind"""

    def __init__(self):
        self.d = tempfile.mkdtemp(prefix="oq_c11_")
        self.path_a = os.path.join(self.d, "artefact.json")
        self.path_b = os.path.join(self.d, "artefact_b.json")
        self.path = self.path_a
        self.prev = {}
        self.last_path = {}

    def close(self):
        shutil.rmtree(self.d, ignore_errors=True)


def _save_path(path, via):
    return pathlib.Path(path) if via == "pathlib" else path


def _load(loader, path, via, accepts_pathlike=False):
    if via == "fileobj":
        with open(path, "r") as f:
            return loader(f)
    if via == "binary":
        with open(path, "rb") as f:
            return loader(f)
    if via == "stringio":
        with open(path, "r") as f:
            text = f.read()
        return loader(io.StringIO(text))
    if via == "pathlib" and accepts_pathlike:
        return loader(pathlib.Path(path))
    return loader(path)


def _other_via(via):
    """the second load of a step uses the other kind of source (a path if the first was not, else an open file)"""
    return "fileobj" if via in ("path", "file", "pathlib") else "path"


def _file_json(path):
    with open(path) as f:
        return std_json.load(f)


def _scribble(L, x, depth=0):
    """overwrite an object the library RETURNED (it belongs to the caller); what the library does later must not depend on it"""
    np = L.np
    if depth > 6 or x is None:
        return
    if isinstance(x, np.ndarray):
        if x.size and x.flags.writeable:
            x[...] = 77
    elif isinstance(x, dict):
        for v in list(x.values()):
            _scribble(L, v, depth + 1)
        x.clear()
        x["overwritten by the caller"] = 77
    elif isinstance(x, list):
        for v in x:
            _scribble(L, v, depth + 1)
        x.clear()
        x.append(77)
    elif isinstance(x, L.PauliTerm):
        x.coefficient = 77.5
    elif isinstance(x, L.PauliSum):
        for t in x.terms:
            _scribble(L, t, depth + 1)
        if isinstance(x.terms, list):
            x.terms.clear()
    elif isinstance(x, L.EV):
        for a in (x.values, x.correlations, x.estimator_covariances):
            _scribble(L, a, depth + 1)
    elif isinstance(x, L.Par):
        for a in (x.values, x.correlations):
            _scribble(L, a, depth + 1)
    elif isinstance(x, L.Meas):
        _scribble(L, x.bitstrings, depth + 1)
    elif isinstance(x, L.utils.ValueEstimate):
        x.precision = 77.5
    elif isinstance(x, L.layouts.CircuitLayers):
        _scribble(L, x.layers, depth + 1)
    elif isinstance(x, L.layouts.CircuitConnectivity):
        _scribble(L, x.connectivity, depth + 1)


def _guard(fn):
    """the value of fn(), or {"exc": ...} when the library raises in a REPEATED call (second load / convert again after
    the caller overwrote the first results); the oracle reports that with the circumstances"""
    try:
        return fn()
    except Exception as e:
        return {"exc": f"{type(e).__name__}: {str(e)[:160]}"}


def _mk_terms(L, terms):
    return [L.PauliTerm({int(q): o for q, o in t["ops"]}, dec_coef(t["coef"])) for t in terms]


def _input_op(L, c, env):
    """the operator of an op/text case: new, or (history steps) the previous object changed through its public
    attributes (`inplace`), or an object DERIVED from the previous one by the library itself (`derive`: copy with new
    coefficients, simplify(), 1 * op, parsing its printed text, loading its dictionary).  What the step then tests is the
    state of that object as read from its attributes (out["orig"])."""
    terms = c["terms"]
    single = bool(c.get("single"))
    prev = env.prev.get("op")
    op = None
    der = c.get("derive")
    if prev is not None and (c.get("inplace") or der):
        pobj, pkeys, psingle = prev
        same_shape = psingle == single and pkeys == [_key(t["ops"]) for t in terms]
        if der == "copy" and same_shape:
            if single:
                op = pobj.copy(dec_coef(terms[0]["coef"]))
            else:
                op = L.PauliSum([t.copy(dec_coef(n["coef"])) for t, n in zip(pobj.terms, terms)])
        elif der == "simplify" and not single and not psingle:
            op = pobj.simplify()
        elif der == "mul1" and single == psingle:
            op = 1 * pobj
        elif der == "reparse" and single == psingle:
            op = L.PauliTerm(str(pobj)) if single else L.PauliSum(str(pobj))
        elif der == "reload" and not single and not psingle:
            op = L.opio.convert_dict_to_op(L.opio.convert_op_to_dict(pobj))
        elif c.get("inplace") and same_shape:
            for t, n in zip(pobj.terms, terms):
                t.coefficient = dec_coef(n["coef"])
            op = pobj
        elif c.get("inplace") and not single and not psingle and isinstance(pobj.terms, list):
            pobj.terms[:] = _mk_terms(L, terms)
            op = pobj
    if op is None:
        ts = _mk_terms(L, terms)
        op = ts[0] if single else L.PauliSum(ts)
    env.prev["op"] = (op, [_key(t._ops.items()) for t in op.terms], single)
    return op


def _prev_art(L, c, env, kind, loader, accepts_pathlike=False):
    """the input object a history step starts from: None (build a new one), the previous input object (`inplace`) or
    the object the library loads from the file of the previous step (`derive` = reload); it is then brought to the
    step's payload through its public attributes"""
    if c.get("derive") == "reload" and env.last_path.get(kind) and os.path.exists(env.last_path[kind]):
        return _load(loader, env.last_path[kind], "path", accepts_pathlike)
    if c.get("inplace"):
        return env.prev.get(kind)
    return None


def _set_array(L, obj, attr, new):
    """obj.attr := new, in place when shapes and kinds allow"""
    np = L.np
    old = getattr(obj, attr)
    if (isinstance(old, np.ndarray) and old.shape == new.shape and old.flags.writeable and old.size
            and (np.iscomplexobj(old) or not np.iscomplexobj(new)) and old.dtype == new.dtype):
        old[...] = new
    else:
        setattr(obj, attr, new)


def _set_list(obj, attr, new):
    old = getattr(obj, attr)
    if isinstance(old, list) and isinstance(new, list):
        old[:] = new
    else:
        setattr(obj, attr, new)


def _frames_build(L, fr):
    return None if fr is None else [carr_build(L, a) for a in fr]


def _terms_out(op):
    return [term_canon(t) for t in op.terms]


def run_impl(c):
    L = _lib()
    env = _Env()
    try:
        if c["kind"] == "seq":
            outs = []
            for st in c["steps"]:
                try:
                    outs.append(_run_one(L, st, env))
                except Exception as e:   # judged by the oracle as a failure of that step
                    outs.append({"exc": type(e).__name__, "msg": str(e)[:200]})
            return {"steps": outs}
        return _run_one(L, c, env)
    finally:
        env.close()


def _run_one(L, c, env):
    np = L.np
    k = c["kind"]
    p = env.path_b if c.get("altpath") else env.path_a   # a history step may name the other file
    if k == "op":
        op = _input_op(L, c, env)
        orig = _terms_out(op)
        d = L.opio.convert_op_to_dict(op)
        out = {"orig": orig, "dict": dict_canon(d)}
        via = c["via"]

        def back(dd, v):
            """(dictionary read, operator loaded) through route v, starting from the library's dictionary dd"""
            if v == "dict":
                return dd, L.opio.convert_dict_to_op(dd)
            if v == "json":
                d2 = L.rapidjson.loads(L.rapidjson.dumps(dd))
                return d2, L.opio.convert_dict_to_op(d2)
            L.opio.save_operator(op, _save_path(p, v))
            return _file_json(p), _load(L.opio.load_operator, p, "path" if v == "file" else v)
        d2, op2 = back(d, via)
        out["dict2"] = dict_canon(d2)
        out["loaded"] = _terms_out(op2)
        out["loaded_type"] = type(op2).__name__
        # the same dictionary object converted a second time (dict / json routes), the same file read a second time
        if via in ("dict", "json"):
            src = d if via == "dict" else d2
            out["loaded_again"] = _guard(lambda: _terms_out(L.opio.convert_dict_to_op(src)))
        else:
            out["loaded_again"] = _guard(lambda: _terms_out(_load(L.opio.load_operator, p, _other_via(via))))
        # the dictionaries belong to the caller: overwritten.  The loaded operator is an operator too: one more round
        # (idempotence on simplified operators); then it is overwritten as well and the ORIGINAL object is converted again
        _scribble(L, d)
        _scribble(L, d2)
        out["loaded_twice"] = _guard(lambda: _terms_out(L.opio.convert_dict_to_op(L.opio.convert_op_to_dict(op2))))
        _scribble(L, op2)
        out["loaded_redo"] = _guard(lambda: _terms_out(L.opio.convert_dict_to_op(L.opio.convert_op_to_dict(op))))
        return out
    if k == "opset":
        ops = [build_op(L, {"terms": o}) for o in c["ops"]]
        via = c["via"]
        L.opio.save_operator_set(ops, _save_path(p, via))
        data = _file_json(p)
        ops2 = _load(L.opio.load_operator_set, p, "path" if via == "file" else via)
        out = {"orig": [_terms_out(o) for o in ops],
               "dicts": [dict_canon(d) for d in data["operators"]],
               "loaded": [_terms_out(o) for o in ops2]}
        _scribble(L, ops2)
        out["loaded_again"] = _guard(lambda: [_terms_out(o) for o in _load(L.opio.load_operator_set, p, _other_via(via))])
        return out
    if k == "text":
        op = _input_op(L, c, env)
        text = str(op)
        out = {"orig": _terms_out(op), "text": text,
               "coef_texts": [str(t.coefficient) for t in op.terms],
               "coef_vals": [[_num(complex(t.coefficient).real), _num(complex(t.coefficient).imag)] for t in op.terms]}

        def parse(tx, as_term):
            try:
                if as_term:
                    back = L.PauliTerm(tx)
                    return back, [term_canon(back)], None
                back = L.PauliSum(tx)
                return back, _terms_out(back), None
            except ValueError as e:
                return None, "err:value", str(e)[:120]
        single = bool(c.get("single"))
        back, out["parsed"], msg = parse(text, single)
        if msg is not None:
            out["msg"] = msg
        if len(c["terms"]) == 1:
            # one printed term is also a printed sum and vice versa
            _b, out["parsed_other"], _m = parse(text, not single)
        _scribble(L, back)
        text2 = _guard(lambda: str(op))
        out["text_again"] = text2
        if isinstance(text2, str):
            _b, out["parsed_again"], _m = parse(text2, single)
        else:
            out["parsed_again"] = text2
        return out
    if k == "parse":
        try:
            if c["as"] == "term":
                return {"parsed": [term_canon(L.PauliTerm(c["text"]))]}
            return {"parsed": [term_canon(t) for t in L.PauliSum(c["text"]).terms]}
        except ValueError as e:
            return {"parsed": "err:value", "msg": str(e)[:120]}
        except OverflowError as e:  # complex("1e400") does not overflow, int() may not; recorded, not expected
            return {"parsed": "err:overflow", "msg": str(e)[:120]}
    if k == "baddict":
        d = {"terms": [{"pauli_ops": [dict(p) for p in t["pauli_ops"]],
                        "coefficient": {kk: float(unrat(v)) for kk, v in t["coefficient"].items()}} for t in c["dict"]["terms"]]}
        try:
            op2 = L.opio.convert_dict_to_op(d)
            return {"loaded": [term_canon(t) for t in op2.terms]}
        except ValueError as e:
            return {"loaded": "err:value", "msg": str(e)[:120]}
    via = c.get("via", "path")
    if k == "ev":
        vals, corr, cov = carr_build(L, c["values"]), _frames_build(L, c["correlations"]), _frames_build(L, c["covariances"])
        ev = _prev_art(L, c, env, "ev", L.evm.load_expectation_values, True)
        if ev is None:
            ev = L.EV(vals, corr, cov)
        else:
            _set_array(L, ev, "values", vals)
            _set_list(ev, "correlations", corr)
            _set_list(ev, "estimator_covariances", cov)
        env.prev["ev"] = ev
        env.last_path["ev"] = p
        L.evm.save_expectation_values(ev, _save_path(p, via))
        data = _file_json(p)

        def obs(ev2):
            return {"values": carr_canon(L, ev2.values), "correlations": frames_canon(L, ev2.correlations),
                    "covariances": frames_canon(L, ev2.estimator_covariances)}
        ev2 = _load(L.evm.load_expectation_values, p, via, True)
        fd = {"frames": data.get("frames"), "expectation_values": arrdict_canon(data["expectation_values"])}
        for key in ("correlations", "estimator_covariances"):
            if key in data:
                fd[key] = [arrdict_canon(x) for x in data[key]]
        out = {"file": fd, "loaded": obs(ev2), "orig": obs(ev)}
        _scribble(L, ev2)
        out["again"] = [_guard(lambda: {"loaded": obs(_load(L.evm.load_expectation_values, p, _other_via(via), True))})]
        # the dictionary form, converted back twice from the same dictionary object
        dd = ev.to_dict()
        first = L.EV.from_dict(dd)
        _scribble(L, first)
        out["again"].append(_guard(lambda: {"loaded": obs(L.EV.from_dict(dd))}))
        return out
    if k == "par":
        vals, corr = carr_build(L, c["values"]), _frames_build(L, c["correlations"])
        par = _prev_art(L, c, env, "par", L.parm.load_parities, True)
        if par is None:
            par = L.Par(vals, corr)
        else:
            _set_array(L, par, "values", vals)
            _set_list(par, "correlations", corr)
        env.prev["par"] = par
        env.last_path["par"] = p
        L.parm.save_parities(par, _save_path(p, via))
        data = _file_json(p)

        def obs(par2):
            return {"loaded": {"values": carr_canon(L, par2.values), "correlations": frames_canon(L, par2.correlations)},
                    "int_kept": bool(np.issubdtype(par2.values.dtype, np.integer)) == bool(np.issubdtype(par.values.dtype, np.integer))}
        par2 = _load(L.parm.load_parities, p, via, True)
        fd = {"values": arrdict_canon(data["values"])}
        if "correlations" in data:
            fd["correlations"] = [arrdict_canon(x) for x in data["correlations"]]
        out = dict(obs(par2), file=fd, orig={"values": carr_canon(L, par.values), "correlations": frames_canon(L, par.correlations)})
        _scribble(L, par2)
        out["again"] = [_guard(lambda: obs(_load(L.parm.load_parities, p, _other_via(via), True)))]
        dd = par.to_dict()
        first = L.Par.from_dict(dd)
        _scribble(L, first)
        out["again"].append(_guard(lambda: obs(L.Par.from_dict(dd))))
        return out
    if k == "ve":
        val = float(unrat(c["value"]))
        prec = None if c["precision"] is None else float(unrat(c["precision"]))
        if c.get("np"):
            val = np.float64(val)
            prec = None if prec is None else np.float64(prec)
        ve = _prev_art(L, c, env, "ve", L.utils.load_value_estimate)
        if ve is not None and float(ve) == float(val) and math.copysign(1, float(ve)) == math.copysign(1, float(val)):
            ve.precision = prec
        else:
            ve = L.utils.ValueEstimate(val, prec)
        env.prev["ve"] = ve
        env.last_path["ve"] = p
        L.utils.save_value_estimate(ve, _save_path(p, via))
        data = _file_json(p)

        def obs(ve2):
            return {"loaded": {"value": _num(float(ve2)), "precision": None if ve2.precision is None else _num(ve2.precision)},
                    "eq": bool(ve2 == ve), "type_ok": isinstance(ve2, L.utils.ValueEstimate)}
        ve2 = _load(L.utils.load_value_estimate, p, via)
        fd = {"value": _num(data["value"])}
        if "precision" in data:
            fd["precision"] = None if data["precision"] is None else _num(data["precision"])
        out = dict(obs(ve2), file=fd)
        _scribble(L, ve2)
        out["again"] = [_guard(lambda: obs(_load(L.utils.load_value_estimate, p, _other_via(via))))]
        dd = ve.to_dict()
        first = L.utils.ValueEstimate.from_dict(dd)
        _scribble(L, first)
        out["again"].append(_guard(lambda: obs(L.utils.ValueEstimate.from_dict(dd))))
        return out
    if k == "meas":
        if c.get("np") in (True, "int8"):
            bs = [tuple(np.int8(b) for b in t) for t in c["bitstrings"]]
        elif c.get("np") == "bool":
            bs = [tuple(bool(b) for b in t) for t in c["bitstrings"]]
        else:
            bs = [tuple(t) for t in c["bitstrings"]]
        want = [tuple(int(b) for b in t) for t in c["bitstrings"]]
        m = _prev_art(L, c, env, "meas", L.Meas.load_from_file)
        if m is None:
            m = L.Meas(list(bs))
        else:
            _set_list(m, "bitstrings", list(bs))
        env.prev["meas"] = m
        env.last_path["meas"] = p
        m.save(_save_path(p, via))
        data = _file_json(p)

        def obs(m2):
            return {"loaded": [[int(b) for b in t] for t in m2.bitstrings],
                    "tuples": all(isinstance(t, tuple) for t in m2.bitstrings),
                    "eq": ([tuple(int(b) for b in t) for t in m2.bitstrings] == want and isinstance(m2.bitstrings, list)
                           and list(m2.bitstrings) == list(m.bitstrings))}
        m2 = _load(L.Meas.load_from_file, p, via)
        out = dict(obs(m2), file={"counts": [[kk, v] for kk, v in data["counts"].items()], "bitstrings": data["bitstrings"]})
        _scribble(L, m2)
        out["again"] = [_guard(lambda: obs(_load(L.Meas.load_from_file, p, _other_via(via))))]
        return out
    if k == "list":
        lst = _unrat_list(c["list"])
        want = _unrat_list(c["list"])
        cur = _prev_art(L, c, env, "list", L.utils.load_list)
        if cur is None:
            cur = lst
        else:
            cur[:] = lst
        env.prev["list"] = cur
        env.last_path["list"] = p
        L.utils.save_list(cur, _save_path(p, via))
        l2 = _load(L.utils.load_list, p, via)
        out = {"eq": l2 == want and _same_types(l2, want) and l2 == cur}
        _scribble(L, l2)
        def again():
            l3 = _load(L.utils.load_list, p, _other_via(via))
            return {"eq": l3 == want and _same_types(l3, want) and l3 == cur}
        out["again"] = [_guard(again)]
        return out
    if k == "layers":
        layers = [[tuple(x) for x in layer] for layer in c["layers"]]
        want = [[tuple(x) for x in layer] for layer in c["layers"]]
        obj = _prev_art(L, c, env, "layers", L.layouts.load_circuit_layers)
        if obj is None:
            obj = L.layouts.CircuitLayers(layers)
        else:
            _set_list(obj, "layers", layers)
        env.prev["layers"] = obj
        env.last_path["layers"] = p
        L.layouts.save_circuit_layers(obj, _save_path(p, via))

        def obs(l2):
            return {"eq": l2.layers == want and l2.layers == obj.layers, "tuples": all(isinstance(x, tuple) for layer in l2.layers for x in layer),
                    "loaded": [[list(x) for x in layer] for layer in l2.layers]}
        l2 = _load(L.layouts.load_circuit_layers, p, via)
        out = obs(l2)
        _scribble(L, l2)
        out["again"] = [_guard(lambda: obs(_load(L.layouts.load_circuit_layers, p, _other_via(via))))]
        return out
    if k == "conn":
        conn = [tuple(x) for x in c["connectivity"]]
        want = [tuple(x) for x in c["connectivity"]]
        obj = _prev_art(L, c, env, "conn", L.layouts.load_circuit_connectivity)
        if obj is None:
            obj = L.layouts.CircuitConnectivity(conn)
        else:
            _set_list(obj, "connectivity", conn)
        env.prev["conn"] = obj
        env.last_path["conn"] = p
        L.layouts.save_circuit_connectivity(obj, _save_path(p, via))

        def obs(c2):
            return {"eq": c2.connectivity == want and c2.connectivity == obj.connectivity, "tuples": all(isinstance(x, tuple) for x in c2.connectivity),
                    "loaded": [list(x) for x in c2.connectivity]}
        c2 = _load(L.layouts.load_circuit_connectivity, p, via)
        out = obs(c2)
        _scribble(L, c2)
        out["again"] = [_guard(lambda: obs(_load(L.layouts.load_circuit_connectivity, p, _other_via(via))))]
        return out
    if k == "ordering":
        want = list(c["ordering"])
        cur = _prev_art(L, c, env, "ordering", L.layouts.load_circuit_ordering)
        if cur is None:
            cur = list(c["ordering"])
        else:
            cur[:] = list(c["ordering"])
        env.prev["ordering"] = cur
        env.last_path["ordering"] = p
        L.layouts.save_circuit_ordering(cur, _save_path(p, via))
        o2 = _load(L.layouts.load_circuit_ordering, p, via)
        out = {"eq": o2 == want and _same_types(o2, want) and o2 == cur}
        _scribble(L, o2)
        def again():
            o3 = _load(L.layouts.load_circuit_ordering, p, _other_via(via))
            return {"eq": o3 == want and _same_types(o3, want) and o3 == cur}
        out["again"] = [_guard(again)]
        return out
    if k == "nmeas":
        fm = None if c["frame_meas"] is None else carr_build(L, c["frame_meas"])
        K = float(unrat(c["K"]))
        if fm is None:
            L.utils.save_nmeas_estimate(K, c["nterms"], p)
        else:
            L.utils.save_nmeas_estimate(K, c["nterms"], p, fm)
        data = _file_json(p)
        fd = {"K": _num(data["K"]), "nterms": data["nterms"]}
        if "frame_meas" in data:
            fd["frame_meas"] = arrdict_canon(data["frame_meas"])

        def obs():
            try:
                K2, n2, fm2 = L.utils.load_nmeas_estimate(p)
            except KeyError as e:
                return {"loaded": "err:key", "msg": str(e)[:80]}, None
            return {"loaded": {"K": _num(K2), "nterms": n2, "frame_meas": None if fm2 is None else carr_canon(L, fm2)}}, fm2
        o1, fm2 = obs()
        out = dict(o1, file=fd)
        _scribble(L, fm2)
        out["again"] = [_guard(lambda: obs()[0])]
        return out
    raise AssertionError("unknown kind " + str(k))


def _unrat_list(x):
    if isinstance(x, list):
        return [_unrat_list(y) for y in x]
    if isinstance(x, str) and ("/" in x):
        return float(Fraction(x))
    return x


def _same_types(a, b):
    if isinstance(a, list) and isinstance(b, list):
        return len(a) == len(b) and all(_same_types(x, y) for x, y in zip(a, b))
    return type(a) is type(b)


# --------------------------------------------------------------------------- model requests
def _model_terms(orig):
    return [{"ops": t["ops"], "coef": t["coef"]} for t in orig]


def _sums_exact(terms):
    """the left-to-right float sums of like terms are exact (the model adds rationals; see TRUSTED)"""
    acc = {}
    for t in terms:
        key = tuple(sorted((int(q), o) for q, o in t["ops"]))
        re, im = unrat(t["coef"]["re"]), unrat(t["coef"]["im"])
        if key not in acc:
            acc[key] = (re, im)
            continue
        a = acc[key]
        for x, y in ((a[0], re), (a[1], im)):
            if Fraction(float(x) + float(y)) != x + y:
                return False
        acc[key] = (a[0] + re, a[1] + im)
    return True


def requests(c, out):
    k = c["kind"]
    if "exc" in out:
        return []
    if k == "seq":
        rs = []
        for st, o in zip(c["steps"], out["steps"]):
            rs += requests(st, o)
        return rs
    if k == "op":
        if not _sums_exact(out["orig"]):
            return []
        return [("op_to_dict", {"terms": _model_terms(out["orig"])}), ("dict_to_op", {"dict": out["dict2"]})]
    if k == "opset":
        if not all(_sums_exact(o) for o in out["orig"]):
            return []
        return [("op_to_dict", {"terms": _model_terms(o)}) for o in out["orig"]] + [("dict_set_to_ops", {"dicts": out["dicts"]})]
    if k == "text":
        rs = [("repr", {"terms": [{"ops": t["ops"], "text": tx} for t, tx in zip(out["orig"], out["coef_texts"])],
                        "zero_text": "0", "kind": "term" if c.get("single") else "sum"}),
              ("parse_term" if c.get("single") else "parse_sum", {"text": out["text"]})]
        rs += [("coef_law", {"text": tx}) for tx in out["coef_texts"]]
        return rs
    if k == "parse":
        return [("parse_term" if c["as"] == "term" else "parse_sum", {"text": c["text"]})]
    if k == "baddict":
        return [("dict_to_op", {"dict": c["dict"]})]
    if k == "ev":
        return [("ev_to_dict", {"values": c["values"], "correlations": c["correlations"], "covariances": c["covariances"]}),
                ("ev_from_dict", {"dict": out["file"]})]
    if k == "par":
        return [("par_to_dict", {"values": c["values"], "correlations": c["correlations"]}), ("par_from_dict", {"dict": out["file"]})]
    if k == "ve":
        return [("ve_to_dict", {"value": c["value"], "precision": c["precision"]}), ("ve_from_dict", {"dict": out["file"]})]
    if k == "meas":
        return [("meas_to_dict", {"bitstrings": c["bitstrings"]}), ("meas_from_dict", {"dict": out["file"]})]
    if k == "layers":
        return [("layers", {"layers": c["layers"]})]
    if k == "conn":
        return [("connectivity", {"connectivity": c["connectivity"]})]
    if k == "nmeas":
        return [("nmeas_to_dict", {"K": c["K"], "nterms": c["nterms"], "frame_meas": c["frame_meas"]}),
                ("nmeas_from_dict", {"dict": out["file"]})]
    return []


def _norm(j):
    """model JSON -> comparable: rationals as Fractions, dict key order irrelevant"""
    if isinstance(j, dict):
        return {k: _norm(v) for k, v in j.items()}
    if isinstance(j, list):
        return [_norm(v) for v in j]
    if isinstance(j, bool) or j is None:
        return j
    if isinstance(j, int):
        return Fraction(j)
    if isinstance(j, str):
        try:
            return Fraction(j)
        except (ValueError, ZeroDivisionError):
            return j
    return j


def _strip_int(x):
    """drop the generator's markers (int / dtype / layout) from array encodings"""
    if isinstance(x, dict):
        return {k: _strip_int(v) for k, v in x.items() if k not in ("int", "dtype", "layout")}
    if isinstance(x, list):
        return [_strip_int(v) for v in x]
    return x


def _terms_norm(ts, sort_ops=False):
    if isinstance(ts, str):
        return ts
    out = []
    for t in ts:
        ops = [[int(q), o] for q, o in t["ops"]]
        if sort_ops:
            ops = sorted(ops)
        co = t["coef"]
        if isinstance(co, dict):
            # values only: whether a zero imaginary part is carried as float or complex is not part of the property
            co = (unrat(co["re"]), unrat(co["im"]))
        else:
            co = (unrat(co[0]), unrat(co[1]))
        out.append((ops, co))
    return out


def _dict_norm(d):
    return [(sorted((p["qubit"], p["op"]) for p in t["pauli_ops"]),
             (unrat(t["coefficient"]["real"]), unrat(t["coefficient"].get("imag", 0)))) for t in d["terms"]]


def _parsed_matches(model, impl):
    """model coefficients are exact decimals; Python's are the nearest doubles"""
    if isinstance(model, str) or isinstance(impl, str):
        return model == impl
    if len(model) != len(impl):
        return False
    for m, t in zip(model, impl):
        if [[int(q), o] for q, o in m["ops"]] != t["ops"]:
            return False
        mre, mim = unrat(m["coef"][0]), unrat(m["coef"][1])
        try:
            fre, fim = float(mre), float(mim)
        except OverflowError:
            fre, fim = math.copysign(math.inf, mre), math.copysign(math.inf, mim)
        ire, iim = unrat(t["coef"]["re"]), unrat(t["coef"]["im"])
        if not (math.isfinite(fre) and math.isfinite(fim)):
            return False
        if Fraction(fre) != ire or Fraction(fim) != iim:
            return False
    return True


def compare(c, out, resp):
    for r in resp:
        if isinstance(r, dict) and "driver_error" in r:
            return "driver error: " + r["driver_error"]
    k = c["kind"]
    if k == "seq":
        i = 0
        for n, (st, o) in enumerate(zip(c["steps"], out["steps"])):
            m = len(requests(st, o))
            if m:
                msg = compare(st, o, resp[i:i + m])
                if msg:
                    return f"step {n} of the history: {msg}"
            i += m
        return None
    if k == "op":
        if _dict_norm(resp[0]) != _dict_norm(out["dict"]):
            return f"convert_op_to_dict: impl {out['dict']} model {resp[0]}"
        if _dict_norm(out["dict2"]) != _dict_norm(out["dict"]):
            return f"JSON/file changed the dictionary: wrote {out['dict']} read {out['dict2']}"
        if _terms_norm(resp[1]) != _terms_norm(out["loaded"]):
            return f"convert_dict_to_op: impl {out['loaded']} model {resp[1]}"
    elif k == "opset":
        n = len(out["orig"])
        for i in range(n):
            if _dict_norm(resp[i]) != _dict_norm(out["dicts"][i]):
                return f"save_operator_set member {i}: impl {out['dicts'][i]} model {resp[i]}"
        got = resp[n]
        if isinstance(got, str) or len(got) != len(out["loaded"]) or any(_terms_norm(a) != _terms_norm(b) for a, b in zip(got, out["loaded"])):
            return f"load_operator_set: impl {out['loaded']} model {got}"
    elif k == "text":
        if resp[0] != out["text"]:
            return f"__repr__: impl {out['text']!r} model {resp[0]!r}"
        if not _parsed_matches(resp[1], out["parsed"]):
            return f"parser on {out['text']!r}: impl {out['parsed']} model {resp[1]}"
        for tx, val, law in zip(out["coef_texts"], out["coef_vals"], resp[2:]):
            if not (law["ok"] and law["brackets"]):
                return f"text law of str(coefficient) fails for {tx!r}: {law}"
            if law["value"] is None or [Fraction(float(unrat(v))) for v in law["value"]] != [unrat(v) for v in val]:
                return f"complex({tx!r}): python {val} model reader {law['value']}"
    elif k == "parse":
        if out["parsed"] == "err:overflow":
            return None
        if not _parsed_matches(resp[0], out["parsed"]):
            return f"parser on {c['text']!r} as {c['as']}: impl {out['parsed']} model {resp[0]}"
    elif k == "baddict":
        if _terms_norm(resp[0]) != _terms_norm(out["loaded"]):
            return f"convert_dict_to_op on {c['dict']}: impl {out['loaded']} model {resp[0]}"
    elif k in ("ev", "par", "ve", "nmeas", "meas"):
        if _norm(resp[0]) != _norm(out["file"]):
            return f"{k} to_dict/save: file {out['file']} model {resp[0]}"
        if _norm(resp[1]) != _norm(_strip_int(out["loaded"])):
            return f"{k} from_dict/load: impl {out['loaded']} model {resp[1]}"
    elif k in ("layers", "conn"):
        if _norm(resp[0]) != _norm(out["loaded"]):
            return f"{k}: impl {out['loaded']} model {resp[0]}"
    return None


# --------------------------------------------------------------------------- oracle (implementation only)
_P = None


def _pauli_mats(np):
    return {"I": np.eye(2, dtype=complex), "X": np.array([[0, 1], [1, 0]], dtype=complex),
            "Y": np.array([[0, -1j], [1j, 0]], dtype=complex), "Z": np.array([[1, 0], [0, -1]], dtype=complex)}


def _coef_map(terms):
    """key -> exact complex coefficient (pair of Fractions): equal maps <=> equal matrices (Pauli strings are a basis)"""
    m = {}
    for t in terms:
        key = tuple(sorted((int(q), o) for q, o in t["ops"]))
        re, im = unrat(t["coef"]["re"]), unrat(t["coef"]["im"])
        a = m.get(key, (Fraction(0), Fraction(0)))
        m[key] = (a[0] + re, a[1] + im)
    return m


def _matrix(np, terms, n):
    P = _pauli_mats(np)
    M = np.zeros((2 ** n, 2 ** n), dtype=complex)
    for t in terms:
        ops = {int(q): o for q, o in t["ops"]}
        m = np.array([[1.0 + 0j]])
        for q in range(n):
            m = np.kron(m, P[ops.get(q, "I")])
        M = M + complex(float(unrat(t["coef"]["re"])), float(unrat(t["coef"]["im"]))) * m
    return M


def _same_operator(orig, back, tol_abs, rel):
    """None or message; tolerance tol_abs per coefficient plus a relative rounding allowance"""
    a, b = _coef_map(orig), _coef_map(back)
    for key in set(a) | set(b):
        x, y = a.get(key, (0, 0)), b.get(key, (0, 0))
        d = math.hypot(float(x[0] - y[0]), float(x[1] - y[1]))
        scale = max(math.hypot(float(x[0]), float(x[1])), math.hypot(float(y[0]), float(y[1])))
        if d > tol_abs + rel * scale:
            return f"coefficient of {list(key) or 'I'}: {complex(float(x[0]), float(x[1]))} before, {complex(float(y[0]), float(y[1]))} after"
    import numpy as np
    qs = [int(q) for t in orig + back for q, _ in t["ops"]]
    n = (max(qs) + 1) if qs else 1
    if n <= 4:
        A, B = _matrix(np, orig, n), _matrix(np, back, n)
        bound = tol_abs * max(1, len(a)) + rel * max(1.0, float(np.abs(A).max()))
        if float(np.abs(A - B).max()) > bound:
            return f"matrices differ by {float(np.abs(A - B).max())}"
    return None


def _simplified(terms):
    keys = [tuple(sorted((int(q), o) for q, o in t["ops"])) for t in terms]
    if len(set(keys)) != len(keys):
        return False
    for t in terms:
        if math.hypot(float(unrat(t["coef"]["re"])), float(unrat(t["coef"]["im"]))) <= 1.0000001e-8:
            return False
    return True


def _exact_terms(orig, back):
    if len(orig) != len(back):
        return f"{len(orig)} terms before, {len(back)} after"
    for a, b in zip(orig, back):
        if sorted(map(tuple, a["ops"])) != sorted(map(tuple, b["ops"])):
            return f"operators/qubits {a['ops']} became {b['ops']}"
        if unrat(a["coef"]["re"]) != unrat(b["coef"]["re"]) or unrat(a["coef"]["im"]) != unrat(b["coef"]["im"]):
            return f"coefficient {a['coef']} became {b['coef']}"
    return None


def _frames_eq(a, b):
    if a is None or b is None:
        return a is None and b is None
    return len(a) == len(b) and all(_carr_eq(x, y) for x, y in zip(a, b))


def _carr_eq(a, b):
    """np.array_equal on the canonical forms (a complex array with zero imaginary part equals the real one)"""
    if _norm(a["re"]) != _norm(b["re"]):
        return False
    za = a["im"] if a["im"] is not None else _zeros_like(a["re"])
    zb = b["im"] if b["im"] is not None else _zeros_like(b["re"])
    return _norm(za) == _norm(zb)


_WHICH = {"loaded": "", "loaded_again": " (the same dictionary converted / the same file loaded a second time)",
          "loaded_redo": " (the same operator converted again after the caller overwrote the first results)",
          "parsed": "", "parsed_other": " (a printed single term read by the sum parser)",
          "parsed_again": " (printed and parsed again after the caller overwrote the first parse result)"}


def _want_arr(e):
    return _strip_int(e)


def oracle(c, out):
    """None or (signature, message).  A history (`seq`) is judged step by step with the oracle of the step's kind; a
    failure of a later step carries the prefix `hist-` (the same input passes or fails differently without the history)."""
    if c["kind"] != "seq":
        return _oracle_one(c, out)
    if "exc" in out:
        return ("raised-seq", f"history raised {out['exc']}: {out.get('msg', '')}")
    for i, (st, o) in enumerate(zip(c["steps"], out["steps"])):
        r = _oracle_one(st, o)
        if r is not None:
            how = (f"on an object derived from the previous one by the library ({st['derive']})" if st.get("derive") else
                   "on the previous object changed in place through its public attributes" if st.get("inplace") else "on a new object")
            if i == 0:
                return r
            return ("hist-" + r[0], f"step {i} of a history (same file name; {how}; {len(c['steps'])} steps): {r[1]}")
    return None


_REPEAT = ("the library raised when the call was REPEATED (the same dictionary / file / object once more, after the caller had "
           "overwritten the objects returned by the first call)")


def _oracle_one(c, out):
    k = c["kind"]
    if "exc" in out:
        return ("raised-" + k, f"{k} round trip raised {out['exc']}: {out.get('msg', '')}")
    for name in ("loaded_again", "loaded_twice", "loaded_redo", "parsed_again"):
        if isinstance(out.get(name), dict) and "exc" in out[name]:
            return ("repeat-raised-" + k, f"{k} ({c.get('via', 'text')}), {name}: {_REPEAT}: {out[name]['exc']}")
    for j, ob in enumerate(out.get("again", [])):
        if isinstance(ob, dict) and "exc" in ob:
            return ("repeat-raised-" + k, f"{k} ({c.get('via', '')}), observation {j + 1}: {_REPEAT}: {ob['exc']}")
    if k == "op":
        n = max(1, len(out["orig"]))
        for name in ("loaded", "loaded_again", "loaded_redo"):
            if name not in out:
                continue
            msg = _same_operator(out["orig"], out[name], 1e-8 * n, 1e-12)
            if msg:
                return ("op-dict-matrix", f"dict/file round trip ({c['via']}){_WHICH[name]} changed the operator: {msg}")
            if _simplified(out["orig"]):
                msg = _exact_terms(out["orig"], out[name])
                if msg:
                    return ("op-dict-exact", f"simplified operator not preserved exactly through {c['via']}{_WHICH[name]}: {msg}")
        if out["loaded_type"] != "PauliSum":
            return ("op-dict-type", f"loaded object is a {out['loaded_type']}")
        if "loaded_twice" in out and _simplified(out["loaded"]):
            msg = _exact_terms(out["loaded"], out["loaded_twice"])
            if msg:
                return ("op-dict-exact", f"the loaded (simplified) operator is not preserved exactly by one more dict round trip: {msg}")
    elif k == "opset":
        for name in ("loaded", "loaded_again"):
            if name not in out:
                continue
            if len(out["orig"]) != len(out[name]):
                return ("opset-length", f"{len(out['orig'])} operators saved, {len(out[name])} loaded{_WHICH[name]}")
            for i, (a, b) in enumerate(zip(out["orig"], out[name])):
                msg = _same_operator(a, b, 1e-8 * max(1, len(a)), 1e-12)
                if msg:
                    return ("opset-matrix", f"operator {i} of the list changed{_WHICH[name]}: {msg}")
                if _simplified(a):
                    msg = _exact_terms(a, b)
                    if msg:
                        return ("opset-exact", f"simplified operator {i} of the list not preserved exactly{_WHICH[name]}: {msg}")
    elif k == "text":
        for name in ("parsed", "parsed_other", "parsed_again"):
            if name not in out or (name == "parsed_other" and not c.get("single")):
                continue
            text = out["text_again"] if name == "parsed_again" else out["text"]
            if isinstance(out[name], str):
                return ("text-rejected", f"printed text {text!r} is rejected by the parser{_WHICH[name]}: {out.get('msg')}")
            msg = _same_operator(out["orig"], out[name], 0.0, 4e-16)  # repr(float) round-trips exactly: two ulps of slack only
            if msg:
                return ("text-matrix", f"str -> parse changed the operator {text!r}{_WHICH[name]}: {msg}")
    elif k == "ev":
        o = out["orig"]
        want = {"values": _want_arr(c["values"]), "correlations": _want_arr(c["correlations"]), "covariances": _want_arr(c["covariances"])}
        for j, ob in enumerate([out] + out.get("again", [])):
            l = ob["loaded"]
            rep = "" if j == 0 else (" (second load, after the caller overwrote the first result)" if j == 1 else " (to_dict -> from_dict twice on one dictionary)")
            for ref in (o, want):
                if not _carr_eq(ref["values"], l["values"]):
                    return ("ev-values", f"expectation values {ref['values']} loaded as {l['values']}{rep}")
                for key in ("correlations", "covariances"):
                    if ref[key] == [] and l[key] is None:
                        return ("empty-frame-list", f"ExpectationValues.{key} = [] (zero frames) is loaded as None{rep}")
                    if not _frames_eq(ref[key], l[key]):
                        return ("ev-" + key, f"{key} {ref[key]} loaded as {l[key]}{rep}")
    elif k == "par":
        o = out["orig"]
        want = {"values": _want_arr(c["values"]), "correlations": _want_arr(c["correlations"])}
        for j, ob in enumerate([out] + out.get("again", [])):
            l = ob["loaded"]
            rep = "" if j == 0 else (" (second load, after the caller overwrote the first result)" if j == 1 else " (to_dict -> from_dict twice on one dictionary)")
            for ref in (o, want):
                if not _carr_eq(ref["values"], l["values"]) or not ob["int_kept"]:
                    return ("par-values", f"parity values {ref['values']} loaded as {l['values']} (integer dtype kept: {ob['int_kept']}){rep}")
                if ref["correlations"] == [] and l["correlations"] is None:
                    return ("empty-frame-list", f"Parities.correlations = [] (zero frames) is loaded as None{rep}")
                if not _frames_eq(ref["correlations"], l["correlations"]):
                    return ("par-correlations", f"correlations {ref['correlations']} loaded as {l['correlations']}{rep}")
    elif k == "ve":
        want_p = None if c["precision"] is None else unrat(c["precision"])
        for j, ob in enumerate([out] + out.get("again", [])):
            got_p = None if ob["loaded"]["precision"] is None else unrat(ob["loaded"]["precision"])
            if unrat(ob["loaded"]["value"]) != unrat(c["value"]) or want_p != got_p or not ob["eq"] or not ob["type_ok"]:
                return ("value-estimate", f"ValueEstimate({c['value']}, {c['precision']}) loaded as {ob['loaded']} (==: {ob['eq']}; observation {j})")
    elif k == "meas":
        for j, ob in enumerate([out] + out.get("again", [])):
            if not ob["eq"] or not ob["tuples"]:
                return ("measurements", f"bitstrings {_brief(c['bitstrings'])} loaded as {_brief(ob['loaded'])} (tuples: {ob['tuples']}; observation {j})")
    elif k == "list":
        for j, ob in enumerate([out] + out.get("again", [])):
            if not ob["eq"]:
                return ("list", f"list {_brief(c['list'])} not returned equal (observation {j})")
    elif k == "layers":
        for j, ob in enumerate([out] + out.get("again", [])):
            if not ob["eq"] or not ob["tuples"]:
                return ("layers", f"layers {_brief(c['layers'])} loaded as {_brief(ob['loaded'])} (tuples: {ob['tuples']}; observation {j})")
    elif k == "conn":
        for j, ob in enumerate([out] + out.get("again", [])):
            if not ob["eq"] or not ob["tuples"]:
                return ("connectivity", f"connectivity {_brief(c['connectivity'])} loaded as {_brief(ob['loaded'])} (tuples: {ob['tuples']}; observation {j})")
    elif k == "ordering":
        for j, ob in enumerate([out] + out.get("again", [])):
            if not ob["eq"]:
                return ("ordering", f"ordering {_brief(c['ordering'])} not returned equal (observation {j})")
    elif k == "nmeas":
        for j, ob in enumerate([out] + out.get("again", [])):
            if ob["loaded"] == "err:key":
                if c["frame_meas"] is None:
                    return ("nmeas-without-frame-meas", "save_nmeas_estimate(nmeas, nterms, file) with the default frame_meas=None writes a "
                            "file that load_nmeas_estimate rejects with KeyError('frame_meas')")
                return ("nmeas-raise", f"load_nmeas_estimate raised KeyError {ob.get('msg')}")
            l = ob["loaded"]
            if c["frame_meas"] is None or l["frame_meas"] is None:
                fm_ok = c["frame_meas"] is None and l["frame_meas"] is None
            else:
                fm_ok = _carr_eq(_strip_int(c["frame_meas"]), l["frame_meas"])
            if unrat(l["K"]) != unrat(c["K"]) or l["nterms"] != c["nterms"] or type(l["nterms"]) is not int or not fm_ok:
                return ("nmeas", f"nmeas estimate ({c['K']}, {c['nterms']}, {c['frame_meas']}) loaded as {l} (observation {j})")
    return None


def _brief(x, n=300):
    s = str(x)
    return s if len(s) <= n else s[:n] + "…"


def _flat(cases, outs):
    """histories expanded into their steps (for the distribution counts)"""
    for c, o in zip(cases, outs):
        if isinstance(c, dict) and c.get("kind") == "seq" and isinstance(o, dict) and "steps" in o:
            for st, so in zip(c["steps"], o["steps"]):
                yield st, so
        else:
            yield c, o


def distribution(cases, outs):
    kinds = {"int": 0, "float": 0, "complex": 0}
    neg_zero = exp_fmt = multi_digit = constants = merged = rejected = 0
    hist = {"histories": 0, "steps": 0, "inplace_steps": 0, "derived_steps": 0}
    for c in cases:
        if c.get("kind") == "seq":
            hist["histories"] += 1
            hist["steps"] += len(c["steps"])
            hist["inplace_steps"] += sum(1 for st in c["steps"] if st.get("inplace"))
            hist["derived_steps"] += sum(1 for st in c["steps"] if st.get("derive"))
    flat = list(_flat(cases, outs))
    cases = [c for c, _ in flat]
    outs = [o for _, o in flat]
    for c, o in zip(cases, outs):
        if c["kind"] in ("op", "text"):
            for t in c["terms"]:
                kinds[t["coef"]["t"]] += 1
                v = dec_py(t["coef"])
                if "e" in repr(v):
                    exp_fmt += 1
                if "-0" in repr(v) and (v == 0 or (isinstance(v, complex) and (v.real == 0 or v.imag == 0))):
                    neg_zero += 1
                if any(q >= 10 for q, _ in t["ops"]):
                    multi_digit += 1
                if not t["ops"]:
                    constants += 1
            if c["kind"] == "op" and isinstance(o, dict) and "loaded" in o and len(o["loaded"]) < len(c["terms"]):
                merged += 1
        if isinstance(o, dict) and (o.get("parsed") == "err:value" or o.get("loaded") in ("err:value", "err:key")):
            rejected += 1
    return {"coefficient_kinds": kinds, "negative_zero_coefficients": neg_zero, "exponent_format_coefficients": exp_fmt,
            "terms_with_multi_digit_qubit": multi_digit, "constant_terms": constants,
            "operators_merged_or_dropped_terms": merged, "rejected_inputs": rejected, "histories": hist,
            "numpy_typed_coefficients": sum(1 for c in cases if c["kind"] in ("op", "text") for t in c["terms"] if t["coef"].get("np")),
            "largest": {"terms": max([len(c["terms"]) for c in cases if c["kind"] in ("op", "text")] + [0]),
                        "operators_in_a_set": max([len(c["ops"]) for c in cases if c["kind"] == "opset"] + [0]),
                        "shots": max([len(c["bitstrings"]) for c in cases if c["kind"] == "meas"] + [0]),
                        "register_width": max([len(c["bitstrings"][0]) for c in cases if c["kind"] == "meas" and c["bitstrings"]] + [0])},
            "via": {v: sum(1 for c in cases if c.get("via") == v) for v in ("dict", "json", "file", "fileobj", "path", "stringio", "binary", "pathlib")}}
