"""C11 — operators and result artefacts survive dict, file and text round trips."""
import io
import itertools
import json as std_json
import math
import os
import shutil
import tempfile
from fractions import Fraction

from .. import common
from ..common import rat, unrat

PROP = "C11"
RULE = ("seeded random Pauli terms/sums (int, float, complex, negative zero, 1e-12..1e14, exponent-format, "
        "multi-digit qubits, duplicates, near-zero terms, constants, the empty sum) through dict / rapidjson text / "
        "save_+load_ files (path and open file) / operator lists / str()->PauliTerm|PauliSum; hand-written and "
        "malformed texts and dictionaries for the parser and convert_dict_to_op; every persisted artefact "
        "(Measurements, ExpectationValues, Parities, ValueEstimate, list, layers, connectivity, ordering, nmeas) "
        "through its save_/load_ pair by path and by open file.  non-trivial: operator case with a complex or "
        "exponent-format coefficient or a constant term; artefact case with >=1 frame / non-empty payload; "
        "distinct = distinct canonical JSON of the case")
TRUSTED = [
    "json / rapidjson read back the dictionary they wrote (finite doubles exactly, ints exactly, tuples as lists, "
    "None as null): hypothesis `de (ser d) = some (norm d)` of save_load_operator / save_then_load",
    "str(c) / complex(text) on int, float, complex of magnitude < 1e15: the text has no '*', no blank, a '+' only "
    "inside brackets, brackets iff both parts are non-zero, and complex(str(c)) has the value of c (CoefLaw); the "
    "structural parts are re-checked on every generated coefficient by the driver op coef_law",
    "frozenset iteration of term.operations is some permutation of the dict items (hypothesis `order`)",
    "ndarray.tolist() / np.array() are mutually inverse on non-zero-size arrays and tolist() of such an array is a "
    "non-empty (truthy) list; array + 1j*imag has real part array and imaginary part imag (hypotheses hback/htruthy)",
    "np.isclose(c, 0.0) is |c| <= 1e-8 (the abstract predicate negl of the theorems; instantiated exactly in the driver)",
    "float sums of like terms are compared on dyadic coefficients only (exact in doubles)",
]
ASSUMPTIONS = [
    "coefficients are Python int / float / complex with magnitude < 1e15 (the quantifier of the property)",
    "arrays have at least one element (a zero-size array loses its shape through tolist(); outside the property)",
    "a path is a str (the loaders test isinstance(file, str)); load_nmeas_estimate takes a path only, by its signature",
    "the parser model is ASCII: whitespace = space,\\t,\\n,\\r,\\v,\\f; re.I is ASCII case folding; the driver's reader "
    "of complex literals covers finite decimal literals (no inf/nan/underscores)",
]

PAULIS = "XYZ"


# --------------------------------------------------------------------------- library access
def _lib():
    common.use_repo()
    import numpy as np
    import rapidjson
    from orquestra.quantum.operators import PauliSum, PauliTerm
    from orquestra.quantum.operators import _io as opio
    from orquestra.quantum.measurements import ExpectationValues, Measurements, Parities
    from orquestra.quantum.measurements import expectation_values as evm
    from orquestra.quantum.measurements import parities as parm
    from orquestra.quantum import utils
    from orquestra.quantum.circuits import layouts

    class L:
        pass

    L.np, L.rapidjson, L.PauliSum, L.PauliTerm, L.opio = np, rapidjson, PauliSum, PauliTerm, opio
    L.EV, L.Meas, L.Par, L.evm, L.parm, L.utils, L.layouts = ExpectationValues, Measurements, Parities, evm, parm, utils, layouts
    return L


# --------------------------------------------------------------------------- coefficient encoding
def _num(x):
    """canonical exact JSON of a Python real (int or finite float)"""
    return rat(Fraction(x))


def enc_coef(c):
    """case-file encoding of a coefficient object (exact; keeps type and signed zeros)"""
    if isinstance(c, complex):
        return {"t": "complex", "re": c.real.hex(), "im": c.imag.hex()}
    if isinstance(c, float):
        return {"t": "float", "re": c.hex()}
    return {"t": "int", "re": int(c)}


def dec_coef(e):
    if e["t"] == "complex":
        return complex(float.fromhex(e["re"]), float.fromhex(e["im"]))
    if e["t"] == "float":
        return float.fromhex(e["re"])
    return int(e["re"])


def coef_canon(c):
    """value + complex-ness of a coefficient as the model sees it"""
    if isinstance(c, complex):
        return {"re": _num(c.real), "im": _num(c.imag), "cplx": True}
    return {"re": _num(c), "im": 0, "cplx": False}


def build_op(L, case):
    terms = [L.PauliTerm({int(q): o for q, o in t["ops"]}, dec_coef(t["coef"])) for t in case["terms"]]
    if case.get("single"):
        return terms[0]
    return L.PauliSum(terms)


def term_canon(t):
    return {"ops": [[int(q), o] for q, o in t._ops.items()], "coef": coef_canon(t.coefficient)}


def dict_canon(d):
    """the library's operator dictionary with exact numbers"""
    out = {"terms": []}
    for td in d["terms"]:
        c = {"real": _num(td["coefficient"]["real"])}
        if "imag" in td["coefficient"]:
            c["imag"] = _num(td["coefficient"]["imag"])
        out["terms"].append({"pauli_ops": [{"qubit": int(p["qubit"]), "op": p["op"]} for p in td["pauli_ops"]],
                             "coefficient": c})
    return out


# --------------------------------------------------------------------------- array encoding
def nest_canon(x):
    if isinstance(x, list):
        return [nest_canon(y) for y in x]
    return _num(x)


def carr_canon(L, a):
    a = L.np.asarray(a)
    if L.np.iscomplexobj(a):
        return {"re": nest_canon(a.real.tolist()), "im": nest_canon(a.imag.tolist())}
    return {"re": nest_canon(a.tolist()), "im": None}


def carr_build(L, e):
    re = L.np.array(_unnest(e["re"], e.get("int", False)))
    if e.get("im") is not None:
        return re + 1j * L.np.array(_unnest(e["im"], False))
    return re


def _unnest(x, as_int):
    if isinstance(x, list):
        return [_unnest(y, as_int) for y in x]
    f = unrat(x)
    return int(f) if as_int else float(f)


def arrdict_canon(d):
    out = {"real": nest_canon(d["real"])}
    if "imag" in d:
        out["imag"] = nest_canon(d["imag"])
    return out


def frames_canon(L, fr):
    return None if fr is None else [carr_canon(L, a) for a in fr]


# --------------------------------------------------------------------------- corpus
def _t(ops, c):
    return {"ops": [[q, o] for q, o in ops], "coef": enc_coef(c)}


def corpus():
    z = [
        # F3 (fixed, 74495c0): the printed constant term `2.0*I` was rejected by the parser
        {"kind": "text", "terms": [_t([], 2.0)], "single": True},
        {"kind": "text", "terms": [_t([(0, "Z"), (12, "X")], 1 + 2j), _t([], -0.5), _t([(3, "Y")], 1e-12)]},
        {"kind": "text", "terms": []},
        {"kind": "text", "terms": [_t([(0, "Z")], complex(-0.0, 2.0)), _t([(1, "X")], -2j), _t([(123, "Y")], 123456789012345.0)]},
        {"kind": "op", "via": "file", "terms": [_t([(0, "Z"), (12, "X")], 0.5 - 3j), _t([], -2)]},
        {"kind": "op", "via": "json", "terms": [_t([(3, "Y")], 1.0), _t([(1, "X")], 1e-12), _t([(3, "Y")], complex(0.25, 0.0))]},
        {"kind": "op", "via": "dict", "terms": [_t([(0, "Z")], 1.0), _t([(0, "Z")], -1.0), _t([(1, "X")], 2.0), _t([(0, "Z")], 1.0)]},
        {"kind": "op", "via": "fileobj", "terms": []},
        {"kind": "opset", "via": "file", "ops": [[_t([(0, "X")], 1j)], [], [_t([], 3)]]},
        {"kind": "parse", "text": " 2.5 * z3 * X1 ", "as": "term"},
        {"kind": "parse", "text": "1+2j*Z0", "as": "term"},
        {"kind": "parse", "text": "Z0*Z0", "as": "term"},
        {"kind": "parse", "text": "1e+16*Z0", "as": "sum"},
        {"kind": "baddict", "dict": {"terms": [{"pauli_ops": [{"qubit": 1, "op": "X"}, {"qubit": 1, "op": "Y"}], "coefficient": {"real": 1}}]}},
        {"kind": "ev", "via": "path", "values": {"re": [0, 0, -1], "im": None},
         "correlations": [{"re": [[1, -1], [-1, 1]], "im": None}, {"re": [[1]], "im": None}],
         "covariances": [{"re": [["1/8", "-1/8"], ["-1/8", "1/8"]], "im": [[0, "1/2"], ["-1/2", 0]]}]},
        {"kind": "ev", "via": "fileobj", "values": {"re": [1, 2], "im": [0, 0]}, "correlations": None, "covariances": None},
        # fixed 060d7df: frames given as an empty list used to come back as None
        {"kind": "ev", "via": "path", "values": {"re": [1, 2], "im": None}, "correlations": [], "covariances": None},
        {"kind": "par", "via": "path", "values": {"re": [[18, 50], [120, 113]], "im": None, "int": True}, "correlations": []},
        {"kind": "par", "via": "fileobj", "values": {"re": [[18, 50], [120, 113]], "im": None, "int": True},
         "correlations": [{"re": [[[1, 2], [3, 4]], [[5, 6], [7, 8]]], "im": None, "int": True}]},
        {"kind": "ve", "via": "path", "value": "3/2", "precision": None, "np": False},
        {"kind": "ve", "via": "fileobj", "value": "-1/4", "precision": "1/1024", "np": True},
        {"kind": "meas", "via": "path", "bitstrings": [[0, 1], [1, 1], [0, 1]], "np": False},
        {"kind": "meas", "via": "fileobj", "bitstrings": [], "np": False},
        {"kind": "list", "via": "path", "list": [1, "1/2", [2, 3], "a"]},
        {"kind": "layers", "via": "path", "layers": [[[0, 1], [2, 3]], [[1, 2]]]},
        {"kind": "conn", "via": "fileobj", "connectivity": [[0, 1], [1, 2], [10, 11]]},
        {"kind": "ordering", "via": "path", "ordering": [3, 0, 2, 1]},
        {"kind": "nmeas", "K": "7/2", "nterms": 4, "frame_meas": {"re": [1, 2], "im": None}},
        # fixed 4422d44: saved with the default frame_meas=None the loader used to raise KeyError
        {"kind": "nmeas", "K": "7/2", "nterms": 4, "frame_meas": None},
    ]
    return z


# --------------------------------------------------------------------------- generators
def gen_coef(rng, exact):
    """exact=True: dyadic values whose sums are exact in doubles"""
    def dy():
        return rng.randrange(-2 ** 12, 2 ** 12) / 2 ** rng.randrange(0, 8)

    def real_any():
        r = rng.random()
        if r < 0.35:
            return dy()
        if r < 0.45:
            return rng.choice([0.0, -0.0, 1.0, -1.0])
        if r < 0.6:
            return rng.choice([1e-12, -1e-12, 3e-9, 1e-8, -1e-8, 1.5e-7, 2.5e-8, 1e-5, 5e-324, 1e-300])
        if r < 0.75:
            return rng.choice([1e14, -1e14, 123456789012345.0, 999999999999999.0, 9.99e14, 1e13 + 0.5, 4503599627370497.0 / 8])
        if r < 0.9:
            return rng.uniform(-10, 10)
        return rng.uniform(-1, 1) * 10.0 ** rng.randrange(-12, 15)

    kind = rng.random()
    if exact:
        if kind < 0.2:
            return rng.randrange(-50, 50)
        if kind < 0.6:
            return dy()
        return complex(dy(), rng.choice([0.0, -0.0, dy(), dy()]))
    if kind < 0.2:
        return rng.choice([0, 1, -1, 2, -7, 10 ** 15 - 1, -(10 ** 15 - 1), rng.randrange(-10 ** 6, 10 ** 6), rng.randrange(-10 ** 14, 10 ** 14)])
    if kind < 0.55:
        return real_any()
    re, im = real_any(), real_any()
    r = rng.random()
    if r < 0.15:
        re = rng.choice([0.0, -0.0])
    elif r < 0.3:
        im = rng.choice([0.0, -0.0])
    c = complex(re, im)
    if abs(c) >= 1e15:
        c = complex(re / 2, im / 2)
    # keep complex magnitudes away from the 1e-8 boundary (hypot rounding)
    if 5e-9 < abs(c) < 2e-8:
        c = complex(re * 4, im * 4)
    return c


def gen_ops(rng, small):
    k = rng.choice([0, 1, 1, 2, 2, 3, 4])
    pool = list(range(4)) if small else [0, 1, 2, 3, 7, 10, 12, 99, 100, 123, 1000, 4096]
    qs = rng.sample(pool, min(k, len(pool)))
    return [[q, rng.choice(PAULIS)] for q in qs]


def gen_operator(rng, allow_dups):
    small = rng.random() < 0.5
    n = rng.choice([0, 1, 1, 2, 3, 4, 6])
    exact = allow_dups and rng.random() < 0.6
    terms = []
    keys = []
    for _ in range(n):
        if exact and keys and rng.random() < 0.4:
            ops = [list(p) for p in rng.choice(keys)]
            rng.shuffle(ops)  # same set, other insertion order
        else:
            ops = gen_ops(rng, small)
            if not exact and any(sorted(map(tuple, ops)) == sorted(map(tuple, k)) for k in keys):
                continue
        keys.append(ops)
        terms.append({"ops": ops, "coef": enc_coef(gen_coef(rng, exact))})
    if exact and terms and rng.random() < 0.3:
        # an exactly cancelling partner
        t = rng.choice(terms)
        c = dec_coef(t["coef"])
        terms.append({"ops": [list(p) for p in t["ops"]], "coef": enc_coef(-c)})
    return terms


def gen_nested(rng, shape, kind):
    if not shape:
        if kind == "int":
            return rng.randrange(0, 500)
        r = rng.random()
        if r < 0.5:
            return rat(Fraction(rng.randrange(-2 ** 10, 2 ** 10), 2 ** rng.randrange(0, 6)))
        if r < 0.6:
            return 0
        return rat(Fraction(rng.choice([rng.uniform(-1, 1), 1e-300, 1e300, 0.1, -1e-12, 12345.678])))
    return [gen_nested(rng, shape[1:], kind) for _ in range(shape[0])]


def gen_carr(rng, shape, kind="float", cplx=None):
    if cplx is None:
        cplx = kind != "int" and rng.random() < 0.4
    a = {"re": gen_nested(rng, shape, kind), "im": gen_nested(rng, shape, "float") if cplx else None}
    if cplx and rng.random() < 0.3:
        a["im"] = _zeros_like(a["im"])  # complex dtype with all-zero imaginary part
    if kind == "int":
        a["int"] = True
    return a


def _zeros_like(x):
    return [_zeros_like(y) for y in x] if isinstance(x, list) else 0


def gen_frames(rng, mk):
    r = rng.random()
    if r < 0.2:
        return None
    if r < 0.27:
        return []
    return [mk() for _ in range(rng.choice([1, 1, 2, 3]))]


FREE_TEXTS = [
    "Z0", "X1*Y2", "2*Z0", "2.5*z3*x1", " 3 * X1 ", "(1+2j) * Y2", "(1+2j)*Y2 + 3*Z1", "1+2j*Z0", "", "Z", "Z-1", "1e5*Z0",
    "j*Z0", ".5*X0", "5.*X0", "Z0*Z0", "Z0*X0", "I0", "I", "2*I", "X1*I", "I*X1", "Z0\n", "Z0 ", "\tZ0", "Z0 +", "+Z0", "Z0++X1",
    "Z0 + X1", "Z0+X1", "(1-2j)*Z0+(3+4j)*X1", "(1+0j)*Z0", "1j*Z0", "-1j*Z0", "(-0-2j)*Z0", "2*3*Z0", "Z0*2", "Q0", "Z0x", "z007",
    "Z 0", "Z0 * * X1", "*Z0", "Z0*", "1e-12*I + 1e-12*I", "(1+2j)", "(1+2j)*I", "1 + 2j*Z0", "(1 + 2j)*Z0", "( 1+2j )*Z0",
    "0x10*Z0", "1e+3*Z0", "1e+3*Z0 + X1", "(1e+3+2j)*Z0 + X1", "2)*Z0 + (3*X1", "Z0 + (X1",
    "Z12345678901234567890", "-Z0", "+2*Z0", "- 2*Z0", "2.*Z0*Y0", "X0*y0", "(2)*Z0", "((2))*Z0", "2j", "j", "(j)*X1",
    "1e-400*Z0", "00012*Z003", "2e0*Z0", "2E0*Z0", "2J*Z0", "(1+J)*Z0", "(1-j)*Z0", "1+j*Z0", "Z0 + 1e5", "3",
]


def generate(rng, tier):
    big = tier == "thorough"
    mul = 8 if big else 1
    cases = []
    vias = ["dict", "json", "file", "fileobj"]
    for i in range(120 * mul):
        terms = gen_operator(rng, allow_dups=True)
        c = {"kind": "op", "via": vias[i % 4], "terms": terms}
        if len(terms) == 1 and rng.random() < 0.5:
            c["single"] = True
        cases.append(c)
    for i in range(25 * mul):
        ops = [gen_operator(rng, allow_dups=True) for _ in range(rng.choice([0, 1, 2, 3]))]
        cases.append({"kind": "opset", "via": ["file", "fileobj"][i % 2], "ops": ops})
    for _ in range(130 * mul):
        terms = gen_operator(rng, allow_dups=rng.random() < 0.3)
        c = {"kind": "text", "terms": terms}
        if len(terms) == 1 and rng.random() < 0.5:
            c["single"] = True
        cases.append(c)
    for tx in FREE_TEXTS:
        cases.append({"kind": "parse", "text": tx, "as": "term"})
        cases.append({"kind": "parse", "text": tx, "as": "sum"})
    for _ in range(30 * mul):
        # random assemblies of plausible fragments
        frag = ["Z0", "X12", "y3", "I", "I4", "2", "-2.5", "1e-7", "(1+2j)", "(3-1e-5j)", "2j", " ", " ", "*", "*", "+", "+", " + ", "(", ")"]
        tx = "".join(rng.choice(frag) for _ in range(rng.randrange(1, 9)))
        cases.append({"kind": "parse", "text": tx, "as": rng.choice(["term", "sum"])})
    for _ in range(20 * mul):
        # malformed / unusual dictionaries for convert_dict_to_op
        nt = rng.randrange(1, 4)
        terms = []
        for _ in range(nt):
            nq = rng.randrange(0, 4)
            pops = [{"qubit": rng.choice([0, 1, 2, 2, 3, -1, 15]), "op": rng.choice(["X", "Y", "Z", "I", "I", "Q"])} for _ in range(nq)]
            co = {"real": rat(Fraction(rng.randrange(-64, 64), 8))}
            if rng.random() < 0.5:
                co["imag"] = rng.choice([0, rat(Fraction(rng.randrange(-64, 64), 8))])
            terms.append({"pauli_ops": pops, "coefficient": co})
        cases.append({"kind": "baddict", "dict": {"terms": terms}})
    pv = ["path", "fileobj"]
    for i in range(40 * mul):
        n = rng.randrange(1, 5)
        cplx = rng.random() < 0.4

        def mk():
            m = rng.randrange(1, 4)
            return gen_carr(rng, [m, m], cplx=rng.random() < 0.5)
        cases.append({"kind": "ev", "via": pv[i % 2], "values": gen_carr(rng, [n], cplx=cplx),
                      "correlations": gen_frames(rng, mk), "covariances": gen_frames(rng, mk)})
    for i in range(25 * mul):
        n = rng.randrange(1, 5)

        def mkp():
            m = rng.randrange(1, 4)
            return gen_carr(rng, [m, m, 2], kind=rng.choice(["int", "float"]), cplx=False)
        cases.append({"kind": "par", "via": pv[i % 2], "values": gen_carr(rng, [n, 2], kind=rng.choice(["int", "int", "float"]), cplx=False),
                      "correlations": gen_frames(rng, mkp)})
    for i in range(20 * mul):
        prec = rng.choice([None, None, rat(Fraction(rng.randrange(1, 1000), 2 ** 12)), rat(Fraction(rng.uniform(0, 1))), 0])
        val = rng.choice([rat(Fraction(rng.uniform(-5, 5))), rat(Fraction(rng.randrange(-100, 100), 16)), 0, rat(Fraction(1e-300)), rat(Fraction(-1e300))])
        cases.append({"kind": "ve", "via": pv[i % 2], "value": val, "precision": prec, "np": rng.random() < 0.4})
    for i in range(25 * mul):
        w = rng.randrange(0, 6)
        bs = [[rng.randrange(2) for _ in range(w)] for _ in range(rng.choice([0, 1, 2, 5, 9]))]
        cases.append({"kind": "meas", "via": pv[i % 2], "bitstrings": bs, "np": rng.random() < 0.3})
    for i in range(15 * mul):
        def item(d=0):
            r = rng.random()
            if r < 0.3:
                return rng.randrange(-1000, 1000)
            if r < 0.6:
                return rat(Fraction(rng.uniform(-3, 3)))
            if r < 0.75:
                return rng.choice(["a", "", "0110", "x y"])
            if d < 2:
                return [item(d + 1) for _ in range(rng.randrange(0, 4))]
            return 0
        cases.append({"kind": "list", "via": pv[i % 2], "list": [item() for _ in range(rng.randrange(0, 6))]})
    for i in range(15 * mul):
        layers = [[rng.sample(range(12), rng.choice([2, 2, 3])) for _ in range(rng.randrange(0, 4))] for _ in range(rng.randrange(0, 4))]
        cases.append({"kind": "layers", "via": pv[i % 2], "layers": layers})
        conn = [rng.sample(range(20), rng.choice([2, 2, 3])) for _ in range(rng.randrange(0, 6))]
        cases.append({"kind": "conn", "via": pv[(i + 1) % 2], "connectivity": conn})
        order = list(range(rng.randrange(0, 8)))
        rng.shuffle(order)
        cases.append({"kind": "ordering", "via": pv[i % 2], "ordering": order})
    for i in range(12 * mul):
        fm = None if rng.random() < 0.15 else gen_carr(rng, [rng.randrange(1, 5)], cplx=False)
        cases.append({"kind": "nmeas", "K": rat(Fraction(rng.uniform(0, 1e6))), "nterms": rng.randrange(0, 50), "frame_meas": fm})
    return cases


def nontrivial(c):
    k = c["kind"]
    if k in ("op", "text"):
        def exp_fmt(e):
            return e["t"] != "int" and ("e" in repr(dec_coef(e)))
        return any(t["coef"]["t"] == "complex" or exp_fmt(t["coef"]) or not t["ops"] for t in c["terms"])
    if k == "opset":
        return any(any(t["coef"]["t"] == "complex" or not t["ops"] for t in o) for o in c["ops"])
    if k in ("parse", "baddict"):
        return True
    if k == "ev":
        return bool(c["correlations"]) or bool(c["covariances"])
    if k == "par":
        return bool(c["correlations"])
    if k == "ve":
        return c["precision"] is not None
    if k == "meas":
        return len(c["bitstrings"]) >= 2
    if k in ("list", "layers", "conn", "ordering"):
        return bool(c.get("list") or c.get("layers") or c.get("connectivity") or c.get("ordering"))
    if k == "nmeas":
        return True
    return False


# --------------------------------------------------------------------------- implementation side
class _Tmp:
    def __enter__(self):
        self.d = tempfile.mkdtemp(prefix="oq_c11_")
        return os.path.join(self.d, "artefact.json")

    def __exit__(self, *a):
        shutil.rmtree(self.d, ignore_errors=True)


def _load(loader, path, via):
    if via == "fileobj":
        with open(path, "r") as f:
            return loader(f)
    return loader(path)


def _file_json(path):
    with open(path) as f:
        return std_json.load(f)


def run_impl(c):
    L = _lib()
    np = L.np
    k = c["kind"]
    if k == "op":
        op = build_op(L, c)
        orig = [term_canon(t) for t in op.terms]
        d = L.opio.convert_op_to_dict(op)
        out = {"orig": orig, "dict": dict_canon(d)}
        via = c["via"]
        if via == "dict":
            d2 = d
            op2 = L.opio.convert_dict_to_op(d)
        elif via == "json":
            d2 = L.rapidjson.loads(L.rapidjson.dumps(d))
            op2 = L.opio.convert_dict_to_op(d2)
        else:
            with _Tmp() as p:
                L.opio.save_operator(op, p)
                d2 = _file_json(p)
                op2 = _load(L.opio.load_operator, p, via)
        out["dict2"] = dict_canon(d2)
        out["loaded"] = [term_canon(t) for t in op2.terms]
        out["loaded_type"] = type(op2).__name__
        return out
    if k == "opset":
        ops = [build_op(L, {"terms": o}) for o in c["ops"]]
        with _Tmp() as p:
            L.opio.save_operator_set(ops, p)
            data = _file_json(p)
            ops2 = _load(L.opio.load_operator_set, p, c["via"])
        return {"orig": [[term_canon(t) for t in o.terms] for o in ops],
                "dicts": [dict_canon(d) for d in data["operators"]],
                "loaded": [[term_canon(t) for t in o.terms] for o in ops2]}
    if k == "text":
        op = build_op(L, c)
        text = str(op)
        out = {"orig": [term_canon(t) for t in op.terms], "text": text,
               "coef_texts": [str(t.coefficient) for t in op.terms],
               "coef_vals": [[_num(complex(t.coefficient).real), _num(complex(t.coefficient).imag)] for t in op.terms]}
        try:
            if c.get("single"):
                back = L.PauliTerm(text)
                out["parsed"] = [term_canon(back)]
            else:
                back = L.PauliSum(text)
                out["parsed"] = [term_canon(t) for t in back.terms]
        except ValueError as e:
            out["parsed"] = "err:value"
            out["msg"] = str(e)[:120]
        return out
    if k == "parse":
        try:
            if c["as"] == "term":
                return {"parsed": [term_canon(L.PauliTerm(c["text"]))]}
            return {"parsed": [term_canon(t) for t in L.PauliSum(c["text"]).terms]}
        except ValueError as e:
            return {"parsed": "err:value", "msg": str(e)[:120]}
        except OverflowError as e:  # complex("1e400") does not overflow, int() may not; recorded, not expected
            return {"parsed": "err:overflow", "msg": str(e)[:120]}
    if k == "baddict":
        d = {"terms": [{"pauli_ops": [dict(p) for p in t["pauli_ops"]],
                        "coefficient": {kk: float(unrat(v)) for kk, v in t["coefficient"].items()}} for t in c["dict"]["terms"]]}
        try:
            op2 = L.opio.convert_dict_to_op(d)
            return {"loaded": [term_canon(t) for t in op2.terms]}
        except ValueError as e:
            return {"loaded": "err:value", "msg": str(e)[:120]}
    if k == "ev":
        corr = None if c["correlations"] is None else [carr_build(L, a) for a in c["correlations"]]
        cov = None if c["covariances"] is None else [carr_build(L, a) for a in c["covariances"]]
        ev = L.EV(carr_build(L, c["values"]), corr, cov)
        with _Tmp() as p:
            L.evm.save_expectation_values(ev, p)
            data = _file_json(p)
            ev2 = _load(L.evm.load_expectation_values, p, c["via"])
        fd = {"frames": data.get("frames"), "expectation_values": arrdict_canon(data["expectation_values"])}
        for key in ("correlations", "estimator_covariances"):
            if key in data:
                fd[key] = [arrdict_canon(x) for x in data[key]]
        return {"file": fd, "loaded": {"values": carr_canon(L, ev2.values), "correlations": frames_canon(L, ev2.correlations),
                                       "covariances": frames_canon(L, ev2.estimator_covariances)},
                "orig": {"values": carr_canon(L, ev.values), "correlations": frames_canon(L, ev.correlations),
                         "covariances": frames_canon(L, ev.estimator_covariances)}}
    if k == "par":
        corr = None if c["correlations"] is None else [carr_build(L, a) for a in c["correlations"]]
        par = L.Par(carr_build(L, c["values"]), corr)
        with _Tmp() as p:
            L.parm.save_parities(par, p)
            data = _file_json(p)
            par2 = _load(L.parm.load_parities, p, c["via"])
        fd = {"values": arrdict_canon(data["values"])}
        if "correlations" in data:
            fd["correlations"] = [arrdict_canon(x) for x in data["correlations"]]
        return {"file": fd, "loaded": {"values": carr_canon(L, par2.values), "correlations": frames_canon(L, par2.correlations)},
                "orig": {"values": carr_canon(L, par.values), "correlations": frames_canon(L, par.correlations)},
                "int_kept": bool(np.issubdtype(par2.values.dtype, np.integer)) == bool(np.issubdtype(par.values.dtype, np.integer))}
    if k == "ve":
        val = float(unrat(c["value"]))
        prec = None if c["precision"] is None else float(unrat(c["precision"]))
        if c.get("np"):
            val = np.float64(val)
            prec = None if prec is None else np.float64(prec)
        ve = L.utils.ValueEstimate(val, prec)
        with _Tmp() as p:
            L.utils.save_value_estimate(ve, p)
            data = _file_json(p)
            ve2 = _load(L.utils.load_value_estimate, p, c["via"])
        fd = {"value": _num(data["value"])}
        if "precision" in data:
            fd["precision"] = None if data["precision"] is None else _num(data["precision"])
        return {"file": fd, "loaded": {"value": _num(float(ve2)), "precision": None if ve2.precision is None else _num(ve2.precision)},
                "eq": bool(ve2 == ve), "type_ok": isinstance(ve2, L.utils.ValueEstimate)}
    if k == "meas":
        if c.get("np"):
            bs = [tuple(np.int8(b) for b in t) for t in c["bitstrings"]]
        else:
            bs = [tuple(t) for t in c["bitstrings"]]
        m = L.Meas(list(bs))
        with _Tmp() as p:
            m.save(p)
            data = _file_json(p)
            m2 = _load(L.Meas.load_from_file, p, c["via"])
        return {"file": {"counts": [[kk, v] for kk, v in data["counts"].items()], "bitstrings": data["bitstrings"]},
                "loaded": [[int(b) for b in t] for t in m2.bitstrings],
                "tuples": all(isinstance(t, tuple) for t in m2.bitstrings),
                "eq": [tuple(int(b) for b in t) for t in m2.bitstrings] == [tuple(int(b) for b in t) for t in bs] and isinstance(m2.bitstrings, list)}
    if k == "list":
        lst = _unrat_list(c["list"])
        with _Tmp() as p:
            L.utils.save_list(lst, p)
            l2 = _load(L.utils.load_list, p, c["via"])
        return {"eq": l2 == lst and _same_types(l2, lst)}
    if k == "layers":
        layers = [[tuple(x) for x in layer] for layer in c["layers"]]
        with _Tmp() as p:
            L.layouts.save_circuit_layers(L.layouts.CircuitLayers(layers), p)
            l2 = _load(L.layouts.load_circuit_layers, p, c["via"])
        return {"eq": l2.layers == layers, "tuples": all(isinstance(x, tuple) for layer in l2.layers for x in layer),
                "loaded": [[list(x) for x in layer] for layer in l2.layers]}
    if k == "conn":
        conn = [tuple(x) for x in c["connectivity"]]
        with _Tmp() as p:
            L.layouts.save_circuit_connectivity(L.layouts.CircuitConnectivity(conn), p)
            c2 = _load(L.layouts.load_circuit_connectivity, p, c["via"])
        return {"eq": c2.connectivity == conn, "tuples": all(isinstance(x, tuple) for x in c2.connectivity),
                "loaded": [list(x) for x in c2.connectivity]}
    if k == "ordering":
        with _Tmp() as p:
            L.layouts.save_circuit_ordering(list(c["ordering"]), p)
            o2 = _load(L.layouts.load_circuit_ordering, p, c["via"])
        return {"eq": o2 == c["ordering"]}
    if k == "nmeas":
        fm = None if c["frame_meas"] is None else carr_build(L, c["frame_meas"])
        K = float(unrat(c["K"]))
        with _Tmp() as p:
            if fm is None:
                L.utils.save_nmeas_estimate(K, c["nterms"], p)
            else:
                L.utils.save_nmeas_estimate(K, c["nterms"], p, fm)
            data = _file_json(p)
            fd = {"K": _num(data["K"]), "nterms": data["nterms"]}
            if "frame_meas" in data:
                fd["frame_meas"] = arrdict_canon(data["frame_meas"])
            try:
                K2, n2, fm2 = L.utils.load_nmeas_estimate(p)
            except KeyError as e:
                return {"file": fd, "loaded": "err:key", "msg": str(e)[:80]}
        return {"file": fd, "loaded": {"K": _num(K2), "nterms": n2, "frame_meas": None if fm2 is None else carr_canon(L, fm2)}}
    raise AssertionError("unknown kind " + str(k))


def _unrat_list(x):
    if isinstance(x, list):
        return [_unrat_list(y) for y in x]
    if isinstance(x, str) and ("/" in x):
        return float(Fraction(x))
    return x


def _same_types(a, b):
    if isinstance(a, list) and isinstance(b, list):
        return len(a) == len(b) and all(_same_types(x, y) for x, y in zip(a, b))
    return type(a) is type(b)


# --------------------------------------------------------------------------- model requests
def _model_terms(orig):
    return [{"ops": t["ops"], "coef": t["coef"]} for t in orig]


def requests(c, out):
    k = c["kind"]
    if "exc" in out:
        return []
    if k == "op":
        return [("op_to_dict", {"terms": _model_terms(out["orig"])}), ("dict_to_op", {"dict": out["dict2"]})]
    if k == "opset":
        return [("op_to_dict", {"terms": _model_terms(o)}) for o in out["orig"]] + [("dict_set_to_ops", {"dicts": out["dicts"]})]
    if k == "text":
        rs = [("repr", {"terms": [{"ops": t["ops"], "text": tx} for t, tx in zip(out["orig"], out["coef_texts"])],
                        "zero_text": "0", "kind": "term" if c.get("single") else "sum"}),
              ("parse_term" if c.get("single") else "parse_sum", {"text": out["text"]})]
        rs += [("coef_law", {"text": tx}) for tx in out["coef_texts"]]
        return rs
    if k == "parse":
        return [("parse_term" if c["as"] == "term" else "parse_sum", {"text": c["text"]})]
    if k == "baddict":
        return [("dict_to_op", {"dict": c["dict"]})]
    if k == "ev":
        return [("ev_to_dict", {"values": c["values"], "correlations": c["correlations"], "covariances": c["covariances"]}),
                ("ev_from_dict", {"dict": out["file"]})]
    if k == "par":
        return [("par_to_dict", {"values": c["values"], "correlations": c["correlations"]}), ("par_from_dict", {"dict": out["file"]})]
    if k == "ve":
        return [("ve_to_dict", {"value": c["value"], "precision": c["precision"]}), ("ve_from_dict", {"dict": out["file"]})]
    if k == "meas":
        return [("meas_to_dict", {"bitstrings": c["bitstrings"]}), ("meas_from_dict", {"dict": out["file"]})]
    if k == "layers":
        return [("layers", {"layers": c["layers"]})]
    if k == "conn":
        return [("connectivity", {"connectivity": c["connectivity"]})]
    if k == "nmeas":
        return [("nmeas_to_dict", {"K": c["K"], "nterms": c["nterms"], "frame_meas": c["frame_meas"]}),
                ("nmeas_from_dict", {"dict": out["file"]})]
    return []


def _norm(j):
    """model JSON -> comparable: rationals as Fractions, dict key order irrelevant"""
    if isinstance(j, dict):
        return {k: _norm(v) for k, v in j.items()}
    if isinstance(j, list):
        return [_norm(v) for v in j]
    if isinstance(j, bool) or j is None:
        return j
    if isinstance(j, int):
        return Fraction(j)
    if isinstance(j, str):
        try:
            return Fraction(j)
        except (ValueError, ZeroDivisionError):
            return j
    return j


def _strip_int(x):
    """drop the generator's 'int' marker from array encodings"""
    if isinstance(x, dict):
        return {k: _strip_int(v) for k, v in x.items() if k != "int"}
    if isinstance(x, list):
        return [_strip_int(v) for v in x]
    return x


def _terms_norm(ts, sort_ops=False):
    if isinstance(ts, str):
        return ts
    out = []
    for t in ts:
        ops = [[int(q), o] for q, o in t["ops"]]
        if sort_ops:
            ops = sorted(ops)
        co = t["coef"]
        if isinstance(co, dict):
            # values only: whether a zero imaginary part is carried as float or complex is not part of the property
            co = (unrat(co["re"]), unrat(co["im"]))
        else:
            co = (unrat(co[0]), unrat(co[1]))
        out.append((ops, co))
    return out


def _dict_norm(d):
    return [(sorted((p["qubit"], p["op"]) for p in t["pauli_ops"]),
             (unrat(t["coefficient"]["real"]), unrat(t["coefficient"].get("imag", 0)))) for t in d["terms"]]


def _parsed_matches(model, impl):
    """model coefficients are exact decimals; Python's are the nearest doubles"""
    if isinstance(model, str) or isinstance(impl, str):
        return model == impl
    if len(model) != len(impl):
        return False
    for m, t in zip(model, impl):
        if [[int(q), o] for q, o in m["ops"]] != t["ops"]:
            return False
        mre, mim = unrat(m["coef"][0]), unrat(m["coef"][1])
        try:
            fre, fim = float(mre), float(mim)
        except OverflowError:
            fre, fim = math.copysign(math.inf, mre), math.copysign(math.inf, mim)
        ire, iim = unrat(t["coef"]["re"]), unrat(t["coef"]["im"])
        if not (math.isfinite(fre) and math.isfinite(fim)):
            return False
        if Fraction(fre) != ire or Fraction(fim) != iim:
            return False
    return True


def compare(c, out, resp):
    for r in resp:
        if isinstance(r, dict) and "driver_error" in r:
            return "driver error: " + r["driver_error"]
    k = c["kind"]
    if k == "op":
        if _dict_norm(resp[0]) != _dict_norm(out["dict"]):
            return f"convert_op_to_dict: impl {out['dict']} model {resp[0]}"
        if _dict_norm(out["dict2"]) != _dict_norm(out["dict"]):
            return f"JSON/file changed the dictionary: wrote {out['dict']} read {out['dict2']}"
        if _terms_norm(resp[1]) != _terms_norm(out["loaded"]):
            return f"convert_dict_to_op: impl {out['loaded']} model {resp[1]}"
    elif k == "opset":
        n = len(out["orig"])
        for i in range(n):
            if _dict_norm(resp[i]) != _dict_norm(out["dicts"][i]):
                return f"save_operator_set member {i}: impl {out['dicts'][i]} model {resp[i]}"
        got = resp[n]
        if isinstance(got, str) or len(got) != len(out["loaded"]) or any(_terms_norm(a) != _terms_norm(b) for a, b in zip(got, out["loaded"])):
            return f"load_operator_set: impl {out['loaded']} model {got}"
    elif k == "text":
        if resp[0] != out["text"]:
            return f"__repr__: impl {out['text']!r} model {resp[0]!r}"
        if not _parsed_matches(resp[1], out["parsed"]):
            return f"parser on {out['text']!r}: impl {out['parsed']} model {resp[1]}"
        for tx, val, law in zip(out["coef_texts"], out["coef_vals"], resp[2:]):
            if not (law["ok"] and law["brackets"]):
                return f"text law of str(coefficient) fails for {tx!r}: {law}"
            if law["value"] is None or [Fraction(float(unrat(v))) for v in law["value"]] != [unrat(v) for v in val]:
                return f"complex({tx!r}): python {val} model reader {law['value']}"
    elif k == "parse":
        if out["parsed"] == "err:overflow":
            return None
        if not _parsed_matches(resp[0], out["parsed"]):
            return f"parser on {c['text']!r} as {c['as']}: impl {out['parsed']} model {resp[0]}"
    elif k == "baddict":
        if _terms_norm(resp[0]) != _terms_norm(out["loaded"]):
            return f"convert_dict_to_op on {c['dict']}: impl {out['loaded']} model {resp[0]}"
    elif k in ("ev", "par", "ve", "nmeas", "meas"):
        if _norm(resp[0]) != _norm(out["file"]):
            return f"{k} to_dict/save: file {out['file']} model {resp[0]}"
        if _norm(resp[1]) != _norm(_strip_int(out["loaded"])):
            return f"{k} from_dict/load: impl {out['loaded']} model {resp[1]}"
    elif k in ("layers", "conn"):
        if _norm(resp[0]) != _norm(out["loaded"]):
            return f"{k}: impl {out['loaded']} model {resp[0]}"
    return None


# --------------------------------------------------------------------------- oracle (implementation only)
_P = None


def _pauli_mats(np):
    return {"I": np.eye(2, dtype=complex), "X": np.array([[0, 1], [1, 0]], dtype=complex),
            "Y": np.array([[0, -1j], [1j, 0]], dtype=complex), "Z": np.array([[1, 0], [0, -1]], dtype=complex)}


def _coef_map(terms):
    """key -> exact complex coefficient (pair of Fractions): equal maps <=> equal matrices (Pauli strings are a basis)"""
    m = {}
    for t in terms:
        key = tuple(sorted((int(q), o) for q, o in t["ops"]))
        re, im = unrat(t["coef"]["re"]), unrat(t["coef"]["im"])
        a = m.get(key, (Fraction(0), Fraction(0)))
        m[key] = (a[0] + re, a[1] + im)
    return m


def _matrix(np, terms, n):
    P = _pauli_mats(np)
    M = np.zeros((2 ** n, 2 ** n), dtype=complex)
    for t in terms:
        ops = {int(q): o for q, o in t["ops"]}
        m = np.array([[1.0 + 0j]])
        for q in range(n):
            m = np.kron(m, P[ops.get(q, "I")])
        M = M + complex(float(unrat(t["coef"]["re"])), float(unrat(t["coef"]["im"]))) * m
    return M


def _same_operator(orig, back, tol_abs, rel):
    """None or message; tolerance tol_abs per coefficient plus a relative rounding allowance"""
    a, b = _coef_map(orig), _coef_map(back)
    for key in set(a) | set(b):
        x, y = a.get(key, (0, 0)), b.get(key, (0, 0))
        d = math.hypot(float(x[0] - y[0]), float(x[1] - y[1]))
        scale = max(math.hypot(float(x[0]), float(x[1])), math.hypot(float(y[0]), float(y[1])))
        if d > tol_abs + rel * scale:
            return f"coefficient of {list(key) or 'I'}: {complex(float(x[0]), float(x[1]))} before, {complex(float(y[0]), float(y[1]))} after"
    import numpy as np
    qs = [int(q) for t in orig + back for q, _ in t["ops"]]
    n = (max(qs) + 1) if qs else 1
    if n <= 4:
        A, B = _matrix(np, orig, n), _matrix(np, back, n)
        bound = tol_abs * max(1, len(a)) + rel * max(1.0, float(np.abs(A).max()))
        if float(np.abs(A - B).max()) > bound:
            return f"matrices differ by {float(np.abs(A - B).max())}"
    return None


def _simplified(terms):
    keys = [tuple(sorted((int(q), o) for q, o in t["ops"])) for t in terms]
    if len(set(keys)) != len(keys):
        return False
    for t in terms:
        if math.hypot(float(unrat(t["coef"]["re"])), float(unrat(t["coef"]["im"]))) <= 1.0000001e-8:
            return False
    return True


def _exact_terms(orig, back):
    if len(orig) != len(back):
        return f"{len(orig)} terms before, {len(back)} after"
    for a, b in zip(orig, back):
        if sorted(map(tuple, a["ops"])) != sorted(map(tuple, b["ops"])):
            return f"operators/qubits {a['ops']} became {b['ops']}"
        if unrat(a["coef"]["re"]) != unrat(b["coef"]["re"]) or unrat(a["coef"]["im"]) != unrat(b["coef"]["im"]):
            return f"coefficient {a['coef']} became {b['coef']}"
    return None


def _frames_eq(a, b):
    if a is None or b is None:
        return a is None and b is None
    return len(a) == len(b) and all(_carr_eq(x, y) for x, y in zip(a, b))


def _carr_eq(a, b):
    """np.array_equal on the canonical forms (a complex array with zero imaginary part equals the real one)"""
    if _norm(a["re"]) != _norm(b["re"]):
        return False
    za = a["im"] if a["im"] is not None else _zeros_like(a["re"])
    zb = b["im"] if b["im"] is not None else _zeros_like(b["re"])
    return _norm(za) == _norm(zb)


def oracle(c, out):
    k = c["kind"]
    if "exc" in out:
        return ("raised-" + k, f"{k} round trip raised {out['exc']}: {out.get('msg', '')}")
    if k == "op":
        n = max(1, len(out["orig"]))
        msg = _same_operator(out["orig"], out["loaded"], 1e-8 * n, 1e-12)
        if msg:
            return ("op-dict-matrix", f"dict/file round trip ({c['via']}) changed the operator: {msg}")
        if _simplified(out["orig"]):
            msg = _exact_terms(out["orig"], out["loaded"])
            if msg:
                return ("op-dict-exact", f"simplified operator not preserved exactly through {c['via']}: {msg}")
        if out["loaded_type"] != "PauliSum":
            return ("op-dict-type", f"loaded object is a {out['loaded_type']}")
    elif k == "opset":
        if len(out["orig"]) != len(out["loaded"]):
            return ("opset-length", f"{len(out['orig'])} operators saved, {len(out['loaded'])} loaded")
        for i, (a, b) in enumerate(zip(out["orig"], out["loaded"])):
            msg = _same_operator(a, b, 1e-8 * max(1, len(a)), 1e-12)
            if msg:
                return ("opset-matrix", f"operator {i} of the list changed: {msg}")
            if _simplified(a):
                msg = _exact_terms(a, b)
                if msg:
                    return ("opset-exact", f"simplified operator {i} of the list not preserved exactly: {msg}")
    elif k == "text":
        if isinstance(out["parsed"], str):
            return ("text-rejected", f"printed text {out['text']!r} is rejected by the parser: {out.get('msg')}")
        msg = _same_operator(out["orig"], out["parsed"], 0.0, 1e-12)
        if msg:
            return ("text-matrix", f"str -> parse changed the operator {out['text']!r}: {msg}")
    elif k == "ev":
        o, l = out["orig"], out["loaded"]
        if not _carr_eq(o["values"], l["values"]):
            return ("ev-values", f"expectation values {o['values']} loaded as {l['values']}")
        for key in ("correlations", "covariances"):
            if o[key] == [] and l[key] is None:
                return ("empty-frame-list", f"ExpectationValues.{key} = [] (zero frames) is loaded as None")
            if not _frames_eq(o[key], l[key]):
                return ("ev-" + key, f"{key} {o[key]} loaded as {l[key]}")
    elif k == "par":
        o, l = out["orig"], out["loaded"]
        if not _carr_eq(o["values"], l["values"]) or not out["int_kept"]:
            return ("par-values", f"parity values {o['values']} loaded as {l['values']} (integer dtype kept: {out['int_kept']})")
        if o["correlations"] == [] and l["correlations"] is None:
            return ("empty-frame-list", "Parities.correlations = [] (zero frames) is loaded as None")
        if not _frames_eq(o["correlations"], l["correlations"]):
            return ("par-correlations", f"correlations {o['correlations']} loaded as {l['correlations']}")
    elif k == "ve":
        want_p = None if c["precision"] is None else unrat(c["precision"])
        got_p = None if out["loaded"]["precision"] is None else unrat(out["loaded"]["precision"])
        if unrat(out["loaded"]["value"]) != unrat(c["value"]) or want_p != got_p or not out["eq"] or not out["type_ok"]:
            return ("value-estimate", f"ValueEstimate({c['value']}, {c['precision']}) loaded as {out['loaded']} (==: {out['eq']})")
    elif k == "meas":
        if not out["eq"] or not out["tuples"]:
            return ("measurements", f"bitstrings {c['bitstrings']} loaded as {out['loaded']} (tuples: {out['tuples']})")
    elif k == "list":
        if not out["eq"]:
            return ("list", f"list {c['list']} not returned equal")
    elif k == "layers":
        if not out["eq"] or not out["tuples"]:
            return ("layers", f"layers {c['layers']} loaded as {out['loaded']} (tuples: {out['tuples']})")
    elif k == "conn":
        if not out["eq"] or not out["tuples"]:
            return ("connectivity", f"connectivity {c['connectivity']} loaded as {out['loaded']} (tuples: {out['tuples']})")
    elif k == "ordering":
        if not out["eq"]:
            return ("ordering", f"ordering {c['ordering']} not returned equal")
    elif k == "nmeas":
        if out["loaded"] == "err:key":
            if c["frame_meas"] is None:
                return ("nmeas-without-frame-meas", "save_nmeas_estimate(nmeas, nterms, file) with the default frame_meas=None writes a "
                        "file that load_nmeas_estimate rejects with KeyError('frame_meas')")
            return ("nmeas-raise", f"load_nmeas_estimate raised KeyError {out.get('msg')}")
        l = out["loaded"]
        if c["frame_meas"] is None or l["frame_meas"] is None:
            fm_ok = c["frame_meas"] is None and l["frame_meas"] is None
        else:
            fm_ok = _carr_eq(_strip_int(c["frame_meas"]), l["frame_meas"])
        if unrat(l["K"]) != unrat(c["K"]) or l["nterms"] != c["nterms"] or type(l["nterms"]) is not int or not fm_ok:
            return ("nmeas", f"nmeas estimate ({c['K']}, {c['nterms']}, {c['frame_meas']}) loaded as {l}")
    return None


def distribution(cases, outs):
    kinds = {"int": 0, "float": 0, "complex": 0}
    neg_zero = exp_fmt = multi_digit = constants = merged = rejected = 0
    for c, o in zip(cases, outs):
        if c["kind"] in ("op", "text"):
            for t in c["terms"]:
                kinds[t["coef"]["t"]] += 1
                v = dec_coef(t["coef"])
                if "e" in repr(v):
                    exp_fmt += 1
                if "-0" in repr(v) and (v == 0 or (isinstance(v, complex) and (v.real == 0 or v.imag == 0))):
                    neg_zero += 1
                if any(q >= 10 for q, _ in t["ops"]):
                    multi_digit += 1
                if not t["ops"]:
                    constants += 1
            if c["kind"] == "op" and isinstance(o, dict) and "loaded" in o and len(o["loaded"]) < len(c["terms"]):
                merged += 1
        if isinstance(o, dict) and (o.get("parsed") == "err:value" or o.get("loaded") in ("err:value", "err:key")):
            rejected += 1
    return {"coefficient_kinds": kinds, "negative_zero_coefficients": neg_zero, "exponent_format_coefficients": exp_fmt,
            "terms_with_multi_digit_qubit": multi_digit, "constant_terms": constants,
            "operators_merged_or_dropped_terms": merged, "rejected_inputs": rejected,
            "via": {v: sum(1 for c in cases if c.get("via") == v) for v in ("dict", "json", "file", "fileobj", "path")}}
