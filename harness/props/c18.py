"""C18 — decomposing a circuit never changes what it does.

Anchors: decompositions/_decomposition.py (rule chaining), decompositions/_orquestra_decompositions.py
(U3GateToRotation, decompose_orquestra_circuit).

Case kinds
  circuit   numeric circuit (rational half-angle points), k copies of the bundled rule: operation lists compared exactly
            with the model, unitaries of the original and the decomposed circuit compared entrywise (1e-9), the exact
            "same up to one global phase" verdict of the model compared with the numeric one
  symbolic  circuit with symbolic / expression parameters: operation lists compared exactly (parameters are opaque to
            the model); the oracle binds the symbols and checks the action
  rule      U3GateToRotation.predicate / .production called directly on one operation
  chain     the generic decompose_operations on integer "operations" with toy rules (order of rules, exceptions);
            rules may hand out one stored list / a tuple / a generator, one rule object may stand twice in the list, rules
            may compare equal, inputs may be tuples / generators, 60-140 operations; the call is repeated on the same
            rule objects, made operation by operation (decompose_operation), and the caller's lists are checked afterwards
  exotic    circuits whose parameters are TYPED values (Python int / float, sympy Rational / pi multiples / Symbol /
            Dummy / expressions with a bound variable) drawn from a small palette with engineered relations between
            sibling operations (equal triples on other qubits / other control counts / the same qubit set in another
            order, triples differing by 1e-9, by -1 -> -2 (equal hashes), by type, U3(t, t, t), phi = -lambda exactly and
            nearly, angles of 1e-8 and of 1e3); sub-streams: 64-140 operations, registers of 10-12 qubits with
            multi-digit indices and up to 5 controls.  Operation lists are compared with the model (parameters opaque);
            the action is computed by the harness's own state-vector simulation from the library's gate matrices and
            compared to 1e-10; every call variant (long-lived rule objects shared by all cases, rules as a tuple,
            operation by operation, generator input, second call after the first result was modified) is judged too
  history   a script on long-lived objects: circuits are created (each a sibling of the previous one), decomposed,
            the RESULTS and the INPUTS are modified through the live `operations` list (insert / replace / delete) or
            `+`, and decomposed again with the same rule objects; every decomposition is judged against the operations
            its input held at the moment of the call
"""
from fractions import Fraction

from .. import circ, common
from ..common import rat, unrat

PROP = "C18"
RULE = ("seeded random circuits of 1-8 operations on 1-4 (thorough: 1-5) qubits mixing plain U3, U3 with 1-3 controls "
        "(half of them with phi+lambda = 0), non-matching wrappers of U3 (dagger, power, controlled dagger), other "
        "built-in gates, custom Gaussian-integer gates, non-gate operations, declared widths with idle qubits, 0-3 copies "
        "of the bundled rule; symbolic-parameter circuits; direct rule calls incl. malformed operations (asked twice, and of "
        "a rule object shared by all cases); toy-rule chains over integers (stored / tuple / generator productions, one rule "
        "object twice, equal rules, tuple / generator inputs, 60-140 operations, repeated and operation-by-operation calls); "
        "exotic circuits: typed parameters (int, float, Rational, pi multiples, Symbol of any name, Dummy, bound variables) "
        "from families of sibling triples (equal / 1e-9 apart / equal hashes / other type / U3(t,t,t) / phi = -lambda exactly "
        "and nearly / 1e-8 / 1e3), twin operations differing in one component, 64-140 operations, registers of 10-12 qubits "
        "with up to 5 controls, rule lists mixing the bundled rule with two fixture rules that feed it, seven call variants "
        "each; histories on long-lived circuits and rule objects (results and inputs modified between calls).  "
        "non-trivial: rules >= 1 and the circuit holds a (plain or controlled) U3 next to another operation, a chain of >= 2 "
        "rules of which >= 1 matches, or a history with >= 2 decompositions; distinct = distinct canonical JSON of the case")
TRUSTED = ["sympy: `simplify` in u3_matrix returns a matrix equal to RZ(phi)RY(theta)RZ(lambda)/exp(-i(phi+lambda)/2) "
           "(the model uses the closed form; checked entrywise to 1e-9 on every compared case)",
           "numpy float arithmetic within 1e-9 (scaled) of the exact Q(zeta_8) values on the compared cases",
           "Circuit.to_unitary / gate matrices of non-U3 gates are those of the shared models (properties C01, C02, C07)",
           "identification of Lift.liftMatrix with Spec.lift (property C01)",
           "exotic / history / rule kinds: the action of a gate is the library's own `gate.matrix` (after `bind`), placed on "
           "its qubits by the harness (numpy tensordot, qubit 0 most significant; equal to Circuit.to_unitary to 3e-16 on "
           "random circuits); double rounding stays below 1e-10 for <= 150 gates with angles <= 1.3e3",
           "the fixture rules RX(t) -> U3(t, -pi/2, pi/2) and SWAP -> 3 CNOT are action preserving (their output is judged by "
           "the same action oracle on every case)"]
ASSUMPTIONS = ["gate parameters are passed through by reference: the model treats them as opaque values",
               "toy rules use Python int // 2 and % m with m > 0 (= Lean Int ediv/emod)",
               "a custom gate must not reuse the reserved name 'U3' (hypothesis BuiltinU3 of the theorems)",
               "`Circuit.operations` is the circuit's live list: callers may insert / replace / delete operations through it "
               "(were it not a list, the history kind rebuilds the circuit instead)",
               "a result that IS the input object (empty rule list) counts as 'returned unchanged'; what the caller then does "
               "to it is the caller's change of the input",
               "gate parameters numpy cannot hand to sympy 1.9 (np.float64) and negative qubit indices are outside the domain: "
               "the library itself cannot build the U3 matrix / the register for them"]

KNOWN_SIG = "controlled-u3-relative-phase"
OTHER_BUILTINS = [g for g in circ.BUILTIN_PARAMS if g not in ("U3", "Delay")]


def _mods():
    common.use_repo()
    import orquestra.quantum.circuits as oqc
    from orquestra.quantum.circuits import _gates
    from orquestra.quantum import decompositions as dec
    from orquestra.quantum.decompositions import _decomposition as gen
    return oqc, _gates, dec, gen


# ------------------------------------------------------------------ case -> real objects
class _Table:
    """parameter objects handed to the library, so that the parameters of the output can be named again"""

    def __init__(self):
        self.items = []
        self.dummies = {}

    def add(self, obj, token):
        self.items.append((obj, token))
        return obj

    def token(self, obj):
        for o, t in self.items:
            if o is obj:
                return t
        for o, t in self.items:
            try:
                if type(o) is type(obj) and o == obj:
                    return t
            except Exception:
                pass
        for o, t in self.items:
            try:
                if o == obj:
                    return t
            except Exception:
                pass
        return {"unknown": repr(obj)[:60]}


def _param(tok, tab):
    """typed parameter token -> the object handed to the library.  str: sympify (symbols a, b, c, k, numbers, pi);
    {"f": repr} Python float; {"i": n} Python int; {"q": "p/q"} sympy Rational; {"s": name} sympy Symbol of that
    name (whatever the name); {"d": name, "j": j} the j-th sympy Dummy of that name (one object per case)"""
    import sympy
    if isinstance(tok, str):
        return sympy.sympify(tok)
    if "f" in tok:
        return float(tok["f"])
    if "i" in tok:
        return int(tok["i"])
    if "q" in tok:
        return sympy.Rational(tok["q"])
    if "s" in tok:
        return sympy.Symbol(tok["s"])
    if "d" in tok:
        key = (tok["d"], tok.get("j", 0))
        if key not in tab.dummies:
            tab.dummies[key] = sympy.Dummy(tok["d"])
        return tab.dummies[key]
    raise ValueError(f"bad parameter token {tok}")


def _bindmap(c, tab):
    """{symbol object: float} of a case; key "name" -> Symbol(name), "~name#j" -> the j-th Dummy of that name"""
    import sympy
    m = {}
    for key, v in (c.get("bind") or {}).items():
        if key.startswith("~"):
            name, j = key[1:].rsplit("#", 1)
            sym = _param({"d": name, "j": int(j)}, tab)
        else:
            sym = sympy.Symbol(key)
        m[sym] = float(unrat(v))
    return m


def _tok_value(tok, tab, bind):
    """float value of a parameter token under the binding (harness-side evaluation, independent of the library)"""
    import sympy
    v = _param(tok, tab)
    if isinstance(v, (int, float)):
        return float(v)
    v = sympy.sympify(v).subs(bind or {}).doit()
    return float(sympy.N(v))


def _gate(spec, tab, customs):
    oqc, _gates, _, _ = _mods()
    if "controlled" in spec:
        return _gate(spec["controlled"], tab, customs).controlled(spec["k"])
    if "dagger" in spec:
        return _gate(spec["dagger"], tab, customs).dagger
    if "power" in spec:
        return _gate(spec["power"], tab, customs).power(spec["e"])
    if "custom" in spec:
        m = circ.sympy_matrix(spec["m"])
        customs[spec["custom"]] = spec["m"]
        return oqc.CustomGateDefinition(spec["custom"], m, ())()
    name = spec["gate"]
    ref = getattr(oqc, name)
    if "sym" in spec:
        if not spec["sym"] and circ.BUILTIN_PARAMS[name] == 0:
            return ref
        return ref(*[tab.add(_param(s, tab), s) for s in spec["sym"]])
    if not spec["angles"] and circ.BUILTIN_PARAMS[name] == 0:
        return ref
    return ref(*[tab.add(circ.theta_of(a), a) for a in spec["angles"]])


def _op(spec, tab, customs):
    oqc, _, _, _ = _mods()
    if "other" in spec:
        if spec["other"] == "reset":
            return oqc.ResetOperation(spec["qs"][0])
        return oqc.MultiPhaseOperation(tuple(float(unrat(p)) for p in spec["phases"]))
    return _gate(spec["g"], tab, customs)(*spec["qs"])


def _gate_spec(g, tab, customs):
    """REAL gate object -> model JSON"""
    _, _gates, _, _ = _mods()
    if isinstance(g, _gates.ControlledGate):
        return {"controlled": _gate_spec(g.wrapped_gate, tab, customs), "k": g.num_control_qubits}
    if isinstance(g, _gates.Dagger):
        return {"dagger": _gate_spec(g.wrapped_gate, tab, customs)}
    d = {"gate": g.name, "params": [tab.token(p) for p in g.params]}
    if isinstance(g, _gates.MatrixFactoryGate) and isinstance(g.matrix_factory, _gates.CustomGateMatrixFactory):
        m = customs.get(g.name)
        if m is None or g.matrix != circ.sympy_matrix(m):
            d["m"] = "unknown-custom"
        else:
            d["m"] = _cyc_m(m)
    return d


def _cyc_m(m):
    """Gaussian-rational matrix [[ [re, im], …], …] in the form the driver prints (rows of Q(zeta_8) 4-tuples)"""
    return [[[str(rat(unrat(e[0]))), "0", str(rat(unrat(e[1]))), "0"] for e in row] for row in m]


def _op_spec(op, tab, customs):
    _, _gates, _, _ = _mods()
    if isinstance(op, _gates.GateOperation):
        return {"g": _gate_spec(op.gate, tab, customs), "qs": [int(q) for q in op.qubit_indices]}
    tag = "reset" if type(op).__name__ == "ResetOperation" else "multiphase"
    return {"other": tag, "qs": [int(q) for q in op.qubit_indices]}


def _model_gate(spec):
    """harness gate spec -> model JSON (what the rule can see of the gate, plus the matrix of custom gates)"""
    if "controlled" in spec:
        return {"controlled": _model_gate(spec["controlled"]), "k": spec["k"]}
    if "dagger" in spec:
        return {"dagger": _model_gate(spec["dagger"])}
    if "power" in spec:
        inner = _model_gate(spec["power"])
        if "controlled" in inner:  # ControlledGate.power pushes the power inside
            return {"controlled": _model_gate({"power": spec["power"]["controlled"], "e": spec["e"]}), "k": inner["k"]}
        return {"gate": _name(spec["power"]) + "^" + str(spec["e"]), "params": _params(spec["power"])}
    if "custom" in spec:
        return {"gate": spec["custom"], "params": [], "m": _cyc_m(spec["m"])}
    return {"gate": spec["gate"], "params": list(spec.get("sym", spec.get("angles")))}


def _name(spec):
    if "controlled" in spec:
        return "Control"
    if "dagger" in spec:
        return _name(spec["dagger"]) + "_Dagger"
    if "power" in spec:
        return _name(spec["power"]) + "^" + str(spec["e"])
    return spec.get("custom") or spec["gate"]


def _params(spec):
    for k in ("controlled", "dagger", "power"):
        if k in spec:
            return _params(spec[k])
    if "custom" in spec:
        return []
    return list(spec.get("sym", spec.get("angles")))


def _model_op(o):
    if "other" in o:
        return {"other": o["other"], "qs": o["qs"]}
    return {"g": _model_gate(o["g"]), "qs": o["qs"]}


def _has_matrix_model(spec):
    if "power" in spec:
        return False
    for k in ("controlled", "dagger"):
        if k in spec:
            return _has_matrix_model(spec[k])
    return "sym" not in spec


def _is_u3(spec):
    """the gate is the built-in U3 or a ControlledGate wrapping it (what the rule is meant to replace)"""
    if spec.get("gate") == "U3":
        return "plain"
    if "controlled" in spec and spec["controlled"].get("gate") == "U3":
        return "controlled"
    return None


def _phase_trivial(spec):
    """e^{i(phi+lambda)/2} = 1, exactly, for a numeric U3 spec"""
    a = (spec.get("controlled") or spec)["angles"]
    if len(a) != 3:
        return True
    (pc, ps), (lc, ls) = [[unrat(x) for x in a[1]], [unrat(x) for x in a[2]]]
    return pc * lc - ps * ls == 1 and pc * ls + ps * lc == 0


def _width(c):
    qs = [q for o in c["ops"] for q in o["qs"]]
    return c["n"] if c.get("n") else (max(qs) + 1 if qs else 0)


def _malformed(c):
    """operations outside the stated domain: a U3 with a number of parameters other than three"""
    for o in c["ops"]:
        if "g" in o and _is_u3(o["g"]) and len(_params(o["g"])) != 3:
            return True
    return False


# ------------------------------------------------------------------ corpus / generation
def _u3(th, ph, la):
    return {"gate": "U3", "angles": [th, ph, la]}


PI = [0, 1]          # half-angle point of pi
ZERO = [1, 0]
A35 = ["3/5", "4/5"]
A35N = ["3/5", "-4/5"]
A513 = ["5/13", "12/13"]


def _xu3(t, qs):
    g = {"gate": "U3", "sym": list(t)}
    return {"g": {"controlled": g, "k": len(qs) - 1} if len(qs) > 1 else g, "qs": list(qs)}


T1 = [{"f": "0.81"}, "pi/3", {"q": "-2/7"}]
T1C = [{"f": "0.81"}, "pi/3", "-(pi/3)"]     # phi + lambda = 0: the controlled rule is exact


def corpus():
    return [_canon_case(c) if c["kind"] in ("exotic", "history") else c for c in _corpus()]


def _corpus():
    x0 = {"g": {"gate": "X", "angles": []}, "qs": [0]}
    return [
        # plain U3 (phi + lambda != 0) between other gates, one rule
        {"kind": "circuit", "n": None, "rules": 1, "ops": [x0, {"g": _u3(A513, A35, A513), "qs": [1]},
                                                           {"g": {"gate": "CNOT", "angles": []}, "qs": [1, 0]}]},
        # F9 (known): controlled U3 with phi + lambda != 0 -> relative phase
        {"kind": "circuit", "n": None, "rules": 1, "ops": [{"g": {"controlled": _u3(ZERO, PI, ZERO), "k": 1}, "qs": [0, 1]}]},
        {"kind": "circuit", "n": None, "rules": 1, "ops": [{"g": {"controlled": _u3(A513, A35, A513), "k": 2}, "qs": [2, 0, 1]}, x0]},
        # controlled U3 with phi + lambda = 0: exact
        {"kind": "circuit", "n": None, "rules": 1, "ops": [{"g": {"controlled": _u3(A513, A35, A35N), "k": 1}, "qs": [1, 0]}, x0]},
        # declared width with idle trailing qubits (fixed b4958fb: the width used to be dropped)
        {"kind": "circuit", "n": 3, "rules": 0, "ops": [x0]},
        {"kind": "circuit", "n": 3, "rules": 1, "ops": [x0, {"g": _u3(A35, A513, A35), "qs": [1]}]},
        # non-gate operations next to a U3 (fixed 184e440: the predicate used to raise AttributeError)
        {"kind": "circuit", "n": None, "rules": 1, "ops": [{"g": _u3(A35, A513, A35), "qs": [0]},
                                                           {"other": "multiphase", "qs": [0], "phases": ["1/2", "1/4"]}]},
        {"kind": "circuit", "n": None, "rules": 1, "ops": [{"g": _u3(A35, A513, A35), "qs": [0]}, {"other": "reset", "qs": [0]}]},
        {"kind": "rule", "op": {"other": "reset", "qs": [1]}},
        # plain U3 among other gates, two rules
        {"kind": "circuit", "n": None, "rules": 2, "ops": [x0, {"g": _u3(A35, A513, PI), "qs": [2]},
                                                           {"g": {"gate": "CNOT", "angles": []}, "qs": [2, 0]}]},
        {"kind": "circuit", "n": None, "rules": 0, "ops": [{"g": _u3(A35, A513, PI), "qs": [1]}]},
        # wrappers that are NOT matched
        {"kind": "circuit", "n": None, "rules": 1, "ops": [{"g": {"dagger": _u3(A35, A513, PI)}, "qs": [0]},
                                                           {"g": {"controlled": {"dagger": _u3(A35, A513, PI)}, "k": 1}, "qs": [1, 0]}]},
        {"kind": "symbolic", "n": None, "rules": 1, "bind": {"a": "1/2", "b": "1/4"},
         "ops": [{"g": {"gate": "U3", "sym": ["a", "2*b", "a+b"]}, "qs": [1]}, {"g": {"gate": "RX", "sym": ["b"]}, "qs": [0]}]},
        {"kind": "rule", "op": {"g": {"gate": "U3", "angles": [A35, A513]}, "qs": [0]}},
        {"kind": "chain", "ops": [4, 3], "rules": [{"pred": ["mod", 2, 0], "prod": ["split"]}, {"pred": ["gt", 2], "prod": ["dec"]}]},
        {"kind": "chain", "ops": [4, 3], "rules": [{"pred": ["gt", 2], "prod": ["dec"]}, {"pred": ["mod", 2, 0], "prod": ["split"]}]},
        {"kind": "chain", "ops": [1, 2, 3], "rules": []},
        # ---- hardening round (classes A-G of subtle changes)
        # no operation matches / no operation at all, declared width, rules given
        {"kind": "circuit", "n": 3, "rules": 1, "ops": [x0, {"g": {"gate": "CNOT", "angles": []}, "qs": [1, 0]}]},
        {"kind": "circuit", "n": 2, "rules": 2, "ops": []},
        # parameters with equal hashes (hash(-1) == hash(-2)), as int and as float
        {"kind": "exotic", "n": None, "rules": 1, "ops": [_xu3([{"i": -1}, {"f": "0.5"}, {"f": "0.25"}], [0]),
                                                          _xu3([{"i": -2}, {"f": "0.5"}, {"f": "0.25"}], [0]),
                                                          _xu3([{"f": "-1.0"}, "pi/2", {"q": "1/3"}], [1]),
                                                          _xu3([{"f": "-2.0"}, "pi/2", {"q": "1/3"}], [1])]},
        # one parameter triple on other qubits, other control counts, the same qubit set in another order
        {"kind": "exotic", "n": None, "rules": 1, "ops": [_xu3(T1, [0]), _xu3(T1, [1]), _xu3(T1C, [0, 1]), _xu3(T1C, [1, 0]),
                                                          _xu3(T1C, [2, 0, 1]), _xu3(T1C, [0, 2, 1])]},
        # triples differing by 1e-9 (the gates compare equal), angles of 1e-8, U3(t, t, t)
        {"kind": "exotic", "n": None, "rules": 1, "ops": [_xu3([{"f": "0.3"}, {"f": "1.1"}, {"f": "-0.7"}], [0]),
                                                          _xu3([{"f": "0.300000001"}, {"f": "1.1"}, {"f": "-0.7"}], [0]),
                                                          {"g": {"gate": "H", "sym": []}, "qs": [0]},
                                                          _xu3([{"f": "8e-09"}, {"f": "-6e-09"}, {"f": "9.5e-09"}], [0]),
                                                          _xu3([{"f": "0.9"}, {"f": "0.9"}, {"f": "0.9"}], [0])]},
        # phi = -lambda nearly (relative 4e-6) on a controlled U3 with large angles: the documented relative phase, nothing more
        {"kind": "exotic", "n": None, "rules": 1, "ops": [_xu3([{"f": "0.7"}, {"f": "1000.0"}, {"f": "-1000.004"}], [1, 0]),
                                                          _xu3([{"f": "0.7"}, {"f": "1000.0"}, {"f": "-1000.0"}], [1, 0])]},
        # two Dummy symbols of one name, a Symbol printing like them, symbols named like constants / functions, a bound variable
        {"kind": "exotic", "n": None, "rules": 1, "bind": dict(DEFAULT_BIND, **{"~a#0": "1/2", "~a#1": "-5/4", "_a": "9/8", "pi": "3/8",
                                                                                "lambda": "-7/8", "E": "5/8", "I": "11/8"}),
         "ops": [_xu3([{"d": "a", "j": 0}, "b", "-b"], [0]), _xu3([{"d": "a", "j": 1}, "b", "-b"], [0]),
                 _xu3([{"s": "_a"}, "b", "-b"], [0]), _xu3(["a", "b", "-b"], [0]),
                 _xu3([{"s": "pi"}, {"s": "lambda"}, {"s": "E"}], [1]), _xu3(["pi", {"s": "I"}, "Sum(a*k,(k,0,2))"], [1]),
                 _xu3(["k", "2*k", "k/2"], [1])]},
        # 65 operations; multi-digit qubit indices whose digits concatenate alike
        {"kind": "exotic", "n": 3, "rules": 1, "ops": [_xu3(T1, [i % 3]) if i % 2 else {"g": {"gate": "H", "sym": []}, "qs": [i % 2]}
                                                       for i in range(64)] + [_xu3(T1C, [2, 0])]},
        {"kind": "exotic", "n": 12, "rules": 1, "ops": [_xu3(T1C, [1, 10]), _xu3(T1C, [11, 0]), _xu3(T1C, [1, 0, 11]), _xu3(T1, [10])]},
        # four and five controls given in no particular order, on a wide register
        {"kind": "exotic", "n": 11, "rules": 1, "ops": [_xu3(T1C, [10, 3, 0, 2, 1]), {"g": {"gate": "H", "sym": []}, "qs": [3]},
                                                        _xu3(T1C, [6, 7, 10, 9, 8, 5]), _xu3(T1C, [0, 1, 2, 3, 10])]},
        # rule lists whose rules feed each other, in both orders
        {"kind": "exotic", "n": None, "rules": 2, "rule_list": ["rx", "u3"],
         "ops": [{"g": {"gate": "RX", "sym": [{"f": "0.4"}]}, "qs": [0]}, _xu3(T1, [1]), {"g": {"gate": "SWAP", "sym": []}, "qs": [1, 0]}]},
        {"kind": "exotic", "n": None, "rules": 3, "rule_list": ["u3", "rx", "swap"],
         "ops": [{"g": {"gate": "RX", "sym": [{"f": "0.4"}]}, "qs": [0]}, _xu3(T1, [1]), {"g": {"gate": "SWAP", "sym": []}, "qs": [1, 0]}]},
        {"kind": "exotic", "n": None, "rules": 3, "rule_list": ["u3", "rx", "u3"],
         "ops": [{"g": {"gate": "RX", "sym": [{"f": "0.4"}]}, "qs": [0]}, _xu3(T1, [1]), {"g": {"gate": "SWAP", "sym": []}, "qs": [1, 0]}]},
        # results and inputs modified between calls, the same rule objects throughout
        {"kind": "history", "n": 2, "rule_objects": "fresh", "steps": [
            {"new": [_xu3(T1, [0]), {"g": {"gate": "H", "sym": []}, "qs": [1]}]}, {"dec": 0, "rules": 1},
            {"on": 1, "ins": 1, "op": _xu3(T1, [1])}, {"dec": 1, "rules": 1}, {"dec": 0, "rules": 1},
            {"on": 0, "set": 0, "op": _xu3(T1C, [1, 0])}, {"dec": 0, "rules": 1},
            {"on": 0, "del": 0}, {"on": 0, "ins": 0, "op": _xu3(T1, [1])}, {"dec": 0, "rules": 1},
            {"plus": 1, "op": _xu3(T1, [0])}, {"dec": 6, "rules": 2}]},
        # toy rules: one stored list handed out every time, one rule object twice, equal rules, tuples, 65 operations
        {"kind": "chain", "ops": [4, 4, 3, 4], "rules": [{"pred": ["mod", 2, 0], "prod": ["const", [7, 0]], "shared": True},
                                                         {"pred": ["gt", 5], "prod": ["split"], "shared": True}]},
        {"kind": "chain", "ops": [1, 2], "rules": [{"pred": ["always"], "prod": ["inc", 1]}, {"same": 0}, {"same": 0}]},
        {"kind": "chain", "ops": [1, 2], "eq": True, "rules_as": "tuple", "ops_as": "tuple",
         "rules": [{"pred": ["always"], "prod": ["inc", 1]}, {"pred": ["always"], "prod": ["inc", 1]}]},
        {"kind": "chain", "ops": list(range(65)), "ops_as": "gen", "rules": [{"pred": ["mod", 3, 1], "prod": ["dup"], "ret": "gen"}]},
    ]


def _rand_u3_op(rng, n, sym=False):
    if sym:
        pool = ["a", "b", "c", "2*a", "a+b", "b/2", "-c", "a*b", "1/2", "3"]
        g = {"gate": "U3", "sym": [rng.choice(pool) for _ in range(3)]}
    else:
        th, ph, la = circ.rat_angle(rng), circ.rat_angle(rng), circ.rat_angle(rng)
        g = _u3(th, ph, la)
    k = 0
    if n >= 2 and rng.random() < 0.5:
        k = rng.randrange(1, min(n - 1, 3) + 1)
        if not sym and rng.random() < 0.55:  # phi + lambda = 0: the domain of decompose_controlled_partial
            ph = g["angles"][1]
            g["angles"][2] = [ph[0], rat(-unrat(ph[1]))]
    wrap = rng.random()
    if wrap < 0.10 and not sym:
        g = {"dagger": g}            # name "U3_Dagger": not matched
    elif wrap < 0.16 and not sym:
        g = {"power": g, "e": 2}     # name "U3^2": not matched
    if k:
        g = {"controlled": g, "k": k}
    return {"g": g, "qs": rng.sample(range(n), k + 1)}


def _rand_circuit(rng, n, length, sym=False, nongate=True):
    ops = []
    customs = 0
    for _ in range(length):
        r = rng.random()
        if r < 0.45:
            ops.append(_rand_u3_op(rng, n, sym))
        elif r < 0.50 and nongate:
            if rng.random() < 0.5:
                ops.append({"other": "reset", "qs": [rng.randrange(n)]})
            else:
                w = rng.randrange(1, n + 1)
                ops.append({"other": "multiphase", "qs": list(range(w)),
                            "phases": [rat(Fraction(rng.randrange(-8, 9), 4)) for _ in range(2 ** w)]})
        elif r < 0.62 and customs < 2 and not sym:
            customs += 1
            k = rng.randrange(1, min(n, 2) + 1)
            ops.append({"g": {"custom": f"cg{customs}", "m": circ.gauss_matrix(rng, k, -2, 2)}, "qs": rng.sample(range(n), k)})
        elif sym and r < 0.75:
            name = rng.choice(["RX", "RY", "RZ", "PHASE"])
            ops.append({"g": {"gate": name, "sym": [rng.choice(["a", "b", "c", "a+b"])]}, "qs": [rng.randrange(n)]})
        else:
            cands = [g for g in OTHER_BUILTINS if circ.BUILTIN_QUBITS[g] <= n]
            name = rng.choice(cands)
            g = {"gate": name, "angles": [circ.rat_angle(rng) for _ in range(circ.BUILTIN_PARAMS[name])]}
            if n > circ.BUILTIN_QUBITS[name] and rng.random() < 0.15:
                g = {"controlled": g, "k": 1}
            ops.append({"g": g, "qs": rng.sample(range(n), circ.spec_num_qubits(g))})
    used = max([q for o in ops for q in o["qs"]], default=-1) + 1
    declared = rng.choice([None, None, used + rng.randrange(0, 3)]) if ops else rng.choice([None, 2])
    return ops, (declared if declared else None)


# ---- typed parameters (exotic / history kinds)
def _num_tok(rng, big=True):
    r = rng.random() * (1.0 if big else 0.85)
    if r < 0.28:
        return {"f": repr(round(rng.uniform(-6.5, 6.5), rng.choice([1, 3, 12])))}
    if r < 0.43:
        return {"i": rng.randrange(-3, 4)}
    if r < 0.53:
        return {"q": f"{rng.randrange(-9, 10)}/{rng.choice([2, 3, 4, 5, 7])}"}
    if r < 0.68:
        return rng.choice(["pi/2", "pi", "-pi/3", "2*pi", "pi/4", "-pi", "3*pi/2", "0", "5*pi", "-7*pi/2"])
    if r < 0.76:
        return {"f": rng.choice(["0.0", "-0.0", "-1.0", "-2.0", "1.0"])}
    if r < 0.85:
        return {"f": rng.choice(["8e-09", "-6e-09", "3e-09", "9.5e-09"])}
    if r < 0.92:
        return {"f": rng.choice(["1000.0", "-1000.004", "1234.5678", "-250.5", "62.83185307179586"])}
    return {"f": repr(rng.uniform(-13, 13))}


SYM_TOKENS = ["a", "b", "c", "k", "a+b", "2*a", "-c", "a*b", "b/2", "a-b", {"s": "pi"}, {"s": "lambda"}, {"s": "E"},
              {"s": "I"}, {"s": "_a"}, {"s": "beta_10"}, {"s": "RZ"}, {"s": "theta"}, {"d": "a", "j": 0}, {"d": "a", "j": 1},
              "Sum(a*k,(k,0,2))", "Sum(k,(k,1,3))/4"]
SYM_NAMES = ["a", "b", "c", "k", "pi", "lambda", "E", "I", "_a", "beta_10", "RZ", "theta", "~a#0", "~a#1"]


def _sym_bind(rng):
    vals = rng.sample(range(-15, 16), len(SYM_NAMES))
    return {nm: rat(Fraction(v, 8)) for nm, v in zip(SYM_NAMES, vals)}


def _canon_tok(tok):
    """one token per object: sympy hands out the SAME object for equal numbers / expressions however they were written
    ('-(0)' and '0', Rational(4, 2) and 2), so every sympy-valued token is written as str(value)"""
    import sympy
    if isinstance(tok, str):
        return str(sympy.sympify(tok))
    if "q" in tok:
        return str(sympy.Rational(tok["q"]))
    if "f" in tok:
        return {"f": repr(float(tok["f"]))}
    return tok


def _canon_case(x):
    if isinstance(x, dict):
        return {k: ([_canon_tok(t) for t in v] if k == "sym" else _canon_case(v)) for k, v in x.items()}
    if isinstance(x, list):
        return [_canon_case(v) for v in x]
    return x


def _is_numeric_tok(tok):
    if isinstance(tok, dict):
        return not ("s" in tok or "d" in tok)
    return not any(ch.isalpha() for ch in tok.replace("pi", ""))


def _neg_tok(tok):
    if isinstance(tok, str):
        return "-(" + tok + ")"
    if "f" in tok:
        return {"f": repr(-float(tok["f"]))}
    if "i" in tok:
        return {"i": -tok["i"]}
    if "q" in tok:
        return {"q": str(-Fraction(tok["q"]))}
    return None  # a Symbol / Dummy token has no negated token

HASH_TWINS = [({"i": -1}, {"i": -2}), ({"f": "-1.0"}, {"f": "-2.0"}), ({"q": "-1/1"}, {"q": "-2/1"})]   # hash(-1) == hash(-2)


def _family(rng, symbolic=False, big=True):
    """2-4 parameter triples with engineered relations: a base triple and its siblings (big=False: no angles beyond
    13 rad, so that rounding of phi + lambda cannot add up over 140 operations)"""
    def tok():
        return rng.choice(SYM_TOKENS) if symbolic and rng.random() < 0.6 else _num_tok(rng, big)

    def value(t):
        return _tok_value(t, _Table(), {})

    base = [tok(), tok(), tok()]
    hows = rng.sample(["dup", "near", "hash", "swap", "neg", "type", "alleq", "cancel", "one", "dummy"]
                      + (["nearcancel"] if big else []), rng.randrange(1, 4))
    if symbolic and rng.random() < 0.35 and "dummy" not in hows:
        hows.append("dummy")
    twin = rng.choice(HASH_TWINS)
    jh = rng.randrange(3)
    if "hash" in hows:
        base[jh] = twin[0]
    if "dummy" in hows and symbolic:
        base[rng.randrange(3)] = {"d": "a", "j": 0}
    fam = [base]
    for how in hows:
        t = list(base)
        j = rng.randrange(3)
        num = _is_numeric_tok(t[j])
        if how == "near" and num:
            t[j] = {"f": repr(value(t[j]) + rng.choice([1e-9, 2e-9, -3e-9, 4e-9]))}
        elif how == "hash":
            t[jh] = twin[1]
        elif how == "swap":
            a, b = rng.sample(range(3), 2)
            t[a], t[b] = t[b], t[a]
        elif how == "neg" and num:
            t[j] = _neg_tok(t[j])
        elif how == "type" and num:        # the same (or the nearest) value as another type
            v = value(t[j])
            if isinstance(t[j], dict) and "f" in t[j] and v == int(v):
                t[j] = {"i": int(v)}
            elif isinstance(t[j], dict) and "i" in t[j]:
                t[j] = rng.choice([{"f": repr(v)}, {"q": f"{int(v)}/1"}])
            else:
                t[j] = {"f": repr(v)}
        elif how == "alleq":
            t = [t[j]] * 3
        elif how == "cancel":
            t = _cancelled(t)
        elif how == "nearcancel":
            if rng.random() < 0.5:
                t[1], t[2] = {"f": "1000.0"}, {"f": "-1000.004"}
            else:
                v = round(rng.uniform(40, 400), 3)
                t[1], t[2] = {"f": repr(v)}, {"f": repr(-v * (1 + 3e-6))}
        elif how == "one":
            t[j] = tok()
        elif how == "dummy" and symbolic:  # another Dummy of the same name; a Symbol that prints like the Dummy
            t = [({"d": "a", "j": 1} if x == {"d": "a", "j": 0} else x) for x in t]
            if rng.random() < 0.5:
                fam.append([({"s": "_a"} if x == {"d": "a", "j": 0} else x) for x in base])
        fam.append(t)
    return fam


def _cancelled(t):
    """the triple with lambda := -phi (controlled U3 in the domain where the bundled rule is exact)"""
    ng = _neg_tok(t[1])
    return [t[0], t[1], ng] if ng is not None else [t[0], "a", "-a"]


OTHER_PLAIN = ["H", "X", "Y", "Z", "S", "T", "CNOT", "CZ", "SWAP"]


def _typed_other(rng, n, symbolic=False, nongate=False, big=True):
    cands = [g for g in OTHER_PLAIN if circ.BUILTIN_QUBITS[g] <= n]
    if nongate and rng.random() < 0.12:      # operations that are not gates: no rule applies to them
        if rng.random() < 0.5:
            return {"other": "reset", "qs": [rng.randrange(n)]}
        w = rng.randrange(1, min(n, 3) + 1)
        return {"other": "multiphase", "qs": list(range(w)),
                "phases": [rat(Fraction(rng.randrange(-8, 9), 4)) for _ in range(2 ** w)]}
    if rng.random() < 0.5:
        name = rng.choice(["RX", "RY", "RZ", "PHASE"])
        g = {"gate": name, "sym": [rng.choice(SYM_TOKENS[:10]) if symbolic and rng.random() < 0.5 else _num_tok(rng, big)]}
    else:
        g = {"gate": rng.choice(cands), "sym": []}
    if n > circ.BUILTIN_QUBITS[g["gate"]] and rng.random() < 0.15:
        g = {"controlled": g, "k": 1}
    return {"g": g, "qs": rng.sample(range(n), circ.spec_num_qubits(g))}


def _typed_u3(rng, n, fam, prev_qs, kmax=3):
    t = list(rng.choice(fam))
    k = rng.choice([0, 0, 1, 1, 2, 3])
    k = min(k, n - 1, kmax)
    if k and rng.random() < 0.5:
        t = _cancelled(t)
    g = {"gate": "U3", "sym": t}
    if rng.random() < 0.08:
        g = {"dagger": g}
    if k:
        g = {"controlled": g, "k": k}
    same = [q for q in prev_qs if len(q) == k + 1]
    if same and rng.random() < 0.45:      # the same qubit set as an earlier operation, in another (or the same) order
        qs = list(rng.choice(same))
        rng.shuffle(qs)
    else:
        qs = rng.sample(range(n), k + 1)
    prev_qs.append(qs)
    return {"g": g, "qs": qs}


def _twin(rng, o, fam, n):
    """the operation `o` (a plain or controlled U3 spec) with ONE component changed: the parameter triple (another
    member of the family), the order of its qubits, the qubits (same count), or the number of controls"""
    inner = o["g"].get("controlled") or o["g"]
    k = o["g"]["k"] if "controlled" in o["g"] else 0
    t, qs = list(inner["sym"]), list(o["qs"])
    how = rng.choice(["triple", "triple", "order", "qubits", "controls"])
    if how == "triple":
        t = list(rng.choice(fam))
    elif how == "order" and len(qs) > 1:
        qs = qs[1:] + qs[:1] if rng.random() < 0.5 else qs[::-1]
    elif how == "qubits":
        qs = rng.sample(range(n), len(qs))
    elif how == "controls":
        k = k + 1 if (k + 1 < n and (k == 0 or rng.random() < 0.5)) else max(k - 1, 0)
        qs = (qs + [q for q in range(n) if q not in qs])[:k + 1]
    g = {"gate": "U3", "sym": t}
    return {"g": {"controlled": g, "k": k} if k else g, "qs": qs}


def _exotic_case(rng, flavour):
    symbolic = flavour == "symbolic"
    fam = _family(rng, symbolic, big=flavour != "long")
    c = {"kind": "exotic", "n": None, "rules": rng.choice([1, 1, 1, 1, 2, 3, 0]), "flavour": flavour}
    prev = []
    if flavour == "long":
        n = rng.choice([2, 3])
        length = rng.choice([64, 65, 65, 66, 100, 127, 128, 129, 129, 130, 140, 255, 256, 257, 511, 512, 513, 1023, 1024, 1025])
        pool = [_typed_u3(rng, n, fam, prev, kmax=1) for _ in range(5)] + [_typed_other(rng, n, big=False) for _ in range(4)]
        c["ops"] = [dict(rng.choice(pool)) for _ in range(length)]
        c["rules"] = rng.choice([1, 1, 2])
        c["n"] = rng.choice([None, n, n + 1])
    elif flavour == "wide":
        n = rng.choice([10, 11, 12])
        pairs = [([1, 10], [11, 0]), ([1, 11], [11, 1]), ([10, 11], [1, 0, 11]), ([2, 10], [10, 2]), ([1, 0], [10]),
                 ([0, 1, 2, 3, 10], [10, 3, 2, 1, 0]), ([11, 10, 9, 8, 7, 6], [6, 7, 8, 9, 10, 11])]
        ops = []
        for qa, qb in rng.sample(pairs, 2):
            t = rng.choice(fam)
            t = _cancelled(t) if rng.random() < 0.5 else list(t)
            for qs in (qa, qb):
                tt = list(t)
                g = {"gate": "U3", "sym": tt}
                if max(qs) < n:
                    ops.append({"g": {"controlled": g, "k": len(qs) - 1} if len(qs) > 1 else g, "qs": list(qs)})
        for _ in range(rng.randrange(1, 4)):
            ops.insert(rng.randrange(len(ops) + 1), _typed_other(rng, n))
        c["ops"], c["n"] = ops, n
    else:
        n = rng.choice([2, 3, 3, 4])
        ops = []
        for _ in range(rng.randrange(2, 7)):
            ops.append(_typed_u3(rng, n, fam, prev) if rng.random() < 0.7 else _typed_other(rng, n, symbolic, not symbolic))
        # twins: a copy of one U3 operation that differs from it in exactly ONE component
        u3s = [o for o in ops if "g" in o and _is_u3(o["g"])]
        for _ in range(rng.randrange(0, 3) if u3s else 0):
            ops.insert(rng.randrange(len(ops) + 1), _twin(rng, rng.choice(u3s), fam, n))
        if rng.random() < 0.3:      # rules that feed each other: RX -> U3 (fixture), U3 -> RZ RY RZ (bundled), SWAP -> 3 CNOT
            c["rule_list"] = (list(rng.choice([["u3", "rx", "u3"], ["rx", "u3"], ["u3", "rx"], ["u3", "u3", "rx"], ["rx", "u3", "rx"],
                                               ["swap", "u3", "rx", "u3"], ["rx", "swap", "rx"]])) if rng.random() < 0.5 else
                              [rng.choice(["u3", "u3", "rx", "rx", "swap"]) for _ in range(rng.randrange(1, 5))])
            c["rules"] = len(c["rule_list"])
            for _ in range(rng.randrange(1, 3)):
                g = {"gate": "RX", "sym": [rng.choice(SYM_TOKENS[:10]) if symbolic and rng.random() < 0.5 else _num_tok(rng)]}
                ops.insert(rng.randrange(len(ops) + 1), {"g": g, "qs": [rng.randrange(n)]})
            if n >= 2 and rng.random() < 0.5:
                ops.insert(rng.randrange(len(ops) + 1), {"g": {"gate": "SWAP", "sym": []}, "qs": rng.sample(range(n), 2)})
        used = max(q for o in ops for q in o["qs"]) + 1
        c["ops"], c["n"] = ops, rng.choice([None, None, used, min(used + 1, 5)])
    if symbolic:
        c["bind"] = _sym_bind(rng)
    return _canon_case(c)


def _history_case(rng):
    symbolic = rng.random() < 0.3
    fam = _family(rng, symbolic)
    n = rng.choice([2, 3, 3, 4])
    prev = []

    def u3():
        return _typed_u3(rng, n, fam, prev, kmax=2)

    def anyop():
        return u3() if rng.random() < 0.6 else _typed_other(rng, n, symbolic, not symbolic)

    base = [anyop() for _ in range(rng.randrange(1, 6))]
    steps = [{"new": base}]
    count = 1          # circuits so far
    news = [0]         # indices of circuits made by "new"
    results = []       # indices of circuits that are results of a decomposition
    last_new = base
    for _ in range(rng.randrange(3, 8)):
        pat = rng.choice(["dec", "sibling", "mutate_result", "again", "set", "delins", "plus"])
        k = rng.choice([1, 1, 1, 2, 0])
        if pat in ("dec", "again"):
            steps.append({"dec": rng.choice(news + results), "rules": k})
            results.append(count)
            count += 1
        elif pat == "sibling":
            sib = [dict(o) for o in last_new]
            if sib:
                i = rng.randrange(len(sib))
                how = rng.choice(["order", "replace", "drop", "add", "twin", "twin"])
                if how == "twin" and "g" in sib[i] and _is_u3(sib[i]["g"]):
                    sib[i] = _twin(rng, sib[i], fam, n)
                elif how == "order":
                    qs = list(sib[i]["qs"])
                    rng.shuffle(qs)
                    sib[i] = dict(sib[i], qs=qs)
                elif how == "replace":
                    sib[i] = anyop()
                elif how == "drop":
                    del sib[i]
                else:
                    sib.insert(i, u3())
            steps.append({"new": sib})
            steps.append({"dec": count, "rules": k})
            news.append(count)
            results.append(count + 1)
            count += 2
            last_new = sib
        elif pat == "mutate_result" and results:
            i = rng.choice(results)
            steps.append({"on": i, "ins": rng.randrange(0, 8), "op": u3()})
            steps.append({"dec": i, "rules": max(k, 1)})
            results.append(count)
            count += 1
        elif pat == "set":
            i = rng.choice(news)
            steps.append({"on": i, "set": rng.randrange(0, 8), "op": anyop()})
            steps.append({"dec": i, "rules": max(k, 1)})
            results.append(count)
            count += 1
        elif pat == "delins":
            i = rng.choice(news)
            steps.append({"on": i, "del": rng.randrange(0, 8)})
            steps.append({"on": i, "ins": rng.randrange(0, 8), "op": anyop()})
            steps.append({"dec": i, "rules": max(k, 1)})
            results.append(count)
            count += 1
        elif pat == "plus":
            i = rng.choice(news + results)
            steps.append({"plus": i, "op": u3()})
            steps.append({"dec": count, "rules": max(k, 1)})
            results.append(count + 1)
            count += 2
    c = {"kind": "history", "n": n, "rule_objects": rng.choice(["long", "fresh"]), "steps": steps}
    if symbolic:
        c["bind"] = _sym_bind(rng)
    return _canon_case(c)


TOY_PREDS = [["mod", 2, 0], ["mod", 3, 1], ["gt", 2], ["gt", 5], ["eq", 1], ["eq", 4], ["always"], ["never"]]
TOY_PRODS = [["split"], ["dec"], ["drop"], ["dup"], ["inc", 1], ["inc", 3], ["const", [7, 0]], ["const", []]]


def generate(rng, tier):
    big = tier == "thorough"
    cases = []
    n_circ = 420 if big else 85
    for i in range(n_circ):
        n = rng.choice([1, 2, 2, 3, 3, 4] + ([4, 5] if big else []))
        length = rng.randrange(0, 9 if n <= 3 else 7)
        ops, declared = _rand_circuit(rng, n, length)
        if declared and declared > (5 if big else 4):
            declared = None
        cases.append({"kind": "circuit", "n": declared, "rules": rng.choice([0, 1, 1, 1, 1, 2, 3]), "ops": ops})
    for i in range(60 if big else 12):   # malformed stream: a U3 (plain or controlled) with the wrong number of parameters
        n = rng.choice([2, 3])
        ops, declared = _rand_circuit(rng, n, rng.randrange(1, 4), nongate=False)
        bad = _u3(*[circ.rat_angle(rng) for _ in range(3)])
        bad["angles"] = bad["angles"][:rng.choice([0, 1, 2])] if rng.random() < 0.7 else bad["angles"] + [circ.rat_angle(rng)]
        g = {"controlled": bad, "k": 1} if rng.random() < 0.4 else bad
        ops.insert(rng.randrange(len(ops) + 1), {"g": g, "qs": rng.sample(range(n), 2 if "controlled" in g else 1)})
        cases.append({"kind": "circuit", "n": None, "rules": rng.choice([0, 1, 2]), "ops": ops})
    for i in range(80 if big else 16):
        n = rng.choice([1, 2, 3])
        ops, declared = _rand_circuit(rng, n, rng.randrange(1, 6), sym=True, nongate=False)
        bind = {s: rat(Fraction(rng.randrange(-12, 13), 8)) for s in ("a", "b", "c")}
        cases.append({"kind": "symbolic", "n": declared, "rules": rng.choice([1, 1, 2, 0]), "ops": ops, "bind": bind})
    for i in range(150 if big else 30):
        n = rng.choice([2, 3, 4])
        r = rng.random()
        if r < 0.5:
            op = _rand_u3_op(rng, n, sym=rng.random() < 0.3)
            if rng.random() < 0.25:
                inner = op["g"].get("controlled", op["g"])
                key = "sym" if "sym" in inner else "angles"
                if key in inner:
                    inner[key] = inner[key][:rng.choice([0, 1, 2])]
        else:
            op = _rand_circuit(rng, n, 1)[0][0]
        cases.append({"kind": "rule", "op": op})
    for i in range(500 if big else 90):
        ops = [rng.randrange(-2, 12) for _ in range(rng.randrange(0, 6))]
        cases.append(_chain_case(rng, ops, rng.choice([0, 1, 2, 2, 3, 4])))
    for i in range(40 if big else 8):     # 60-140 operations (block-wise implementations), few rules
        length = rng.choice([60, 64, 65, 65, 66, 100, 128, 129, 129, 130, 140, 256, 257, 512, 513, 1024, 1025])
        cases.append(_chain_case(rng, [rng.randrange(-2, 12) for _ in range(length)], rng.choice([1, 2, 2, 3]), raising=False))
    for i in range(200 if big else 44):
        cases.append(_exotic_case(rng, rng.choice(["numeric", "numeric", "symbolic"])))
    for i in range(20 if big else 5):
        cases.append(_exotic_case(rng, "long"))
    for i in range(24 if big else 5):
        cases.append(_exotic_case(rng, "wide"))
    for i in range(120 if big else 30):
        cases.append(_history_case(rng))
    return cases


def _chain_case(rng, ops, n_rules, raising=True):
    rules = []
    for _ in range(n_rules):
        if rules and rng.random() < 0.2:     # the very same rule OBJECT stands in the list again
            rules.append({"same": rng.choice([j for j, r in enumerate(rules) if "same" not in r])})
            continue
        pred = rng.choice(TOY_PREDS)
        prod = rng.choice(TOY_PRODS)
        if raising and rng.random() < 0.04:
            pred = rng.choice([["raise"], ["mod", 0, 0]])
        if raising and rng.random() < 0.04:
            prod = ["raise"]
        rules.append({"pred": pred, "prod": prod, "ret": rng.choice(["list", "list", "tuple", "iter", "gen"]),
                      "shared": rng.random() < 0.3})
    return {"kind": "chain", "ops": ops, "rules": rules, "ops_as": rng.choice(["list", "list", "tuple", "gen"]),
            "rules_as": rng.choice(["list", "tuple"]), "eq": rng.random() < 0.3}


def nontrivial(c):
    if c["kind"] in ("circuit", "symbolic"):
        if c["rules"] < 1 or len(c["ops"]) < 2:
            return False
        m = [bool("g" in o and _is_u3(o["g"])) for o in c["ops"]]
        return any(m) and not all(m)
    if c["kind"] == "exotic":
        m = [bool("g" in o and _is_u3(o["g"])) for o in c["ops"]]
        return c["rules"] >= 1 and len(c["ops"]) >= 2 and any(m) and not all(m)
    if c["kind"] == "history":
        return sum(1 for st in c["steps"] if "dec" in st and st["rules"] >= 1) >= 2
    if c["kind"] == "chain":
        def matches(r, x):
            try:
                return _toy_pred(r["pred"], x) is True
            except (ValueError, ZeroDivisionError):
                return False
        return len(c["rules"]) >= 2 and any(matches(r, x) for r in _resolved_rules(c) for x in c["ops"])
    if c["kind"] == "rule":
        return "g" in c["op"] and _is_u3(c["op"]["g"]) is not None
    return False


# ------------------------------------------------------------------ toy rules (chain kind)
def _toy_pred(p, n):
    if p[0] == "mod":
        return n % p[1] == p[2]
    if p[0] == "gt":
        return n > p[1]
    if p[0] == "eq":
        return n == p[1]
    if p[0] == "always":
        return True
    if p[0] == "never":
        return False
    raise ValueError("toy predicate raises")


def _toy_prod(p, n):
    if p[0] == "split":
        return [n // 2, n - n // 2]
    if p[0] == "dec":
        return [n - 1, 1]
    if p[0] == "drop":
        return []
    if p[0] == "dup":
        return [n, n]
    if p[0] == "inc":
        return [n + p[1]]
    if p[0] == "const":
        return list(p[1])
    raise ValueError("toy production raises")


class _ToyRule:
    """spec: pred, prod; optional: ret = list | tuple | iter | gen (what production returns; "iter": true = iter),
    shared = true (the rule keeps ONE list per operation and hands that very object out on every call)"""

    def __init__(self, spec):
        self.spec = spec
        self.store = {}

    def predicate(self, n):
        return _toy_pred(self.spec["pred"], n)

    def production(self, n):
        if self.spec.get("shared"):
            if n not in self.store:
                self.store[n] = _toy_prod(self.spec["prod"], n)
            out = self.store[n]
        else:
            out = _toy_prod(self.spec["prod"], n)
        ret = self.spec.get("ret") or ("iter" if self.spec.get("iter") else "list")
        if ret == "tuple":
            return tuple(out)
        if ret == "iter":
            return iter(out)
        if ret == "gen":
            return (x for x in out)
        return out


class _ToyRuleEq(_ToyRule):
    """rules that compare (and hash) equal when they do the same thing - still two entries of the rule list"""

    def _key(self):
        return common.canon([self.spec["pred"], self.spec["prod"]])

    def __eq__(self, other):
        return isinstance(other, _ToyRuleEq) and self._key() == other._key()

    def __hash__(self):
        return hash(self._key())


def _resolved_rules(c):
    """rule specs with {"same": j} (the OBJECT of rule j stands here again) replaced by the spec of rule j"""
    out = []
    for r in c["rules"]:
        out.append(out[r["same"]] if "same" in r else r)
    return out


def _toy_objects(c):
    cls = _ToyRuleEq if c.get("eq") else _ToyRule
    objs = []
    for r in c["rules"]:
        objs.append(objs[r["same"]] if "same" in r else cls(r))
    return objs


def _as(kind, seq):
    if kind == "tuple":
        return tuple(seq)
    if kind == "gen":
        return (x for x in seq)
    return list(seq)


# ------------------------------------------------------------------ own simulation (exotic / history / rule / variants)
TOL_TIGHT = 1e-10      # actions computed by _simulate from the library's gate matrices (double precision, <= 150 gates)
_MAT_CACHE = {}
_LONG = []             # U3GateToRotation objects that live as long as the process: shared by ALL cases


def _long_rules(k):
    _, _, dec, _ = _mods()
    while len(_LONG) < k:
        _LONG.append(dec.U3GateToRotation())
    return _LONG[:k]


class _RxToU3:
    """fixture rule (mirrored in lean/OQ/Driver/C18.lean): RX(theta) -> U3(theta, -pi/2, pi/2), the plain gate only"""

    def __init__(self, tab):
        self.tab = tab

    def predicate(self, op):
        _, _gates, _, _ = _mods()
        return isinstance(op, _gates.GateOperation) and op.gate.name == "RX"

    def production(self, op):
        oqc, _, _, _ = _mods()
        import sympy
        (theta,) = op.params
        return [oqc.U3(theta, self.tab.add(sympy.sympify("-pi/2"), "-pi/2"), self.tab.add(sympy.sympify("pi/2"), "pi/2"))(
            *op.qubit_indices)]


class _SwapToCnots:
    """fixture rule (mirrored in the driver): SWAP(a, b) -> CNOT(a, b), CNOT(b, a), CNOT(a, b)"""

    def predicate(self, op):
        _, _gates, _, _ = _mods()
        return isinstance(op, _gates.GateOperation) and op.gate.name == "SWAP"

    def production(self, op):
        oqc, _, _, _ = _mods()
        a, b = op.qubit_indices
        return (oqc.CNOT(a, b), oqc.CNOT(b, a), oqc.CNOT(a, b))


def _rule_names(c):
    return list(c.get("rule_list") or ["u3"] * c["rules"])


def _make_rules(names, tab, long=False):
    _, _, dec, _ = _mods()
    n_u3 = names.count("u3")
    pool = list(_long_rules(n_u3)) if long else [dec.U3GateToRotation() for _ in range(n_u3)]
    return [pool.pop(0) if nm == "u3" else (_RxToU3(tab) if nm == "rx" else _SwapToCnots()) for nm in names]


def _kind_m(mop):
    """what a rule of the lists used here can match: 'u3' (plain or controlled U3), 'rx' / 'swap' (the plain gates)"""
    if _u3_kind_m(mop):
        return "u3"
    g = mop.get("g")
    if isinstance(g, dict) and g.get("gate") == "RX":
        return "rx"
    if isinstance(g, dict) and g.get("gate") == "SWAP":
        return "swap"
    return None


def _u3_kind_m(mop):
    """model-form operation -> 'plain' / 'controlled' (what the bundled rule is meant to replace) / None"""
    g = mop.get("g")
    if not isinstance(g, dict):
        return None
    if g.get("gate") == "U3":
        return "plain"
    w = g.get("controlled")
    if isinstance(w, dict) and w.get("gate") == "U3":
        return "controlled"
    return None


def _gate_matrix(op, mop, bind, bkey):
    """numpy matrix of the (bound) gate of a REAL operation, taken from the library (gate.matrix); remembered per
    canonical gate spec + binding (the matrix of a gate is a function of its spec: properties C01 / C02 / C07)"""
    key = common.canon(mop["g"]) + "|" + bkey
    cacheable = "unknown" not in key
    if cacheable and key in _MAT_CACHE:
        return _MAT_CACHE[key]
    g = op.gate
    if bind and g.free_symbols:
        g = g.bind(bind)
    m = circ.impl_matrix_to_numpy(g.matrix)
    if cacheable:
        if len(_MAT_CACHE) > 20000:
            _MAT_CACHE.clear()
        _MAT_CACHE[key] = m
    return m


def _simulate(pairs, n, cols):
    """apply (matrix, qubits) pairs in order to the columns `cols` (2^n x K); qubit 0 is the most significant bit,
    the first qubit of an operation the most significant bit of its matrix index (circ.embed_reference convention)"""
    import numpy as np
    K = cols.shape[1]
    psi = cols.reshape((2,) * n + (K,))
    for G, qs in pairs:
        k = len(qs)
        Gt = np.asarray(G).reshape((2,) * (2 * k))
        psi = np.tensordot(Gt, psi, axes=(list(range(k, 2 * k)), list(qs)))
        psi = np.moveaxis(psi, list(range(k)), list(qs))
    return psi.reshape(2 ** n, K)


def _columns(n, salt):
    """the states the actions are compared on: the whole basis up to 6 qubits, else 3 seeded random states"""
    import numpy as np
    if n <= 6:
        return np.eye(2 ** n, dtype=complex)
    import hashlib
    r = np.random.RandomState(int(hashlib.sha256(common.canon(salt).encode()).hexdigest()[:8], 16))
    a = r.normal(size=(2 ** n, 3)) + 1j * r.normal(size=(2 ** n, 3))
    return a / np.linalg.norm(a, axis=0)


def _phase_dist(U, V):
    """distance between U and the best p*V, p fixed on the largest entry of V; includes ||p| - 1|"""
    import numpy as np
    if U.shape != V.shape:
        return float("inf")
    idx = np.unravel_index(np.argmax(np.abs(V)), V.shape)
    if abs(V[idx]) < 1e-12:
        return float(np.max(np.abs(U)))
    p = U[idx] / V[idx]
    return float(max(abs(abs(p) - 1), np.max(np.abs(U - p * V)) / _scale(U)))


def _segmented_dists(in_ops, in_mops, out_ops, out_mops, n, tab, bind, salt):
    """circuits holding non-gate operations (reset, multi-phase): no rule applies to those, so they must come back
    unchanged and in order ("anchors"), and between two anchors the gate operations must act alike, run by run
    (a scalar phase commutes with every operation, so one phase per run is one global phase).
    -> {"anchors": False} | {"exact": worst run, "known": worst run when the documented deviation is allowed | None}"""
    def runs(objs, mops):
        out, cur, anchors = [], ([], []), []
        for o, m in zip(objs, mops):
            if "g" in m:
                cur[0].append(o)
                cur[1].append(m)
            else:
                anchors.append(m)
                out.append(cur)
                cur = ([], [])
        out.append(cur)
        return out, anchors

    rin, ain = runs(in_ops, in_mops)
    rout, aout = runs(out_ops, out_mops)
    if ain != aout:
        return {"anchors": False, "exact": float("inf"), "known": None}
    exact, known, any_known = 0.0, 0.0, False
    for (io, im), (oo, om) in zip(rin, rout):
        if not io and not oo:
            continue
        d = _action_dists(io, im, oo, om, n, tab, bind, [salt, len(im)])
        if d is None:
            return None
        exact = max(exact, d["exact"])
        known = max(known, d["known"] if d["known"] is not None else d["exact"])
        any_known = any_known or d["known"] is not None
    return {"exact": exact, "known": known if any_known else None}


def _action_dists(in_ops, in_mops, out_ops, out_mops, n, tab, bind, salt):
    """in_ops / out_ops: REAL gate operations (before / after decomposition), *_mops their model-form specs.
    -> {"exact": distance up to one global phase between the two actions,
        "known": the same with every controlled U3 of the input replaced by its documented deviation F9 (controlled
                 block times e^{-i(phi+lambda)/2}); None when no controlled U3 with a non-trivial phase is present}"""
    import cmath
    import numpy as np
    if any("g" not in o for o in list(in_mops) + list(out_mops)):
        return _segmented_dists(in_ops, in_mops, out_ops, out_mops, n, tab, bind, salt)
    for o in list(in_mops) + list(out_mops):
        if any(q >= n or q < 0 for q in o["qs"]):
            return None
    bkey = common.canon(sorted((str(k_), v) for k_, v in (bind or {}).items()))
    cols = _columns(n, salt)
    pin, pknown, nknown = [], [], 0
    for op, mop in zip(in_ops, in_mops):
        G = _gate_matrix(op, mop, bind, bkey)
        pin.append((G, mop["qs"]))
        Gk = G
        if _u3_kind_m(mop) == "controlled" and len(mop["g"]["controlled"]["params"]) == 3:
            try:
                toks = mop["g"]["controlled"]["params"]
                if isinstance(toks[1], list):      # half-angle points of the numeric kinds
                    (pc, ps), (lc, ls) = [[float(unrat(x)) for x in t] for t in toks[1:]]
                    q = complex(pc, ps) * complex(lc, ls)
                else:
                    q = cmath.exp(0.5j * (_tok_value(toks[1], tab, bind) + _tok_value(toks[2], tab, bind)))
            except Exception:
                q = 1.0
            if abs(q - 1) > 1e-13:
                Gk = np.array(G, dtype=complex)
                Gk[-2:, -2:] = Gk[-2:, -2:] * np.conj(q)
                nknown += 1
        pknown.append((Gk, mop["qs"]))
    pout = [(_gate_matrix(op, mop, bind, bkey), mop["qs"]) for op, mop in zip(out_ops, out_mops)]
    V = _simulate(pout, n, cols)
    d = {"exact": _phase_dist(_simulate(pin, n, cols), V), "known": None}
    if nknown:
        d["known"] = _phase_dist(_simulate(pknown, n, cols), V)
    return d


# ------------------------------------------------------------------ implementation
def _mat(m):
    import numpy as np
    a = np.asarray(circ.impl_matrix_to_numpy(m))
    return [[[float(z.real), float(z.imag)] for z in row] for row in a]


def _np(m):
    import numpy as np
    return np.array([[complex(e[0], e[1]) for e in row] for row in m]) if m is not None else None


def _err(e):
    return {"err": {ValueError: "err:value", AttributeError: "err:attr", TypeError: "err:type",
                    ZeroDivisionError: "err:zerodiv"}.get(type(e), "err:" + type(e).__name__), "msg": str(e)[:120]}


DEFAULT_BIND = {"a": "7/10", "b": "-13/10", "c": "21/10", "k": "3/10"}
CALL_ERRORS = (AttributeError, ValueError, TypeError)


def _run_chain(c):
    _, _, _, gen = _mods()
    objs = _toy_objects(c)

    def call(f):
        try:
            return [int(x) for x in f()]
        except (ValueError, ZeroDivisionError) as e:
            return _err(e)

    ops_arg = _as(c.get("ops_as"), c["ops"])
    rules_arg = _as(c.get("rules_as") if c.get("rules_as") != "gen" else "list", objs)
    first = call(lambda: gen.decompose_operations(ops_arg, rules_arg))
    out = dict(first) if isinstance(first, dict) else {"res": first}
    out["ops_after_ok"] = (not isinstance(ops_arg, (list, tuple))) or list(ops_arg) == list(c["ops"])
    out["rules_after_ok"] = len(rules_arg) == len(objs) and all(a is b for a, b in zip(rules_arg, objs))
    # the same rule objects again, and operation by operation
    out["res2"] = call(lambda: gen.decompose_operations(_as(c.get("ops_as"), c["ops"]), rules_arg))
    out["per_op"] = call(lambda: [y for x in c["ops"] for y in gen.decompose_operation(x, rules_arg)])
    return out


def _run_rule(c):
    oqc, _gates, dec, gen = _mods()
    tab, customs = _Table(), {}
    op = _op(c["op"], tab, customs)
    rule = dec.U3GateToRotation()
    out = {}
    try:
        p = rule.predicate(op)
        out["predicate"] = bool(p) if isinstance(p, (bool, int)) else repr(p)
    except (AttributeError, ValueError) as e:
        out["predicate"] = _err(e)["err"]
    produced = {}
    for name, r in (("production", rule), ("production2", rule), ("production_long", _long_rules(1)[0])):
        try:
            produced[name] = list(r.production(op))
            out[name] = [_op_spec(o, tab, customs) for o in produced[name]]
        except Exception as e:    # judged by the oracle where the rule applies; out of domain elsewhere
            out[name] = _err(e)["err"]
    # action of what the rule produced (each of the three calls), for a well-formed (controlled) U3
    out["dists"] = None
    if "g" in c["op"] and _is_u3(c["op"]["g"]) and len(_params(c["op"]["g"])) == 3:
        bind = _bindmap(dict(c, bind=c.get("bind") or DEFAULT_BIND), tab)
        mop = _model_op(c["op"])
        n = max(c["op"]["qs"]) + 1
        out["dists"] = {}
        for name, objs in produced.items():
            if all(isinstance(o, _gates.GateOperation) for o in objs):
                out["dists"][name] = _action_dists([op], [mop], objs, out[name], n, tab, bind, c["op"])
    return out


def _variant_record(name, ops_objs, main_specs, in_ops, in_mops, n, tab, customs, bind, salt):
    specs = [_op_spec(o, tab, customs) for o in ops_objs]
    rec = {"name": name, "same": specs == main_specs, "ops": None, "dist": None}
    if not rec["same"]:
        rec["ops"] = specs
        rec["dist"] = _action_dists(in_ops, in_mops, list(ops_objs), specs, n, tab, bind, salt)
    return rec


def _run_exotic(c):
    """typed-parameter circuits: every call path on the same input, actions by the harness's own simulation"""
    oqc, _gates, dec, gen = _mods()
    tab, customs = _Table(), {}
    ops = [_op(o, tab, customs) for o in c["ops"]]
    in_mops = [_model_op(o) for o in c["ops"]]
    circuit = oqc.Circuit(ops, n_qubits=c.get("n"))
    names = _rule_names(c)
    rules = _make_rules(names, tab)
    bind = _bindmap(c, tab)
    n = int(circuit.n_qubits)
    out = {"n_in": n}
    try:
        d = dec.decompose_orquestra_circuit(circuit, rules)
    except CALL_ERRORS as e:
        out.update(_err(e))
        return out
    main_objs = list(d.operations)
    out["ops"] = [_op_spec(o, tab, customs) for o in main_objs]
    out["n"] = int(d.n_qubits)
    out["eq_input"] = bool(d == circuit)
    out["same_ops_objects"] = len(main_objs) == len(ops) and all(a is b or a == b for a, b in zip(main_objs, ops))
    salt = [c["ops"], c.get("n")]      # (runs of gate operations between non-gate operations are compared run by run)
    out["dist"] = _action_dists(ops, in_mops, main_objs, out["ops"], n, tab, bind, salt) if ops else None
    out["single"] = []
    if "u3" in names and len(ops) <= 12:
        one = [r for r, nm in zip(rules, names) if nm == "u3"][:1]
        for i, (o, mop) in enumerate(zip(ops, in_mops)):
            if _u3_kind_m(mop):
                dd = list(dec.decompose_orquestra_circuit(oqc.Circuit([o], n_qubits=n), one).operations)
                out["single"].append({"i": i, "dist": _action_dists([o], [mop], dd, [_op_spec(x, tab, customs) for x in dd],
                                                                    n, tab, bind, salt)})
    # ---- the other ways of making the same call (each judged like the main one)
    variants = []

    def variant(name, f):
        try:
            res = list(f())
        except CALL_ERRORS as e:
            variants.append({"name": name, "err": _err(e)["err"], "msg": str(e)[:100]})
            return
        variants.append(_variant_record(name, res, out["ops"], ops, in_mops, n, tab, customs, bind, salt))

    def one_at_a_time():
        cur = circuit
        for r in rules:
            cur = dec.decompose_orquestra_circuit(cur, [r])
        return cur.operations

    variant("operations_fn", lambda: dec.decompose_operations(list(circuit.operations), rules))
    variant("one_rule_at_a_time", one_at_a_time)
    variant("long_lived_rules", lambda: dec.decompose_orquestra_circuit(circuit, _make_rules(names, tab, long=True)).operations)
    variant("rules_as_tuple", lambda: dec.decompose_orquestra_circuit(circuit, tuple(rules)).operations)
    variant("operation_by_operation", lambda: [x for o in ops for x in gen.decompose_operation(o, rules)])
    variant("generator_input", lambda: dec.decompose_operations((o for o in ops), rules))
    out["input_intact"] = (len(circuit.operations) == len(ops) and all(a is b for a, b in zip(circuit.operations, ops))
                           and int(circuit.n_qubits) == n)
    # the caller changes the first result, then asks again (not when the result IS the input object: then the
    # caller has changed the input, and the main call says nothing about the new one)
    out["result_is_input"] = d is circuit or d.operations is circuit.operations
    if not out["result_is_input"] and isinstance(d.operations, list):
        d.operations.reverse()
        d.operations.append(oqc.X(0))
        # ... with a call that differs in ONE argument (no rules) in between
        out["no_rules_between"] = [_op_spec(o, tab, customs) for o in dec.decompose_orquestra_circuit(circuit, []).operations]
        variant("again_after_result_modified", lambda: dec.decompose_orquestra_circuit(circuit, rules).operations)
    out["variants"] = variants
    return out


def _run_history(c):
    """a script on long-lived circuits and rule objects (see the module docstring)"""
    oqc, _gates, dec, gen = _mods()
    tab, customs = _Table(), {}
    bind = _bindmap(c, tab)
    n = c["n"]
    rules = _long_rules(3) if c.get("rule_objects") == "long" else [dec.U3GateToRotation() for _ in range(3)]
    circuits, recs = [], []
    for si, st in enumerate(c["steps"]):
        if "new" in st:
            circuits.append(oqc.Circuit([_op(o, tab, customs) for o in st["new"]], n_qubits=n))
        elif "dec" in st:
            src = circuits[st["dec"]]
            before = list(src.operations)
            rec = {"step": si, "rules": st["rules"], "n_in": int(src.n_qubits),
                   "in": [_op_spec(o, tab, customs) for o in before]}
            try:
                d = dec.decompose_orquestra_circuit(src, rules[:st["rules"]])
            except CALL_ERRORS as e:
                rec.update(_err(e))
                recs.append(rec)
                circuits.append(oqc.Circuit(before, n_qubits=n))
                continue
            after = list(d.operations)
            rec["out"] = [_op_spec(o, tab, customs) for o in after]
            rec["n_out"] = int(d.n_qubits)
            rec["in_after"] = [_op_spec(o, tab, customs) for o in src.operations]
            rec["result_is_input"] = d is src
            rec["dist"] = _action_dists(before, rec["in"], after, rec["out"], max(n, rec["n_out"]), tab, bind, [si, rec["in"]])
            recs.append(rec)
            circuits.append(d)
        elif "plus" in st:
            circuits.append(circuits[st["plus"]] + _op(st["op"], tab, customs))
        else:
            target = circuits[st["on"]].operations      # the live list
            rebuilt = not isinstance(target, list)      # (were it not a list: a new circuit with the changed operations)
            if rebuilt:
                target = list(target)
            if "ins" in st:
                target.insert(st["ins"] % (len(target) + 1), _op(st["op"], tab, customs))
            elif "set" in st and target:
                target[st["set"] % len(target)] = _op(st["op"], tab, customs)
            elif "del" in st and target:
                del target[st["del"] % len(target)]
            if rebuilt:
                circuits[st["on"]] = oqc.Circuit(target, n_qubits=n)
    return {"recs": recs}


def run_impl(c):
    oqc, _gates, dec, gen = _mods()
    k = c["kind"]
    if k == "chain":
        return _run_chain(c)
    if k == "rule":
        return _run_rule(c)
    if k == "exotic":
        return _run_exotic(c)
    if k == "history":
        return _run_history(c)
    tab, customs = _Table(), {}
    # circuit / symbolic
    ops = [_op(o, tab, customs) for o in c["ops"]]
    circuit = oqc.Circuit(ops, n_qubits=c.get("n"))
    rules = [dec.U3GateToRotation() for _ in range(c["rules"])]
    out = {"n_in": int(circuit.n_qubits)}
    try:
        d = dec.decompose_orquestra_circuit(circuit, rules)
    except (AttributeError, ValueError) as e:
        out.update(_err(e))
        return out
    out["ops"] = [_op_spec(o, tab, customs) for o in d.operations]
    out["n"] = int(d.n_qubits)
    out["eq_input"] = bool(d == circuit)
    out["same_ops_objects"] = len(d.operations) == len(ops) and all(a == b for a, b in zip(d.operations, ops))
    out["input_intact"] = [_op_spec(o, tab, customs) for o in circuit.operations] == [_op_spec(o, tab, customs) for o in ops]
    out["ops_fn"] = [_op_spec(o, tab, customs) for o in dec.decompose_operations(list(circuit.operations), rules)]
    # rules one at a time, each on the output of the previous one
    cur = circuit
    for r in rules:
        cur = dec.decompose_orquestra_circuit(cur, [r])
    out["ops_iter"] = [_op_spec(o, tab, customs) for o in cur.operations]
    # ---- actions (numeric circuits; symbolic ones after binding)
    bind = None
    if k == "symbolic":
        bind = _bindmap(c, tab)
    only_gates = all(isinstance(o, _gates.GateOperation) for o in ops)
    out["actions"] = None
    out["seg"] = None
    if not only_gates and not _malformed(c):
        out["seg"] = _action_dists(ops, [_model_op(o) for o in c["ops"]], list(d.operations), out["ops"],
                                   int(circuit.n_qubits), tab, bind, c["ops"])
    if only_gates and ops and not _malformed(c):
        n = int(circuit.n_qubits)

        def unitary(op_list, width):
            cc = oqc.Circuit(op_list, n_qubits=width)
            if bind is not None:
                cc = cc.bind(bind)
            return _mat(cc.to_unitary())

        acts = {"U": unitary(ops, n), "U2": unitary(list(d.operations), int(d.n_qubits)) if d.operations else None,
                "single": []}
        for i, (o, spec) in enumerate(zip(ops, c["ops"])):
            if _is_u3(spec["g"]) and rules:
                dd = dec.decompose_orquestra_circuit(oqc.Circuit([o], n_qubits=n), rules[:1])
                acts["single"].append({"i": i, "U": unitary([o], n), "V": unitary(list(dd.operations), n),
                                       "len": len(dd.operations)})
        if rules and any(_is_u3(sp["g"]) == "controlled" for sp in c["ops"]):
            acts["each"] = [unitary([o], n) if not _is_u3(sp["g"]) else None for o, sp in zip(ops, c["ops"])]
        out["actions"] = acts
    return out


# ------------------------------------------------------------------ model requests / comparison
def requests(c, out):
    k = c["kind"]
    if k == "chain":
        return [("chain", {"ops": c["ops"], "rules": [{"pred": r["pred"], "prod": r["prod"]} for r in _resolved_rules(c)]})]
    if k == "rule":
        return [("rule", {"op": _model_op(c["op"])})]
    if k == "history":
        # every decomposition of the script, on the operations its input held at the moment of the call
        return [("decompose", {"ops": r["in"], "n": r["n_in"], "rules": r["rules"]}) for r in out.get("recs", [])]
    mops = [_model_op(o) for o in c["ops"]]
    rules = c["rule_list"] if c.get("rule_list") else c["rules"]
    reqs = [("decompose", {"ops": mops, "n": _width(c), "rules": rules}),
            ("decompose_ops", {"ops": mops, "rules": rules})]
    if (k == "circuit" and c["ops"] and all("g" in o and _has_matrix_model(o["g"]) for o in c["ops"])
            and not _malformed(c) and _width(c) <= 5):
        reqs.append(("unitary", {"ops": mops, "n": _width(c), "rules": c["rules"]}))
    return reqs


def _scale(a):
    import numpy as np
    return max(1.0, float(np.max(np.abs(a)))) if a.size else 1.0


def _phase_verdict(U, V, tol=1e-7):
    """numeric 'equal up to one global phase' by normalising on the largest entry of V"""
    import numpy as np
    if U is None or V is None:
        return "none"
    if U.shape != V.shape:
        return "shape"
    idx = np.unravel_index(np.argmax(np.abs(V)), V.shape)
    if abs(V[idx]) < 1e-12:
        return "equal" if np.max(np.abs(U)) < tol else "no"
    p = U[idx] / V[idx]
    s = _scale(U)
    if abs(abs(p) - 1) > tol or np.max(np.abs(U - p * V)) > tol * s:
        return "no"
    return "equal" if abs(p - 1) <= tol else "phase"


def compare(c, out, resp):
    for r in resp:
        if isinstance(r, dict) and "driver_error" in r:
            return "driver error: " + r["driver_error"]
    k = c["kind"]
    if k == "chain":
        got = "err" if "err" in out else out.get("res")
        if got != resp[0]:
            return f"decompose_operations(toy rules): impl {out} model {resp[0]}"
        return None
    if k == "rule":
        r = resp[0]
        ip = out.get("predicate")
        ip = "err" if isinstance(ip, str) and ip.startswith("err") else ip
        iq = out.get("production")
        iq = "err" if isinstance(iq, str) else iq
        if ip != r["predicate"]:
            return f"U3GateToRotation.predicate: impl {out.get('predicate')} model {r['predicate']}"
        if iq != r["production"]:
            return f"U3GateToRotation.production: impl {out.get('production')} model {r['production']}"
        return None
    if k == "history":
        for rec, r in zip(out.get("recs", []), resp):
            if "err" in rec:
                if r != "err":
                    return f"step {rec['step']}: decompose_orquestra_circuit raised {rec['err']}, model returned a circuit"
                continue
            if r == "err":
                return f"step {rec['step']}: model: the call raises; implementation returned a circuit"
            if rec["out"] != r["ops"]:
                return f"step {rec['step']}: decomposed operations differ: impl {rec['out']} model {r['ops']}"
            if rec["n_out"] != r["n"]:
                return f"step {rec['step']}: width of the decomposed circuit: impl {rec['n_out']} model {r['n']}"
        return None
    r = resp[0]
    if k == "exotic" and "err" not in out:
        fn = [v for v in out.get("variants", []) if v["name"] == "operations_fn"]
        out = dict(out, ops_fn=(out["ops"] if fn and fn[0].get("same") else (fn[0].get("ops") if fn else None)))
    if "err" in out:
        if r != "err":
            return f"decompose_orquestra_circuit raised {out['err']} ({out.get('msg')}), model returned a circuit"
        return None
    if r == "err":
        return f"model: the call raises; implementation returned {len(out['ops'])} operations"
    if out["ops"] != r["ops"]:
        return f"decomposed operations differ: impl {out['ops']} model {r['ops']}"
    if out["n"] != r["n"]:
        return f"width of the decomposed circuit: impl {out['n']} model {r['n']}"
    if out["ops_fn"] != resp[1]:
        return f"decompose_operations: impl {out['ops_fn']} model {resp[1]}"
    if len(resp) > 2:
        import numpy as np
        u = resp[2]
        acts = out.get("actions")
        if acts is None:
            return "implementation produced no unitary where the model has one"
        for key, mk in (("U", "U"), ("U2", "U2")):
            if u.get(mk) in (None, "err"):
                if acts[key] is not None:
                    return f"model has no unitary {mk}, implementation has"
                continue
            if acts[key] is None:
                return f"implementation has no unitary {key}, model has"
            a, b = _np(acts[key]), circ.model_matrix_to_numpy(u[mk])
            if a.shape != b.shape or np.max(np.abs(a - b)) > 1e-9 * _scale(b):
                return f"unitary {key}: implementation and model differ (max {np.max(np.abs(a - b)) if a.shape == b.shape else 'shape'})"
        if u.get("n2") != out["n"] or u.get("len2") != len(out["ops"]):
            return "model/implementation disagree on the size of the decomposed circuit"
        if acts["U2"] is not None:
            v = _phase_verdict(_np(acts["U"]), _np(acts["U2"]))
            mv = u.get("verdict")
            if (v == "no") != (mv in ("no", "shape")) and not (v == "shape" and mv == "shape"):
                return f"same-up-to-a-global-phase verdict: numeric on implementation '{v}', exact on model '{mv}'"
    return None


# ------------------------------------------------------------------ oracle (implementation only)
def _subsequence(small, big):
    it = iter(big)
    return all(any(x == y for y in it) for x in small)


def _expected_q(gspec, c):
    """e^{i(phi+lambda)/2} of a controlled-U3 gate spec of the case (exact rationals / bound symbols)"""
    import cmath
    inner = gspec["controlled"]
    if "angles" in inner:
        (pc, ps), (lc, ls) = [[float(unrat(x)) for x in t] for t in inner["angles"][1:]]
        return complex(pc, ps) * complex(lc, ls)
    tab = _Table()
    bind = _bindmap(c, tab)
    return cmath.exp(0.5j * (_tok_value(inner["sym"][1], tab, bind) + _tok_value(inner["sym"][2], tab, bind)))


def _relative_phase_form(U, V, n, qs, k, q_expected, tol=1e-7):
    """is U = D·V with D = diag(1 … 1, q … q): q = e^{i(phi+lambda)/2} exactly on the basis states whose control
    qubits qs[:k] are all 1 – the documented deviation F9 (and nothing else)"""
    import numpy as np
    try:
        W = U @ np.linalg.inv(V)
    except np.linalg.LinAlgError:
        return False
    dim = 2 ** n
    diag = np.diag(W)
    if np.max(np.abs(W - np.diag(diag))) > tol:
        return False
    on = [all((i >> (n - 1 - q)) & 1 for q in qs[:k]) for i in range(dim)]
    off_vals = [diag[i] for i in range(dim) if not on[i]]
    on_vals = [diag[i] for i in range(dim) if on[i]]
    if any(abs(v - 1) > tol for v in off_vals) or not on_vals:
        return False
    q = on_vals[0]
    return abs(abs(q) - 1) < tol and all(abs(v - q) < tol for v in on_vals) and abs(q - q_expected) < 10 * tol


def _judge(in_mops, out_mops, names, dist, what, tol=TOL_TIGHT):
    """the property's sentences on ONE decomposition in_mops -> out_mops under the rule list `names` (a number k stands
    for k copies of the bundled rule).  -> None | (signature, message); KNOWN_SIG only when everything else holds"""
    names = ["u3"] * names if isinstance(names, int) else list(names)
    for o in in_mops:
        if _u3_kind_m(o) and len((o["g"].get("controlled") or o["g"])["params"]) != 3:
            return None  # malformed U3: out of domain
    if not names:
        if out_mops != in_mops:
            return ("empty-rules-changed", f"{what}: empty rule list, yet the operations changed: {out_mops}")
        return None
    unmatched = [o for o in in_mops if _kind_m(o) not in names]
    if not _subsequence(unmatched, out_mops):
        return ("unmatched-not-kept", f"{what}: operations no rule applies to are not kept unchanged and in order: {out_mops}")
    # "rules are applied in the order given to the output of the previous rule": what each pass leaves behind
    cnt = {"u3": 0, "rx": 0, "swap": 0}
    for o in in_mops:
        if _kind_m(o):
            cnt[_kind_m(o)] += 1
    for nm in names:
        if nm == "rx":
            cnt["u3"] += cnt["rx"]     # every plain RX becomes a U3 - replaced only by a LATER bundled rule
        cnt[nm] = 0
    got = {"u3": 0, "rx": 0, "swap": 0}
    for o in out_mops:
        if _kind_m(o):
            got[_kind_m(o)] += 1
    for kind in ("u3", "rx", "swap"):
        if got[kind] > cnt[kind]:
            first = [o for o in out_mops if _kind_m(o) == kind][0]
            return ("u3-not-replaced" if kind == "u3" else "rule-not-applied",
                    f"{what}: {'a U3' if kind == 'u3' else kind.upper()} survived the decomposition "
                    f"({got[kind]} left, rules {names} leave {cnt[kind]}): {first}")
        if got[kind] < cnt[kind]:
            return ("chain-order", f"{what}: rules {names} applied one after the other leave {cnt[kind]} {kind.upper()} "
                                   f"operation(s), the result holds {got[kind]}: {out_mops}")
    if dist is None:
        return None
    if dist.get("anchors") is False:
        return ("unmatched-not-kept", f"{what}: the non-gate operations are not kept unchanged and in order: {out_mops}")
    if dist["exact"] <= tol:
        return None
    if dist["known"] is not None and dist["known"] <= tol:
        return (KNOWN_SIG, f"{what}: a controlled U3 is replaced by a sequence that differs by the RELATIVE phase "
                           f"e^(i(phi+lambda)/2) on the controlled subspace")
    return ("not-same-action", f"{what}: the decomposed circuit does not act like the original beyond one global phase "
                               f"(distance {dist['exact']:.3g}" + (f", {dist['known']:.3g} from the documented deviation)"
                                                                   if dist["known"] is not None else ")"))


def _first(results):
    """first real violation, else the known finding, else None"""
    known = None
    for r in results:
        if r is None:
            continue
        if r[0] != KNOWN_SIG:
            return r
        known = known or r
    return known


def _oracle_exotic(c, out):
    if "err" in out:
        return ("decompose-raises", f"decompose_orquestra_circuit raised {out['err']}: {out.get('msg')}")
    if out["n"] != out["n_in"]:
        return ("declared-width-dropped", f"circuit on {out['n_in']} qubits came back on {out['n']}")
    if not out["input_intact"]:
        return ("input-modified", "the operations of the input circuit were modified")
    k = _rule_names(c)
    in_mops = [_model_op(o) for o in c["ops"]]
    if not k and not (out["eq_input"] and out["same_ops_objects"]):
        return ("empty-rules-changed", "empty rule list, yet the returned circuit differs from the input")
    if out.get("no_rules_between") is not None and out["no_rules_between"] != in_mops:
        return ("empty-rules-changed", f"empty rule list (asked between two calls with rules), yet the operations changed: "
                                       f"{out['no_rules_between']}")

    def gen():
        yield _judge(in_mops, out["ops"], k, out["dist"], "decompose_orquestra_circuit")
        for sg in out["single"]:
            r = None
            d = sg["dist"]
            if d is not None and d["exact"] > TOL_TIGHT:
                if d["known"] is not None and d["known"] <= TOL_TIGHT:
                    r = (KNOWN_SIG, f"operation {sg['i']} {c['ops'][sg['i']]}: relative phase e^(i(phi+lambda)/2)")
                else:
                    r = ("u3-not-equivalent", f"operation {sg['i']} {c['ops'][sg['i']]} is replaced by a sequence with a "
                                              f"different action (distance {d['exact']:.3g})")
            yield r
        for v in out["variants"]:
            if "err" in v:
                yield ("decompose-raises", f"{v['name']}: raised {v['err']}: {v.get('msg')}")
            elif not v["same"]:
                yield _judge(in_mops, v["ops"], k, v["dist"], v["name"])

    return _first(gen())


def _oracle_history(c, out):
    def gen():
        for r in out["recs"]:
            what = f"step {r['step']} (decompose circuit with {r['rules']} rule(s))"
            if "err" in r:
                yield ("decompose-raises", f"{what}: raised {r['err']}: {r.get('msg')}")
                continue
            if r["n_out"] != r["n_in"]:
                yield ("declared-width-dropped", f"{what}: circuit on {r['n_in']} qubits came back on {r['n_out']}")
            if r["in_after"] != r["in"]:
                yield ("input-modified", f"{what}: the operations of the input circuit were modified by the call")
            yield _judge(r["in"], r["out"], r["rules"], r["dist"], what + f" input {r['in']}")

    return _first(gen())


def _oracle_chain(c, out):
    # "rules are applied in the order given to the output of the previous rule", restated directly
    rules = _resolved_rules(c)
    try:
        cur = list(c["ops"])
        for r in rules:
            cur = [y for x in cur for y in (_toy_prod(r["prod"], x) if _toy_pred(r["pred"], x) else [x])]
        want = cur
    except (ValueError, ZeroDivisionError):
        want = None
    calls = [("decompose_operations", out if "err" in out else out.get("res")),
             ("decompose_operations (second call, same rule objects)", out.get("res2", want if want is not None else {"err": 1})),
             ("decompose_operation, operation by operation", out.get("per_op", want if want is not None else {"err": 1}))]
    for name, got in calls:
        raised = isinstance(got, dict)
        if want is None:
            if not raised:
                return ("chain-swallows-exception", f"a rule raised but {name} returned {got}")
            continue
        if raised:
            return ("chain-raises", f"{name} raised {got}")
        if not rules and got != c["ops"]:
            return ("empty-rules-changed", f"no rules, yet {c['ops']} became {got} ({name})")
        if got != want:
            return ("chain-order", f"{name}: rules {rules} on {c['ops']}: got {got}, rule-by-rule passes give {want}")
    if not out.get("ops_after_ok", True):
        return ("input-modified", "decompose_operations modified the caller's operation list")
    if not out.get("rules_after_ok", True):
        return ("input-modified", "decompose_operations modified the caller's rule list")
    return None


def oracle(c, out):
    k = c["kind"]
    if isinstance(out, dict) and "exc" in out:
        return ("unexpected-exception", f"implementation raised {out['exc']}: {out.get('msg')}")
    if k == "chain":
        return _oracle_chain(c, out)
    if k == "exotic":
        return _oracle_exotic(c, out)
    if k == "history":
        return _oracle_history(c, out)
    if k == "rule":
        op = c["op"]
        if "other" in op:
            if out["predicate"] is not False:
                return ("non-gate-operation-raises", f"predicate on a non-gate operation gave {out['predicate']} (must be False)")
            return None
        want = _is_u3(op["g"]) is not None
        if out["predicate"] is not want:
            return ("u3-predicate", f"predicate({op['g']}) = {out['predicate']}, expected {want}")
        if not want or len(_params(op["g"])) != 3:
            return None
        # what the rule produces for a well-formed (controlled) U3: asked twice of one rule object, once of the long-lived one
        res = []
        for name in ("production", "production2", "production_long"):
            got = out.get(name)
            if got is None:
                continue
            if isinstance(got, str):
                res.append(("u3-production-raises", f"{name}({op}) raised {got}"))
                continue
            r = _judge([_model_op(op)], got, 1, (out.get("dists") or {}).get(name), f"U3GateToRotation.{name}({op})")
            if r and r[0] == "not-same-action":
                r = ("u3-not-equivalent", r[1])
            res.append(r)
        return _first(res)
    # circuit / symbolic
    import numpy as np
    specs = c["ops"]
    matched = [i for i, o in enumerate(specs) if "g" in o and _is_u3(o["g"]) and c["rules"] >= 1]
    if "err" in out:
        if _malformed(c) and out["err"] == "err:value":
            return None
        if any("other" in o for o in specs) and out["err"] == "err:attr":
            return ("non-gate-operation-raises", f"decomposition raised on a circuit holding a non-gate operation: {out.get('msg')}")
        return ("decompose-raises", f"decompose_orquestra_circuit raised {out['err']}: {out.get('msg')}")
    if _malformed(c) and c["rules"] >= 1:
        return None  # out of domain; whatever was returned is not judged
    if out["n"] != out["n_in"]:
        return ("declared-width-dropped", f"circuit on {out['n_in']} qubits came back on {out['n']}")
    if not out.get("input_intact", True):
        return ("input-modified", "the operations of the input circuit were modified")
    if c["rules"] == 0:
        if not out["eq_input"] or not out["same_ops_objects"]:
            return ("empty-rules-changed", "empty rule list, yet the returned circuit differs from the input")
        return None
    want_unmatched = [_model_op(o) for i, o in enumerate(specs) if i not in matched]
    if not _subsequence(want_unmatched, out["ops"]):
        return ("unmatched-not-kept", f"operations no rule applies to are not kept unchanged and in order: {out['ops']}")
    for o in out["ops"]:
        g = o.get("g", {})
        if g.get("gate") == "U3" or g.get("controlled", {}).get("gate") == "U3":
            return ("u3-not-replaced", f"a U3 survived the decomposition: {o}")
    if out["ops"] != out["ops_iter"]:
        return ("chain-order", "k rules at once differ from k single-rule passes applied one after the other")
    if out["ops"] != out["ops_fn"]:
        return ("circuit-vs-operations", "decompose_orquestra_circuit and decompose_operations disagree")
    acts = out.get("actions")
    if acts is None:
        if out.get("seg") is not None:   # non-gate operations present: anchors kept, runs of gates act alike
            return _judge([_model_op(o) for o in specs], out["ops"], c["rules"], out["seg"], "decompose_orquestra_circuit")
        return None
    n = out["n_in"]
    known = []
    for s in acts["single"]:
        spec = specs[s["i"]]
        U, V = _np(s["U"]), _np(s["V"])
        if _phase_verdict(U, V) != "no":
            continue
        if (_is_u3(spec["g"]) == "controlled" and not (k == "circuit" and _phase_trivial(spec["g"]))
                and _relative_phase_form(U, V, n, spec["qs"], spec["g"]["k"], _expected_q(spec["g"], c))):
            known.append(s["i"])
            continue
        return ("u3-not-equivalent", f"operation {s['i']} {spec} is replaced by a sequence with a different action")
    U, U2 = _np(acts["U"]), _np(acts["U2"])
    if U2 is None:
        return ("decomposed-empty", "non-empty circuit decomposed into nothing")
    # whole circuit: product in circuit order, with the known-deviating replacements taken as they are
    E = np.eye(2 ** n, dtype=complex)
    single = {s["i"]: s for s in acts["single"]}
    if known:
        for i, o in enumerate(specs):
            if i in known:
                M = _np(single[i]["V"])
            elif i in single:
                M = _np(single[i]["U"])
            else:
                M = _np(acts["each"][i])
            E = M @ E
    else:
        E = U
    if _phase_verdict(E, U2) == "no":
        return ("not-same-action", "the decomposed circuit does not act like the original (beyond one global phase)")
    if known:
        i = known[0]
        return (KNOWN_SIG, f"controlled U3 {specs[i]['g']} on {specs[i]['qs']}: the replacement differs by the RELATIVE "
                           f"phase e^(i(phi+lambda)/2) on the controlled subspace")
    return None


def distribution(cases, outs):
    d = {"plain_u3": 0, "controlled_u3_trivial_phase": 0, "controlled_u3_relative_phase": 0, "controls": {},
         "rules": {}, "non_gate_ops": 0, "raised": 0, "declared_idle": 0, "max_width": 0, "unitaries_compared": 0}
    d["exotic"], d["history_decompositions"], d["max_operations"], d["max_register"] = {}, 0, 0, 0
    d["actions_compared_by_own_simulation"] = 0
    for c, o in zip(cases, outs):
        if c["kind"] == "exotic":
            fl = c.get("flavour", "corpus")
            d["exotic"][fl] = d["exotic"].get(fl, 0) + 1
            d["max_operations"] = max(d["max_operations"], len(c["ops"]))
            d["max_register"] = max(d["max_register"], _width(c))
            if isinstance(o, dict) and o.get("dist"):
                d["actions_compared_by_own_simulation"] += 1
        if c["kind"] == "history" and isinstance(o, dict):
            d["history_decompositions"] += len(o.get("recs", []))
            d["actions_compared_by_own_simulation"] += sum(1 for r in o.get("recs", []) if r.get("dist"))
        if c["kind"] == "chain":
            d["max_operations"] = max(d["max_operations"], len(c["ops"]))
    for c, o in zip(cases, outs):
        if c["kind"] in ("circuit", "symbolic") and any(r[0] == "unitary" for r in requests(c, o)):
            d["unitaries_compared"] += 1
        if isinstance(o, dict) and ("err" in o or "exc" in o):
            d["raised"] += 1
        if c["kind"] not in ("circuit", "symbolic"):
            continue
        d["rules"][str(c["rules"])] = d["rules"].get(str(c["rules"]), 0) + 1
        d["max_width"] = max(d["max_width"], _width(c))
        used = max([q for op in c["ops"] for q in op["qs"]], default=-1) + 1
        d["declared_idle"] += 1 if (c.get("n") or 0) > used else 0
        for op in c["ops"]:
            if "other" in op:
                d["non_gate_ops"] += 1
                continue
            kind = _is_u3(op["g"])
            if kind == "plain":
                d["plain_u3"] += 1
            elif kind == "controlled":
                kk = str(op["g"]["k"])
                d["controls"][kk] = d["controls"].get(kk, 0) + 1
                if c["kind"] == "circuit" and len(_params(op["g"])) == 3:
                    d["controlled_u3_trivial_phase" if _phase_trivial(op["g"]) else "controlled_u3_relative_phase"] += 1
    return d
