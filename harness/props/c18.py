"""C18 — decomposing a circuit never changes what it does.

Anchors: decompositions/_decomposition.py (rule chaining), decompositions/_orquestra_decompositions.py
(U3GateToRotation, decompose_orquestra_circuit).

Case kinds
  circuit   numeric circuit (rational half-angle points), k copies of the bundled rule: operation lists compared exactly
            with the model, unitaries of the original and the decomposed circuit compared entrywise (1e-9), the exact
            "same up to one global phase" verdict of the model compared with the numeric one
  symbolic  circuit with symbolic / expression parameters: operation lists compared exactly (parameters are opaque to
            the model); the oracle binds the symbols and checks the action
  rule      U3GateToRotation.predicate / .production called directly on one operation
  chain     the generic decompose_operations on integer "operations" with toy rules (order of rules, exceptions)
"""
import math
from fractions import Fraction

from .. import circ, common
from ..common import rat, unrat

PROP = "C18"
RULE = ("seeded random circuits of 1-8 operations on 1-4 (thorough: 1-5) qubits mixing plain U3, U3 with 1-3 controls "
        "(half of them with phi+lambda = 0), non-matching wrappers of U3 (dagger, power, controlled dagger), other "
        "built-in gates, custom Gaussian-integer gates, non-gate operations, declared widths with idle qubits, 0-3 copies "
        "of the bundled rule; symbolic-parameter circuits; direct rule calls incl. malformed operations; toy-rule chains "
        "over integers.  non-trivial: rules >= 1 and the circuit holds a (plain or controlled) U3 next to another "
        "operation, or a chain of >= 2 rules of which >= 1 matches; distinct = distinct canonical JSON of the case")
TRUSTED = ["sympy: `simplify` in u3_matrix returns a matrix equal to RZ(phi)RY(theta)RZ(lambda)/exp(-i(phi+lambda)/2) "
           "(the model uses the closed form; checked entrywise to 1e-9 on every compared case)",
           "numpy float arithmetic within 1e-9 (scaled) of the exact Q(zeta_8) values on the compared cases",
           "Circuit.to_unitary / gate matrices of non-U3 gates are those of the shared models (properties C01, C02, C07)",
           "identification of Lift.liftMatrix with Spec.lift (property C01)"]
ASSUMPTIONS = ["gate parameters are passed through by reference: the model treats them as opaque values",
               "toy rules use Python int // 2 and % m with m > 0 (= Lean Int ediv/emod)",
               "a custom gate must not reuse the reserved name 'U3' (hypothesis BuiltinU3 of the theorems)"]

KNOWN_SIG = "controlled-u3-relative-phase"
OTHER_BUILTINS = [g for g in circ.BUILTIN_PARAMS if g not in ("U3", "Delay")]


def _mods():
    common.use_repo()
    import orquestra.quantum.circuits as oqc
    from orquestra.quantum.circuits import _gates
    from orquestra.quantum import decompositions as dec
    from orquestra.quantum.decompositions import _decomposition as gen
    return oqc, _gates, dec, gen


# ------------------------------------------------------------------ case -> real objects
class _Table:
    """parameter objects handed to the library, so that the parameters of the output can be named again"""

    def __init__(self):
        self.items = []

    def add(self, obj, token):
        self.items.append((obj, token))
        return obj

    def token(self, obj):
        for o, t in self.items:
            if o is obj:
                return t
        for o, t in self.items:
            try:
                if type(o) is type(obj) and o == obj:
                    return t
            except Exception:
                pass
        for o, t in self.items:
            try:
                if o == obj:
                    return t
            except Exception:
                pass
        return {"unknown": repr(obj)[:60]}


def _gate(spec, tab, customs):
    oqc, _gates, _, _ = _mods()
    import sympy
    if "controlled" in spec:
        return _gate(spec["controlled"], tab, customs).controlled(spec["k"])
    if "dagger" in spec:
        return _gate(spec["dagger"], tab, customs).dagger
    if "power" in spec:
        return _gate(spec["power"], tab, customs).power(spec["e"])
    if "custom" in spec:
        m = circ.sympy_matrix(spec["m"])
        customs[spec["custom"]] = spec["m"]
        return oqc.CustomGateDefinition(spec["custom"], m, ())()
    name = spec["gate"]
    ref = getattr(oqc, name)
    if "sym" in spec:
        return ref(*[tab.add(sympy.sympify(s), s) for s in spec["sym"]])
    if not spec["angles"] and circ.BUILTIN_PARAMS[name] == 0:
        return ref
    return ref(*[tab.add(circ.theta_of(a), a) for a in spec["angles"]])


def _op(spec, tab, customs):
    oqc, _, _, _ = _mods()
    if "other" in spec:
        if spec["other"] == "reset":
            return oqc.ResetOperation(spec["qs"][0])
        return oqc.MultiPhaseOperation(tuple(float(unrat(p)) for p in spec["phases"]))
    return _gate(spec["g"], tab, customs)(*spec["qs"])


def _gate_spec(g, tab, customs):
    """REAL gate object -> model JSON"""
    _, _gates, _, _ = _mods()
    if isinstance(g, _gates.ControlledGate):
        return {"controlled": _gate_spec(g.wrapped_gate, tab, customs), "k": g.num_control_qubits}
    if isinstance(g, _gates.Dagger):
        return {"dagger": _gate_spec(g.wrapped_gate, tab, customs)}
    d = {"gate": g.name, "params": [tab.token(p) for p in g.params]}
    if isinstance(g, _gates.MatrixFactoryGate) and isinstance(g.matrix_factory, _gates.CustomGateMatrixFactory):
        m = customs.get(g.name)
        if m is None or g.matrix != circ.sympy_matrix(m):
            d["m"] = "unknown-custom"
        else:
            d["m"] = _cyc_m(m)
    return d


def _cyc_m(m):
    """Gaussian-rational matrix [[ [re, im], …], …] in the form the driver prints (rows of Q(zeta_8) 4-tuples)"""
    return [[[str(rat(unrat(e[0]))), "0", str(rat(unrat(e[1]))), "0"] for e in row] for row in m]


def _op_spec(op, tab, customs):
    _, _gates, _, _ = _mods()
    if isinstance(op, _gates.GateOperation):
        return {"g": _gate_spec(op.gate, tab, customs), "qs": [int(q) for q in op.qubit_indices]}
    tag = "reset" if type(op).__name__ == "ResetOperation" else "multiphase"
    return {"other": tag, "qs": [int(q) for q in op.qubit_indices]}


def _model_gate(spec):
    """harness gate spec -> model JSON (what the rule can see of the gate, plus the matrix of custom gates)"""
    if "controlled" in spec:
        return {"controlled": _model_gate(spec["controlled"]), "k": spec["k"]}
    if "dagger" in spec:
        return {"dagger": _model_gate(spec["dagger"])}
    if "power" in spec:
        inner = _model_gate(spec["power"])
        if "controlled" in inner:  # ControlledGate.power pushes the power inside
            return {"controlled": _model_gate({"power": spec["power"]["controlled"], "e": spec["e"]}), "k": inner["k"]}
        return {"gate": _name(spec["power"]) + "^" + str(spec["e"]), "params": _params(spec["power"])}
    if "custom" in spec:
        return {"gate": spec["custom"], "params": [], "m": _cyc_m(spec["m"])}
    return {"gate": spec["gate"], "params": list(spec.get("sym", spec.get("angles")))}


def _name(spec):
    if "controlled" in spec:
        return "Control"
    if "dagger" in spec:
        return _name(spec["dagger"]) + "_Dagger"
    if "power" in spec:
        return _name(spec["power"]) + "^" + str(spec["e"])
    return spec.get("custom") or spec["gate"]


def _params(spec):
    for k in ("controlled", "dagger", "power"):
        if k in spec:
            return _params(spec[k])
    if "custom" in spec:
        return []
    return list(spec.get("sym", spec.get("angles")))


def _model_op(o):
    if "other" in o:
        return {"other": o["other"], "qs": o["qs"]}
    return {"g": _model_gate(o["g"]), "qs": o["qs"]}


def _has_matrix_model(spec):
    if "power" in spec:
        return False
    for k in ("controlled", "dagger"):
        if k in spec:
            return _has_matrix_model(spec[k])
    return "sym" not in spec


def _is_u3(spec):
    """the gate is the built-in U3 or a ControlledGate wrapping it (what the rule is meant to replace)"""
    if spec.get("gate") == "U3":
        return "plain"
    if "controlled" in spec and spec["controlled"].get("gate") == "U3":
        return "controlled"
    return None


def _phase_trivial(spec):
    """e^{i(phi+lambda)/2} = 1, exactly, for a numeric U3 spec"""
    a = (spec.get("controlled") or spec)["angles"]
    if len(a) != 3:
        return True
    (pc, ps), (lc, ls) = [[unrat(x) for x in a[1]], [unrat(x) for x in a[2]]]
    return pc * lc - ps * ls == 1 and pc * ls + ps * lc == 0


def _width(c):
    qs = [q for o in c["ops"] for q in o["qs"]]
    return c["n"] if c.get("n") else (max(qs) + 1 if qs else 0)


def _malformed(c):
    """operations outside the stated domain: a U3 with a number of parameters other than three"""
    for o in c["ops"]:
        if "g" in o and _is_u3(o["g"]) and len(_params(o["g"])) != 3:
            return True
    return False


# ------------------------------------------------------------------ corpus / generation
def _u3(th, ph, la):
    return {"gate": "U3", "angles": [th, ph, la]}


PI = [0, 1]          # half-angle point of pi
ZERO = [1, 0]
A35 = ["3/5", "4/5"]
A35N = ["3/5", "-4/5"]
A513 = ["5/13", "12/13"]


def corpus():
    x0 = {"g": {"gate": "X", "angles": []}, "qs": [0]}
    return [
        # plain U3 (phi + lambda != 0) between other gates, one rule
        {"kind": "circuit", "n": None, "rules": 1, "ops": [x0, {"g": _u3(A513, A35, A513), "qs": [1]},
                                                           {"g": {"gate": "CNOT", "angles": []}, "qs": [1, 0]}]},
        # F9 (known): controlled U3 with phi + lambda != 0 -> relative phase
        {"kind": "circuit", "n": None, "rules": 1, "ops": [{"g": {"controlled": _u3(ZERO, PI, ZERO), "k": 1}, "qs": [0, 1]}]},
        {"kind": "circuit", "n": None, "rules": 1, "ops": [{"g": {"controlled": _u3(A513, A35, A513), "k": 2}, "qs": [2, 0, 1]}, x0]},
        # controlled U3 with phi + lambda = 0: exact
        {"kind": "circuit", "n": None, "rules": 1, "ops": [{"g": {"controlled": _u3(A513, A35, A35N), "k": 1}, "qs": [1, 0]}, x0]},
        # declared width with idle trailing qubits (fixed b4958fb: the width used to be dropped)
        {"kind": "circuit", "n": 3, "rules": 0, "ops": [x0]},
        {"kind": "circuit", "n": 3, "rules": 1, "ops": [x0, {"g": _u3(A35, A513, A35), "qs": [1]}]},
        # non-gate operations next to a U3 (fixed 184e440: the predicate used to raise AttributeError)
        {"kind": "circuit", "n": None, "rules": 1, "ops": [{"g": _u3(A35, A513, A35), "qs": [0]},
                                                           {"other": "multiphase", "qs": [0], "phases": ["1/2", "1/4"]}]},
        {"kind": "circuit", "n": None, "rules": 1, "ops": [{"g": _u3(A35, A513, A35), "qs": [0]}, {"other": "reset", "qs": [0]}]},
        {"kind": "rule", "op": {"other": "reset", "qs": [1]}},
        # plain U3 among other gates, two rules
        {"kind": "circuit", "n": None, "rules": 2, "ops": [x0, {"g": _u3(A35, A513, PI), "qs": [2]},
                                                           {"g": {"gate": "CNOT", "angles": []}, "qs": [2, 0]}]},
        {"kind": "circuit", "n": None, "rules": 0, "ops": [{"g": _u3(A35, A513, PI), "qs": [1]}]},
        # wrappers that are NOT matched
        {"kind": "circuit", "n": None, "rules": 1, "ops": [{"g": {"dagger": _u3(A35, A513, PI)}, "qs": [0]},
                                                           {"g": {"controlled": {"dagger": _u3(A35, A513, PI)}, "k": 1}, "qs": [1, 0]}]},
        {"kind": "symbolic", "n": None, "rules": 1, "bind": {"a": "1/2", "b": "1/4"},
         "ops": [{"g": {"gate": "U3", "sym": ["a", "2*b", "a+b"]}, "qs": [1]}, {"g": {"gate": "RX", "sym": ["b"]}, "qs": [0]}]},
        {"kind": "rule", "op": {"g": {"gate": "U3", "angles": [A35, A513]}, "qs": [0]}},
        {"kind": "chain", "ops": [4, 3], "rules": [{"pred": ["mod", 2, 0], "prod": ["split"]}, {"pred": ["gt", 2], "prod": ["dec"]}]},
        {"kind": "chain", "ops": [4, 3], "rules": [{"pred": ["gt", 2], "prod": ["dec"]}, {"pred": ["mod", 2, 0], "prod": ["split"]}]},
        {"kind": "chain", "ops": [1, 2, 3], "rules": []},
    ]


def _rand_u3_op(rng, n, sym=False):
    if sym:
        pool = ["a", "b", "c", "2*a", "a+b", "b/2", "-c", "a*b", "1/2", "3"]
        g = {"gate": "U3", "sym": [rng.choice(pool) for _ in range(3)]}
    else:
        th, ph, la = circ.rat_angle(rng), circ.rat_angle(rng), circ.rat_angle(rng)
        g = _u3(th, ph, la)
    k = 0
    if n >= 2 and rng.random() < 0.5:
        k = rng.randrange(1, min(n - 1, 3) + 1)
        if not sym and rng.random() < 0.55:  # phi + lambda = 0: the domain of decompose_controlled_partial
            ph = g["angles"][1]
            g["angles"][2] = [ph[0], rat(-unrat(ph[1]))]
    wrap = rng.random()
    if wrap < 0.10 and not sym:
        g = {"dagger": g}            # name "U3_Dagger": not matched
    elif wrap < 0.16 and not sym:
        g = {"power": g, "e": 2}     # name "U3^2": not matched
    if k:
        g = {"controlled": g, "k": k}
    return {"g": g, "qs": rng.sample(range(n), k + 1)}


def _rand_circuit(rng, n, length, sym=False, nongate=True):
    ops = []
    customs = 0
    for _ in range(length):
        r = rng.random()
        if r < 0.45:
            ops.append(_rand_u3_op(rng, n, sym))
        elif r < 0.50 and nongate:
            if rng.random() < 0.5:
                ops.append({"other": "reset", "qs": [rng.randrange(n)]})
            else:
                w = rng.randrange(1, n + 1)
                ops.append({"other": "multiphase", "qs": list(range(w)),
                            "phases": [rat(Fraction(rng.randrange(-8, 9), 4)) for _ in range(2 ** w)]})
        elif r < 0.62 and customs < 2 and not sym:
            customs += 1
            k = rng.randrange(1, min(n, 2) + 1)
            ops.append({"g": {"custom": f"cg{customs}", "m": circ.gauss_matrix(rng, k, -2, 2)}, "qs": rng.sample(range(n), k)})
        elif sym and r < 0.75:
            name = rng.choice(["RX", "RY", "RZ", "PHASE"])
            ops.append({"g": {"gate": name, "sym": [rng.choice(["a", "b", "c", "a+b"])]}, "qs": [rng.randrange(n)]})
        else:
            cands = [g for g in OTHER_BUILTINS if circ.BUILTIN_QUBITS[g] <= n]
            name = rng.choice(cands)
            g = {"gate": name, "angles": [circ.rat_angle(rng) for _ in range(circ.BUILTIN_PARAMS[name])]}
            if n > circ.BUILTIN_QUBITS[name] and rng.random() < 0.15:
                g = {"controlled": g, "k": 1}
            ops.append({"g": g, "qs": rng.sample(range(n), circ.spec_num_qubits(g))})
    used = max([q for o in ops for q in o["qs"]], default=-1) + 1
    declared = rng.choice([None, None, used + rng.randrange(0, 3)]) if ops else rng.choice([None, 2])
    return ops, (declared if declared else None)


TOY_PREDS = [["mod", 2, 0], ["mod", 3, 1], ["gt", 2], ["gt", 5], ["eq", 1], ["eq", 4], ["always"], ["never"]]
TOY_PRODS = [["split"], ["dec"], ["drop"], ["dup"], ["inc", 1], ["inc", 3], ["const", [7, 0]], ["const", []]]


def generate(rng, tier):
    big = tier == "thorough"
    cases = []
    n_circ = 420 if big else 85
    for i in range(n_circ):
        n = rng.choice([1, 2, 2, 3, 3, 4] + ([4, 5] if big else []))
        length = rng.randrange(0, 9 if n <= 3 else 7)
        ops, declared = _rand_circuit(rng, n, length)
        if declared and declared > (5 if big else 4):
            declared = None
        cases.append({"kind": "circuit", "n": declared, "rules": rng.choice([0, 1, 1, 1, 1, 2, 3]), "ops": ops})
    for i in range(60 if big else 12):   # malformed stream: a U3 (plain or controlled) with the wrong number of parameters
        n = rng.choice([2, 3])
        ops, declared = _rand_circuit(rng, n, rng.randrange(1, 4), nongate=False)
        bad = _u3(*[circ.rat_angle(rng) for _ in range(3)])
        bad["angles"] = bad["angles"][:rng.choice([0, 1, 2])] if rng.random() < 0.7 else bad["angles"] + [circ.rat_angle(rng)]
        g = {"controlled": bad, "k": 1} if rng.random() < 0.4 else bad
        ops.insert(rng.randrange(len(ops) + 1), {"g": g, "qs": rng.sample(range(n), 2 if "controlled" in g else 1)})
        cases.append({"kind": "circuit", "n": None, "rules": rng.choice([0, 1, 2]), "ops": ops})
    for i in range(80 if big else 16):
        n = rng.choice([1, 2, 3])
        ops, declared = _rand_circuit(rng, n, rng.randrange(1, 6), sym=True, nongate=False)
        bind = {s: rat(Fraction(rng.randrange(-12, 13), 8)) for s in ("a", "b", "c")}
        cases.append({"kind": "symbolic", "n": declared, "rules": rng.choice([1, 1, 2, 0]), "ops": ops, "bind": bind})
    for i in range(150 if big else 30):
        n = rng.choice([2, 3, 4])
        r = rng.random()
        if r < 0.5:
            op = _rand_u3_op(rng, n, sym=rng.random() < 0.3)
            if rng.random() < 0.25:
                inner = op["g"].get("controlled", op["g"])
                key = "sym" if "sym" in inner else "angles"
                if key in inner:
                    inner[key] = inner[key][:rng.choice([0, 1, 2])]
        else:
            op = _rand_circuit(rng, n, 1)[0][0]
        cases.append({"kind": "rule", "op": op})
    for i in range(500 if big else 90):
        ops = [rng.randrange(-2, 12) for _ in range(rng.randrange(0, 6))]
        rules = []
        for _ in range(rng.choice([0, 1, 2, 2, 3, 4])):
            pred = rng.choice(TOY_PREDS)
            prod = rng.choice(TOY_PRODS)
            if rng.random() < 0.04:
                pred = rng.choice([["raise"], ["mod", 0, 0]])
            if rng.random() < 0.04:
                prod = ["raise"]
            rules.append({"pred": pred, "prod": prod, "iter": rng.random() < 0.3})
        cases.append({"kind": "chain", "ops": ops, "rules": rules})
    return cases


def nontrivial(c):
    if c["kind"] in ("circuit", "symbolic"):
        if c["rules"] < 1 or len(c["ops"]) < 2:
            return False
        m = [bool("g" in o and _is_u3(o["g"])) for o in c["ops"]]
        return any(m) and not all(m)
    if c["kind"] == "chain":
        return len(c["rules"]) >= 2 and any(_toy_pred(r["pred"], x) is True for r in c["rules"] for x in c["ops"])
    if c["kind"] == "rule":
        return "g" in c["op"] and _is_u3(c["op"]["g"]) is not None
    return False


# ------------------------------------------------------------------ toy rules (chain kind)
def _toy_pred(p, n):
    if p[0] == "mod":
        return n % p[1] == p[2]
    if p[0] == "gt":
        return n > p[1]
    if p[0] == "eq":
        return n == p[1]
    if p[0] == "always":
        return True
    if p[0] == "never":
        return False
    raise ValueError("toy predicate raises")


def _toy_prod(p, n):
    if p[0] == "split":
        return [n // 2, n - n // 2]
    if p[0] == "dec":
        return [n - 1, 1]
    if p[0] == "drop":
        return []
    if p[0] == "dup":
        return [n, n]
    if p[0] == "inc":
        return [n + p[1]]
    if p[0] == "const":
        return list(p[1])
    raise ValueError("toy production raises")


class _ToyRule:
    def __init__(self, spec):
        self.spec = spec

    def predicate(self, n):
        return _toy_pred(self.spec["pred"], n)

    def production(self, n):
        out = _toy_prod(self.spec["prod"], n)
        return iter(out) if self.spec.get("iter") else out


# ------------------------------------------------------------------ implementation
def _mat(m):
    import numpy as np
    a = np.asarray(circ.impl_matrix_to_numpy(m))
    return [[[float(z.real), float(z.imag)] for z in row] for row in a]


def _np(m):
    import numpy as np
    return np.array([[complex(e[0], e[1]) for e in row] for row in m]) if m is not None else None


def _err(e):
    return {"err": {ValueError: "err:value", AttributeError: "err:attr", TypeError: "err:type",
                    ZeroDivisionError: "err:zerodiv"}.get(type(e), "err:" + type(e).__name__), "msg": str(e)[:120]}


def run_impl(c):
    oqc, _gates, dec, gen = _mods()
    k = c["kind"]
    if k == "chain":
        rules = [_ToyRule(r) for r in c["rules"]]
        try:
            return {"res": [int(x) for x in gen.decompose_operations(list(c["ops"]), rules)]}
        except (ValueError, ZeroDivisionError) as e:
            return _err(e)
    tab, customs = _Table(), {}
    if k == "rule":
        op = _op(c["op"], tab, customs)
        rule = dec.U3GateToRotation()
        out = {}
        try:
            p = rule.predicate(op)
            out["predicate"] = bool(p) if isinstance(p, (bool, int)) else repr(p)
        except (AttributeError, ValueError) as e:
            out["predicate"] = _err(e)["err"]
        try:
            out["production"] = [_op_spec(o, tab, customs) for o in rule.production(op)]
        except (AttributeError, ValueError) as e:
            out["production"] = _err(e)["err"]
        return out
    # circuit / symbolic
    ops = [_op(o, tab, customs) for o in c["ops"]]
    circuit = oqc.Circuit(ops, n_qubits=c.get("n"))
    rules = [dec.U3GateToRotation() for _ in range(c["rules"])]
    out = {"n_in": int(circuit.n_qubits)}
    try:
        d = dec.decompose_orquestra_circuit(circuit, rules)
    except (AttributeError, ValueError) as e:
        out.update(_err(e))
        return out
    out["ops"] = [_op_spec(o, tab, customs) for o in d.operations]
    out["n"] = int(d.n_qubits)
    out["eq_input"] = bool(d == circuit)
    out["same_ops_objects"] = len(d.operations) == len(ops) and all(a == b for a, b in zip(d.operations, ops))
    out["input_intact"] = [_op_spec(o, tab, customs) for o in circuit.operations] == [_op_spec(o, tab, customs) for o in ops]
    out["ops_fn"] = [_op_spec(o, tab, customs) for o in dec.decompose_operations(list(circuit.operations), rules)]
    # rules one at a time, each on the output of the previous one
    cur = circuit
    for r in rules:
        cur = dec.decompose_orquestra_circuit(cur, [r])
    out["ops_iter"] = [_op_spec(o, tab, customs) for o in cur.operations]
    # ---- actions (numeric circuits; symbolic ones after binding)
    bind = None
    if k == "symbolic":
        import sympy
        bind = {sympy.Symbol(s): float(unrat(v)) for s, v in c["bind"].items()}
    only_gates = all(isinstance(o, _gates.GateOperation) for o in ops)
    out["actions"] = None
    if only_gates and ops and not _malformed(c):
        n = int(circuit.n_qubits)

        def unitary(op_list, width):
            cc = oqc.Circuit(op_list, n_qubits=width)
            if bind is not None:
                cc = cc.bind(bind)
            return _mat(cc.to_unitary())

        acts = {"U": unitary(ops, n), "U2": unitary(list(d.operations), int(d.n_qubits)) if d.operations else None,
                "single": []}
        for i, (o, spec) in enumerate(zip(ops, c["ops"])):
            if _is_u3(spec["g"]) and rules:
                dd = dec.decompose_orquestra_circuit(oqc.Circuit([o], n_qubits=n), rules[:1])
                acts["single"].append({"i": i, "U": unitary([o], n), "V": unitary(list(dd.operations), n),
                                       "len": len(dd.operations)})
        if rules and any(_is_u3(sp["g"]) == "controlled" for sp in c["ops"]):
            acts["each"] = [unitary([o], n) if not _is_u3(sp["g"]) else None for o, sp in zip(ops, c["ops"])]
        out["actions"] = acts
    return out


# ------------------------------------------------------------------ model requests / comparison
def requests(c, out):
    k = c["kind"]
    if k == "chain":
        return [("chain", {"ops": c["ops"], "rules": [{"pred": r["pred"], "prod": r["prod"]} for r in c["rules"]]})]
    if k == "rule":
        return [("rule", {"op": _model_op(c["op"])})]
    mops = [_model_op(o) for o in c["ops"]]
    reqs = [("decompose", {"ops": mops, "n": _width(c), "rules": c["rules"]}),
            ("decompose_ops", {"ops": mops, "rules": c["rules"]})]
    if (k == "circuit" and c["ops"] and all("g" in o and _has_matrix_model(o["g"]) for o in c["ops"])
            and not _malformed(c) and _width(c) <= 5):
        reqs.append(("unitary", {"ops": mops, "n": _width(c), "rules": c["rules"]}))
    return reqs


def _scale(a):
    import numpy as np
    return max(1.0, float(np.max(np.abs(a)))) if a.size else 1.0


def _phase_verdict(U, V, tol=1e-7):
    """numeric 'equal up to one global phase' by normalising on the largest entry of V"""
    import numpy as np
    if U is None or V is None:
        return "none"
    if U.shape != V.shape:
        return "shape"
    idx = np.unravel_index(np.argmax(np.abs(V)), V.shape)
    if abs(V[idx]) < 1e-12:
        return "equal" if np.max(np.abs(U)) < tol else "no"
    p = U[idx] / V[idx]
    s = _scale(U)
    if abs(abs(p) - 1) > tol or np.max(np.abs(U - p * V)) > tol * s:
        return "no"
    return "equal" if abs(p - 1) <= tol else "phase"


def compare(c, out, resp):
    for r in resp:
        if isinstance(r, dict) and "driver_error" in r:
            return "driver error: " + r["driver_error"]
    k = c["kind"]
    if k == "chain":
        got = "err" if "err" in out else out.get("res")
        if got != resp[0]:
            return f"decompose_operations(toy rules): impl {out} model {resp[0]}"
        return None
    if k == "rule":
        r = resp[0]
        ip = out.get("predicate")
        ip = "err" if isinstance(ip, str) and ip.startswith("err") else ip
        iq = out.get("production")
        iq = "err" if isinstance(iq, str) else iq
        if ip != r["predicate"]:
            return f"U3GateToRotation.predicate: impl {out.get('predicate')} model {r['predicate']}"
        if iq != r["production"]:
            return f"U3GateToRotation.production: impl {out.get('production')} model {r['production']}"
        return None
    r = resp[0]
    if "err" in out:
        if r != "err":
            return f"decompose_orquestra_circuit raised {out['err']} ({out.get('msg')}), model returned a circuit"
        return None
    if r == "err":
        return f"model: the call raises; implementation returned {len(out['ops'])} operations"
    if out["ops"] != r["ops"]:
        return f"decomposed operations differ: impl {out['ops']} model {r['ops']}"
    if out["n"] != r["n"]:
        return f"width of the decomposed circuit: impl {out['n']} model {r['n']}"
    if out["ops_fn"] != resp[1]:
        return f"decompose_operations: impl {out['ops_fn']} model {resp[1]}"
    if len(resp) > 2:
        import numpy as np
        u = resp[2]
        acts = out.get("actions")
        if acts is None:
            return "implementation produced no unitary where the model has one"
        for key, mk in (("U", "U"), ("U2", "U2")):
            if u.get(mk) in (None, "err"):
                if acts[key] is not None:
                    return f"model has no unitary {mk}, implementation has"
                continue
            if acts[key] is None:
                return f"implementation has no unitary {key}, model has"
            a, b = _np(acts[key]), circ.model_matrix_to_numpy(u[mk])
            if a.shape != b.shape or np.max(np.abs(a - b)) > 1e-9 * _scale(b):
                return f"unitary {key}: implementation and model differ (max {np.max(np.abs(a - b)) if a.shape == b.shape else 'shape'})"
        if u.get("n2") != out["n"] or u.get("len2") != len(out["ops"]):
            return "model/implementation disagree on the size of the decomposed circuit"
        if acts["U2"] is not None:
            v = _phase_verdict(_np(acts["U"]), _np(acts["U2"]))
            mv = u.get("verdict")
            if (v == "no") != (mv in ("no", "shape")) and not (v == "shape" and mv == "shape"):
                return f"same-up-to-a-global-phase verdict: numeric on implementation '{v}', exact on model '{mv}'"
    return None


# ------------------------------------------------------------------ oracle (implementation only)
def _subsequence(small, big):
    it = iter(big)
    return all(any(x == y for y in it) for x in small)


def _relative_phase_form(U, V, n, qs, k, tol=1e-7):
    """is U = D·V with D = diag(1 … 1, q … q): q of modulus 1 exactly on the basis states whose control qubits
    qs[:k] are all 1 – the documented deviation F9"""
    import numpy as np
    try:
        W = U @ np.linalg.inv(V)
    except np.linalg.LinAlgError:
        return False
    dim = 2 ** n
    diag = np.diag(W)
    if np.max(np.abs(W - np.diag(diag))) > tol:
        return False
    on = [all((i >> (n - 1 - q)) & 1 for q in qs[:k]) for i in range(dim)]
    off_vals = [diag[i] for i in range(dim) if not on[i]]
    on_vals = [diag[i] for i in range(dim) if on[i]]
    if any(abs(v - 1) > tol for v in off_vals) or not on_vals:
        return False
    q = on_vals[0]
    return abs(abs(q) - 1) < tol and all(abs(v - q) < tol for v in on_vals)


def oracle(c, out):
    k = c["kind"]
    if isinstance(out, dict) and "exc" in out:
        return ("unexpected-exception", f"implementation raised {out['exc']}: {out.get('msg')}")
    if k == "chain":
        # "rules are applied in the order given to the output of the previous rule", restated directly
        try:
            cur = list(c["ops"])
            for r in c["rules"]:
                cur = [y for x in cur for y in (_toy_prod(r["prod"], x) if _toy_pred(r["pred"], x) else [x])]
            want = cur
        except (ValueError, ZeroDivisionError):
            want = None
        if want is None:
            return None if "err" in out else ("chain-swallows-exception", f"a rule raised but decompose_operations returned {out}")
        if "err" in out:
            return ("chain-raises", f"decompose_operations raised {out}")
        if not c["rules"] and out["res"] != c["ops"]:
            return ("empty-rules-changed", f"no rules, yet {c['ops']} became {out['res']}")
        if out["res"] != want:
            return ("chain-order", f"rules {c['rules']} on {c['ops']}: got {out['res']}, rule-by-rule passes give {want}")
        return None
    if k == "rule":
        op = c["op"]
        if "other" in op:
            if out["predicate"] is not False:
                return ("non-gate-operation-raises", f"predicate on a non-gate operation gave {out['predicate']} (must be False)")
            return None
        want = _is_u3(op["g"]) is not None
        if out["predicate"] is not want:
            return ("u3-predicate", f"predicate({op['g']}) = {out['predicate']}, expected {want}")
        return None
    # circuit / symbolic
    import numpy as np
    specs = c["ops"]
    matched = [i for i, o in enumerate(specs) if "g" in o and _is_u3(o["g"]) and c["rules"] >= 1]
    if "err" in out:
        if _malformed(c) and out["err"] == "err:value":
            return None
        if any("other" in o for o in specs) and out["err"] == "err:attr":
            return ("non-gate-operation-raises", f"decomposition raised on a circuit holding a non-gate operation: {out.get('msg')}")
        return ("decompose-raises", f"decompose_orquestra_circuit raised {out['err']}: {out.get('msg')}")
    if _malformed(c) and c["rules"] >= 1:
        return None  # out of domain; whatever was returned is not judged
    if out["n"] != out["n_in"]:
        return ("declared-width-dropped", f"circuit on {out['n_in']} qubits came back on {out['n']}")
    if not out.get("input_intact", True):
        return ("input-modified", "the operations of the input circuit were modified")
    if c["rules"] == 0:
        if not out["eq_input"] or not out["same_ops_objects"]:
            return ("empty-rules-changed", "empty rule list, yet the returned circuit differs from the input")
        return None
    want_unmatched = [_model_op(o) for i, o in enumerate(specs) if i not in matched]
    if not _subsequence(want_unmatched, out["ops"]):
        return ("unmatched-not-kept", f"operations no rule applies to are not kept unchanged and in order: {out['ops']}")
    for o in out["ops"]:
        g = o.get("g", {})
        if g.get("gate") == "U3" or g.get("controlled", {}).get("gate") == "U3":
            return ("u3-not-replaced", f"a U3 survived the decomposition: {o}")
    if out["ops"] != out["ops_iter"]:
        return ("chain-order", "k rules at once differ from k single-rule passes applied one after the other")
    if out["ops"] != out["ops_fn"]:
        return ("circuit-vs-operations", "decompose_orquestra_circuit and decompose_operations disagree")
    acts = out.get("actions")
    if acts is None:
        if len(out["ops"]) != len(specs) + 2 * len(matched):
            pass  # the property does not fix the length of a replacement
        return None
    n = out["n_in"]
    known = []
    for s in acts["single"]:
        spec = specs[s["i"]]
        U, V = _np(s["U"]), _np(s["V"])
        if _phase_verdict(U, V) != "no":
            continue
        if (_is_u3(spec["g"]) == "controlled" and not (k == "circuit" and _phase_trivial(spec["g"]))
                and _relative_phase_form(U, V, n, spec["qs"], spec["g"]["k"])):
            known.append(s["i"])
            continue
        return ("u3-not-equivalent", f"operation {s['i']} {spec} is replaced by a sequence with a different action")
    U, U2 = _np(acts["U"]), _np(acts["U2"])
    if U2 is None:
        return ("decomposed-empty", "non-empty circuit decomposed into nothing")
    # whole circuit: product in circuit order, with the known-deviating replacements taken as they are
    E = np.eye(2 ** n, dtype=complex)
    single = {s["i"]: s for s in acts["single"]}
    if known:
        for i, o in enumerate(specs):
            if i in known:
                M = _np(single[i]["V"])
            elif i in single:
                M = _np(single[i]["U"])
            else:
                M = _np(acts["each"][i])
            E = M @ E
    else:
        E = U
    if _phase_verdict(E, U2) == "no":
        return ("not-same-action", "the decomposed circuit does not act like the original (beyond one global phase)")
    if known:
        i = known[0]
        return (KNOWN_SIG, f"controlled U3 {specs[i]['g']} on {specs[i]['qs']}: the replacement differs by the RELATIVE "
                           f"phase e^(i(phi+lambda)/2) on the controlled subspace")
    return None


def distribution(cases, outs):
    d = {"plain_u3": 0, "controlled_u3_trivial_phase": 0, "controlled_u3_relative_phase": 0, "controls": {},
         "rules": {}, "non_gate_ops": 0, "raised": 0, "declared_idle": 0, "max_width": 0, "unitaries_compared": 0}
    for c, o in zip(cases, outs):
        if c["kind"] in ("circuit", "symbolic") and any(r[0] == "unitary" for r in requests(c, o)):
            d["unitaries_compared"] += 1
        if isinstance(o, dict) and ("err" in o or "exc" in o):
            d["raised"] += 1
        if c["kind"] not in ("circuit", "symbolic"):
            continue
        d["rules"][str(c["rules"])] = d["rules"].get(str(c["rules"]), 0) + 1
        d["max_width"] = max(d["max_width"], _width(c))
        used = max([q for op in c["ops"] for q in op["qs"]], default=-1) + 1
        d["declared_idle"] += 1 if (c.get("n") or 0) > used else 0
        for op in c["ops"]:
            if "other" in op:
                d["non_gate_ops"] += 1
                continue
            kind = _is_u3(op["g"])
            if kind == "plain":
                d["plain_u3"] += 1
            elif kind == "controlled":
                kk = str(op["g"]["k"])
                d["controls"][kk] = d["controls"].get(kk, 0) + 1
                if c["kind"] == "circuit" and len(_params(op["g"])) == 3:
                    d["controlled_u3_trivial_phase" if _phase_trivial(op["g"]) else "controlled_u3_relative_phase"] += 1
    return d
