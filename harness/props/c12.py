"""C12 — a wavefunction object is normalised after every operation on it."""
import math
import os
import tempfile
from fractions import Fraction

from .. import common
from ..common import rat, unrat

PROP = "C12"
RULE = ("op histories (wf[i]=v, wf[a:b]=v, bind incl. empty / foreign-only maps, flip_wavefunction, save+load) in which EVERY object "
        "the history produced stays alive, later operations address any of them, and after each operation all other objects must "
        "hold exactly what they held; on numeric / symbolic / mixed vectors built "
        "from Pythagorean rationals; BOUNDARY histories: vectors, assignments, bindings and files whose exact sum is 1 + c*tol "
        "(tol = 1e-8 + 1e-5, c in +-{0.3, 0.7, 0.95, 1.05, 1.5, 4, 30}; numeric part 1 +- a few 1e-6 next to symbols) and "
        "drift chains (3..40 assignments to one entry / to [:] each within 4.5e-6 of the previous value, together 1.5..3 tol, "
        "optionally back again) through int, negative, numpy-int and slice keys on 1-d arrays, (n,1) arrays, symbol-free and "
        "mixed Matrices, interleaved with operations on the other live objects, at widths 1..8 plus 16..1024 amplitudes; "
        "constructor arguments as list / tuple / complex ndarray / object ndarray / non-contiguous view / sympy Matrix; "
        "SHARED STORAGE: further objects made by the constructor from another's `amplitudes`, from views / reshapes / the reverse "
        "/ a half / a copy of it, from the array the caller built the first object from or still holds (`clone`, `hold` "
        "steps), on (n,) and (n,1) arrays and Matrices, with accepted, rejected and boundary assignments, bindings, flips and "
        "save+load on any of them; which objects share a buffer is MEASURED on the implementation at every step "
        "(np.shares_memory / identical cells), the model is sent the per-object histories that result; after every step every "
        "live object and every array the caller holds is re-checked; "
        "constructor-only cases of every length 0..9, dicke_state for all (n,k) up to the tier's "
        "width plus invalid requests, the Gosper step on random integers, flip_amplitudes on index vectors (list, tuple, "
        "ndarray, column, view, complex), hand-made amplitude files read by name / file object / pathlib.Path; non-trivial: a history with >=1 rejected and >=1 accepted op, a Dicke state with 1<k<n, "
        "a flip of >=4 entries, a load/save of a complex vector; NUMBER TYPES: copies of every history stream (numeric, symbolic, "
        "aliasing, boundary, shared-storage) in which the constructor's entries are Python int / bool / Fraction / sympy Rational / "
        "Float / Integer / numpy float16 / float32 / float64 / complex64 / complex128 / int8 / int64 / bool scalars (one type, or one "
        "per entry) or ONE numpy array of dtype complex64 / float32 / float64 / float16 / int64 / int32 / int8 / uint8 / bool / "
        "clongdouble / object (Fractions, Rationals), every assigned value (scalar, list, typed array), every bind-map value and "
        "every integer index (numpy int8 / uint8 / int16 / int64 / intp, sympy Integer) has such a type - each used only where it "
        "holds the value exactly and the unchanged library accepts it, so accepted and rejected steps stay what they were; every "
        "container type x normalised / unnormalised / basis / uniform vectors; every value type x accepted / rejected assignment "
        "and binding on numeric and symbolic objects; flip_amplitudes on float32 / complex64 / uint8 / int8 / Fraction / Integer / "
        "range vectors; dicke_state with the qubit count as numpy int / Fraction / Integer / bool and a bool weight; amplitude files "
        "with integer literals; distinct = distinct canonical JSON of the case")
TRUSTED = [
    "np.shares_memory(a, b) is exact overlap of two ndarrays; equal data pointer + shape + strides + dtype = the same cells",
    "np.isclose(s, 1.0) <=> |s-1| <= 1e-8+1e-5 (modelled by isClose; theorems hold for every predicate `close`)",
    "float rounding: the generators emit a numeric operation only if the exact sum it would produce is 1, or off the "
    "boundary |s-1| = 1e-8+1e-5 by more than 1e-9 (numeric part next to symbols: off 1 by more than 1e-9, or exactly 1); the "
    "double-precision sum of <= 1024 squares is within 1e-12 of the exact one, so np.isclose / `> 1.0` decide as the model; "
    "for a MIXED vector whose numeric part is exactly 1 the strict float test `> 1.0` may go either way (such steps are skipped in "
    "the model comparison when non-dyadic numbers are involved, and counted)",
    "numpy: a[p] = v / a[s] = vals writes exactly the addressed positions with (n,)/(n,1) broadcasting; reshape/transpose are "
    "C-order; a[ordering] gathers; np.asarray(.., dtype=complex) fails with TypeError iff an entry is symbolic",
    "CPython: slice(a,b).indices(n) clamping; x & -x is the lowest set bit of a positive int; json round-trips doubles exactly",
    "sympy: Matrix.subs on a map whose values mention none of its keys is simultaneous substitution; like terms with rational "
    "coefficients are collected and vanishing terms dropped, so free_symbols of a linear form = symbols with non-zero coefficient; "
    "Matrix.__setitem__ with int and bare-slice keys behaves as in sympy 1.9 (key2ij/copyin_matrix: a bare slice is read as a "
    "(row, col) pair; shape errors are raised before anything is written); Matrix.copy() / ndarray.copy() are independent copies",
    "1/np.sqrt(counter) squared is 1/counter within 1e-12 (Dicke amplitude; the model carries the probabilities 1/counter)",
    "number types: complex(x) of a Python int / bool / Fraction, a sympy number, a numpy scalar of any real or complex dtype is the number "
    "x stands for (exactly, for the values generated: a type is only used where it holds the value exactly), and numpy converts an "
    "array of any such dtype to complex128 element by element; the model is sent the VALUES, so it answers typed histories unchanged",
]
ASSUMPTIONS = [
    "symbolic entries of the model are linear forms c + sum c_i*x_i with Gaussian-rational coefficients; non-linear entries "
    "(cos(t), x*y, x**2) are exercised by the oracle only",
    "slices are generated with step None; bind maps never map a symbol to an expression containing another key of the same map",
    "Python ints in the Gosper step are modelled by Nat (the value is always >= 1 there)",
    "number types (established on the unchanged library): a numeric amplitude / assigned value / bind value may be a Python int, float, "
    "complex, a Fraction, a sympy number or a numpy complex64 / integer scalar everywhere, and a Python / numpy bool or a numpy float "
    "scalar (float16/32/64, complex128) where the object is array-backed or the constructor argument holds numbers only; next to "
    "symbols (Matrix-backed object, bind map, mixed list) numpy float scalars are refused by sympy 1.9 under numpy 2 with ValueError "
    "(object unchanged) - out of domain; float32 / float16 / complex64 values are used only where they hold the number exactly",
    "KNOWN FINDING bool-entry-next-to-symbols (probed directly on every run by harness/finding_probes.py, not generated): a Python / numpy bool next to symbols - wf = Wavefunction([x, .5, .5, .5]); "
    "wf[1] = True is accepted and stored as sympy's BooleanTrue, which _check_normalization does not count (the numeric entries then "
    "exceed 1); on an array-backed object the same assignment is 1.0 and is rejected.  bind({x: True}) raises TypeError",
    "dicke_state: the qubit count may be a numpy integer / Fraction / sympy Integer / bool (zero_state casts it), the weight an int or "
    "bool; a float count, a numpy-integer weight (ValueError) and a narrow numpy-integer count whose 2**n leaves the type "
    "(np.uint8(8): IndexError, np.int8(7): ValueError - dicke_state itself keeps the uncast count) are refused: not generated",
]

SIG_MATRIX_SLICE = "matrix-slice-rejected-modified"
SIG_PARTIAL_VIEW = "shared-partial-view-unnormalised"
SIG_HELD_MATRIX = "held-matrix-keeps-rejected-value"


def _mods():
    common.use_repo()
    import numpy as np
    import sympy
    from orquestra.quantum import wavefunction as W
    return np, sympy, W


# ------------------------------------------------------------------ entry encoding
# JSON entry: [re, im] (number, rationals as int or "p/q") or {"c":[re,im],"t":[[name,[re,im]],...]}
def _is_num(e):
    return isinstance(e, list)


def _frac_pair(p):
    return Fraction(unrat(p[0])), Fraction(unrat(p[1]))


def _dyadic(fr):
    d = fr.denominator
    return d & (d - 1) == 0


def _case_numbers(obj):
    """all rational numbers occurring in a case (for the dyadic test)"""
    out = []
    if isinstance(obj, dict):
        for v in obj.values():
            out += _case_numbers(v)
    elif isinstance(obj, list):
        for v in obj:
            out += _case_numbers(v)
    elif isinstance(obj, str):
        try:
            out.append(Fraction(obj))
        except ValueError:
            pass
    elif isinstance(obj, int) and not isinstance(obj, bool):
        out.append(Fraction(obj))
    return out


# NUMBER TYPES (harness/props/c12.py, class "number type / array dtype").  A numeric JSON entry may be handed to the library as an
# object of one of these types; the VALUE is the one the default route (Python float / complex, or exact sympy numbers) hands
# over - a type is used only where it holds that value exactly - so the model and every sentence of the oracle stay as they are.
#   everywhere (ndarray- and Matrix-backed objects, bind maps, lists next to symbols):
ANY_TYPES = ["int", "Fraction", "Rational", "Float", "Integer", "c64", "i64", "i8"]
#   only where the library works on a numpy array (established on the unchanged library: sympy 1.9 cannot sympify numpy float
#   scalars under numpy 2 - ValueError - and turns bools into BooleanTrue / BooleanFalse):
ARR_TYPES = ["f32", "f64", "c128", "bool", "np.bool_", "f16"]
VAL_TYPES = ANY_TYPES + ARR_TYPES
IDX_TYPES = ["i64", "i8", "u8", "i16", "intp", "Integer"]
VEC_TYPES = (["list:" + t for t in VAL_TYPES] + ["tuple:" + t for t in ("Fraction", "f32", "int", "c64")] + ["list:mixed"] +
             ["arr:complex64", "arr:float32", "arr:float64", "arr:float16", "arr:int64", "arr:int32", "arr:int8", "arr:uint8",
              "arr:bool", "arr:obj-Fraction", "arr:obj-Rational", "arr:clongdouble"])
_MIXED_ORDER = ["Fraction", "f32", "int", "c64", "Float", "i64", "bool", "f64", "Rational", "np.bool_", "c128", "Integer", "i8", "f16"]


def _fits(x, t):
    """is the double x exactly representable in the numpy float type t"""
    import warnings
    with warnings.catch_warnings():
        warnings.simplefilter("ignore")
        y = float(t(x))
    return y == x


def _typed_number(re_, im_, exact, ty, arr_ok, salt=0):
    """the Gaussian rational re_ + i im_ as an object of type ty, or None where ty cannot hold exactly the value the default route
    hands over (floats of re_, im_; the rationals themselves for the exact route) or is not accepted at this place"""
    import numpy as np
    import sympy
    if ty == "mixed":
        for j in range(len(_MIXED_ORDER)):
            v = _typed_number(re_, im_, exact, _MIXED_ORDER[(salt + j) % len(_MIXED_ORDER)], arr_ok)
            if v is not None:
                return v
        return None
    if ty in ARR_TYPES and not arr_ok:
        return None
    fr, fi = float(re_), float(im_)
    real = im_ == 0
    whole = real and re_.denominator == 1
    if ty == "int":
        return int(re_) if whole else None
    if ty == "Integer":
        return sympy.Integer(int(re_)) if whole else None
    if ty in ("bool", "np.bool_"):
        if real and re_ in (0, 1):
            return bool(re_) if ty == "bool" else np.bool_(bool(re_))
        return None
    if ty in ("i64", "i8"):
        if whole and (abs(re_) < 2 ** 62 if ty == "i64" else -128 <= re_ <= 127):
            return (np.int64 if ty == "i64" else np.int8)(int(re_))
        return None
    if ty == "Fraction":
        # (the float route hands over float(re_): the Fraction of THAT double; the exact route the rational itself)
        return (re_ if exact else Fraction(fr)) if real else None
    if ty == "Rational":
        if exact:
            return sympy.Rational(re_.numerator, re_.denominator) + sympy.I * sympy.Rational(im_.numerator, im_.denominator)
        a, b = Fraction(fr), Fraction(fi)
        return sympy.Rational(a.numerator, a.denominator) + sympy.I * sympy.Rational(b.numerator, b.denominator)
    if ty == "Float":
        return sympy.Float(fr) if real else sympy.Float(fr) + sympy.I * sympy.Float(fi)
    if ty in ("f32", "f16", "f64"):
        t = {"f32": np.float32, "f16": np.float16, "f64": np.float64}[ty]
        return t(fr) if real and _fits(fr, t) else None
    if ty == "c64":
        return np.complex64(complex(fr, fi)) if _fits(fr, np.float32) and _fits(fi, np.float32) else None
    if ty == "c128":
        return np.complex128(complex(fr, fi))
    return None


def _to_py(e, exact, sympy, ty=None, arr_ok=False, salt=0):
    """JSON entry -> python value handed to the library (ty: one of VAL_TYPES / "mixed", used where it holds the value exactly)"""
    if ty and _is_num(e):
        re_, im_ = _frac_pair(e)
        v = _typed_number(re_, im_, exact, ty, arr_ok, salt)
        if v is not None:
            return v
    if _is_num(e):
        re_, im_ = _frac_pair(e)
        if exact:
            return sympy.Rational(re_.numerator, re_.denominator) + sympy.I * sympy.Rational(im_.numerator, im_.denominator)
        if im_ == 0:
            return float(re_)
        return complex(float(re_), float(im_))
    re_, im_ = _frac_pair(e["c"])
    if exact:
        expr = sympy.Rational(re_.numerator, re_.denominator) + sympy.I * sympy.Rational(im_.numerator, im_.denominator)
    else:
        expr = sympy.sympify(0)
        if re_ != 0:
            expr += float(re_)
        if im_ != 0:
            expr += sympy.I * float(im_)
    for name, coef in e["t"]:
        cr, ci = _frac_pair(coef)
        s = sympy.Symbol(name)
        if exact:
            expr += sympy.Rational(cr.numerator, cr.denominator) * s
            expr += sympy.Rational(ci.numerator, ci.denominator) * sympy.I * s
        else:
            if cr != 0:
                expr += float(cr) * s
            if ci != 0:
                expr += float(ci) * sympy.I * s
    return expr


def _typed_array(entries, exact, dtype):
    """all-numeric JSON entries as ONE numpy array of the given dtype, or None where the dtype cannot hold every value exactly"""
    import numpy as np
    import sympy
    pairs = [_frac_pair(e) for e in entries]
    if dtype in ("obj-Fraction", "obj-Rational"):
        if any(im_ != 0 for _, im_ in pairs):
            return None
        a = np.empty(len(pairs), dtype=object)
        for i, (re_, _) in enumerate(pairs):
            q = re_ if exact else Fraction(float(re_))
            a[i] = q if dtype == "obj-Fraction" else sympy.Rational(q.numerator, q.denominator)
        return a
    dt = np.dtype(dtype)
    if dt.kind == "c":
        part = {"complex64": np.float32, "clongdouble": np.longdouble}.get(dtype, np.float64)
        if not all(_fits(float(re_), part) and _fits(float(im_), part) for re_, im_ in pairs):
            return None
        return np.array([complex(float(re_), float(im_)) for re_, im_ in pairs], dtype=dt)
    if any(im_ != 0 for _, im_ in pairs):
        return None
    if dt.kind == "f":
        if not all(_fits(float(re_), dt.type) for re_, _ in pairs):
            return None
        return np.array([float(re_) for re_, _ in pairs], dtype=dt)
    if any(re_.denominator != 1 for re_, _ in pairs):
        return None
    if dt.kind == "b":
        return np.array([bool(re_) for re_, _ in pairs], dtype=bool) if all(re_ in (0, 1) for re_, _ in pairs) else None
    info = np.iinfo(dt)
    if not all(info.min <= re_ <= info.max for re_, _ in pairs):
        return None
    return np.array([int(re_) for re_, _ in pairs], dtype=dt)


# ------------------------------------------------------------------ snapshots of the real object
def _lin_of_expr(e, sympy):
    """sympy expression -> ("num", re, im) | ("lin", re, im, [[name, re, im], ...]) | ("nonlinear", str)"""
    syms = sorted(e.free_symbols, key=lambda s: s.name)
    if not syms:
        z = complex(e)
        return ["num", z.real, z.imag]
    zero = {s: 0 for s in syms}
    const = e.subs(zero)
    terms, recon = [], const
    for s in syms:
        c = sympy.diff(e, s)
        if c.free_symbols:
            return ["nonlinear", str(e)]
        recon = recon + c * s
        z = complex(c)
        terms.append([s.name, z.real, z.imag])
    if sympy.expand(e - recon) != 0:
        return ["nonlinear", str(e)]
    z = complex(const)
    return ["lin", z.real, z.imag, terms]


def _snap(wf, np, sympy):
    vec = wf._amplitude_vector
    if isinstance(vec, np.ndarray):
        kind = "arr1" if vec.ndim == 1 else ("arr2" if vec.ndim == 2 and vec.shape[1:] == (1,) else "arr?%s" % (vec.shape,))
        flat = vec.reshape(-1)
        return {"kind": kind, "n": len(wf), "v": [["num", float(z.real), float(z.imag)] for z in flat],
                "exact": [repr(complex(z)) for z in flat], "api": _api_amplitudes(wf, np)}
    ents = [sympy.sympify(x) for x in vec]
    return {"kind": "mat", "n": len(wf), "v": [_lin_of_expr(x, sympy) for x in ents],
            "exact": [sympy.srepr(x) for x in ents], "api": None if wf.free_symbols else _api_amplitudes(wf, np)}


def _api_amplitudes(wf, np):
    """what the public `amplitudes` property shows for a symbol-free object (read only, nothing is written to it)"""
    try:
        return [[float(complex(z).real), float(complex(z).imag)] for z in np.asarray(wf.amplitudes).reshape(-1)]
    except Exception as e:  # noqa: BLE001 – judged by the oracle
        return "raised " + repr(e)[:80]


def _entries_sympy(wf, np, sympy):
    """entries as sympy objects (numpy scalars go through python complex: sympy 1.9 cannot sympify them)"""
    vec = wf._amplitude_vector
    if isinstance(vec, np.ndarray):
        return [sympy.sympify(complex(z)) for z in vec.reshape(-1)]
    return [sympy.sympify(x) for x in vec]


def _probs(wf, np):
    if wf.free_symbols:
        return None
    raw = wf.get_probabilities()
    p = np.asarray(raw).reshape(-1)
    vals = [float(x) for x in p]
    # results are values: scribbling over the returned array must not reach the object (snapshots are taken afterwards)
    if isinstance(raw, np.ndarray) and raw.flags.writeable and raw.dtype != object:
        raw[...] = 7.0
    return vals


class _CaseTimeout(Exception):
    pass


_TIMEOUTS = {"budget": 5, "hit": 0}


def _with_timeout(fn):
    """run fn() under a per-case alarm (an implementation whose loop no longer terminates must not hang or exhaust
    the machine); the runner's own global alarm is put back afterwards"""
    import signal
    import time

    def handler(signum, frame):
        raise _CaseTimeout()

    seconds = _TIMEOUTS["budget"]
    old = signal.signal(signal.SIGALRM, handler)
    remaining = signal.alarm(seconds)
    t0 = time.time()
    try:
        return fn()
    except _CaseTimeout:
        _TIMEOUTS["hit"] += 1
        _TIMEOUTS["budget"] = 1  # later cases of a non-terminating implementation are cut short
        return {"timeout": seconds}
    finally:
        signal.alarm(0)
        signal.signal(signal.SIGALRM, old)
        if remaining:
            signal.alarm(max(1, remaining - int(time.time() - t0)))


def _err(e):
    if isinstance(e, IndexError):
        return "err:index"
    if isinstance(e, TypeError):
        return "err:type"
    if isinstance(e, ValueError):
        return "err:value"
    raise e


# ------------------------------------------------------------------ corpus / generators
def _X(name, coef=1):
    return {"c": [0, 0], "t": [[name, [rat(Fraction(coef)), 0]]]}


def _corpus_drift():
    """drift histories (fixed): 9 assignments, each 3 parts in a million above the previous value of the same entry (or
    0.75 parts for the whole vector), then one back to the start.  Steps 1..6 stay within the library's tolerance of a
    unit sum, steps 7..9 leave it; each single step is far below any tolerance relative to the state before it.  Run on
    every representation (1-d array at three widths, (n,1) array after a binding, symbol-free Matrix) and through every
    form of key (int, negative int, numpy int, one-element slice with a list or a scalar, [:])."""
    half = Fraction(1, 2)
    out = []
    for nq, style, sgn in [(2, "int", 1), (2, "npint", -1), (2, "slice1", 1), (2, "slice1s", -1), (2, "whole", 1),
                           (5, "int", -1), (5, "whole", -1), (5, "alt", 1), (10, "int", 1), (10, "slice1", -1)]:
        n = 2 ** nq
        pos = [0, 1, n // 2, n - 1]
        base = [(half, Fraction(0)) if i in pos else (Fraction(0), Fraction(0)) for i in range(n)]
        f = 1 + sgn * (Fraction(75, 10 ** 8) if style == "whole" else Fraction(3, 10 ** 6))
        ops = []
        for step, k in enumerate(list(range(1, 10)) + [0]):
            st = style if style != "alt" else ["int", "slice1", "npint", "slice1s"][step % 4]
            v = _j(_scale(base[1], f ** k))
            if st == "whole":
                ops.append({"op": "slice", "start": None, "stop": None, "vals": [_j(_scale(z, f ** k)) for z in base]})
            elif st == "int":
                ops.append({"op": "set", "i": 1 if step % 2 else 1 - n, "val": v})
            elif st == "npint":
                ops.append({"op": "set", "i": 1, "val": v, "np": True})
            elif st == "slice1":
                ops.append({"op": "slice", "start": 1, "stop": 2, "vals": [v]})
            else:
                ops.append({"op": "slice", "start": 1, "stop": 2, "val": v})
        out.append({"kind": "ops", "exact": False, "vec": [_j(z) for z in base], "ops": ops})
    f = 1 + Fraction(3, 10 ** 6)
    chain = [{"op": "set", "i": 1, "val": _j(_scale((half, Fraction(0)), f ** k))} for k in list(range(1, 10)) + [0]]
    sym = [_X("x"), ["1/2", 0], ["1/2", 0], ["1/2", 0]]
    out.append({"kind": "ops", "exact": True, "vec": sym, "ops": [{"op": "bind", "map": [["x", ["1/2", 0]]]}] + chain})
    out.append({"kind": "ops", "exact": True, "vec": sym, "ops": [{"op": "set", "i": 0, "val": [0, "1/2"]}] + chain})
    out.append({"kind": "ops", "exact": True, "container": "matrix", "vec": [["1/2", 0]] * 4, "ops": chain})
    # numeric entries below 1 by 2.5e-6 next to a symbol, creeping up by 1.5e-6 per step: from the second step on they exceed 1
    lo = half * (1 - Fraction(5, 10 ** 6))
    out.append({"kind": "ops", "exact": True, "vec": [[0, 0], [rat(lo), 0], ["1/2", 0], ["1/2", 0], ["1/2", 0], _X("y"), [0, 0], [0, 0]],
                "ops": [{"op": "set", "i": 1, "val": _j(_scale((lo, Fraction(0)), f ** k))} for k in range(1, 8)]})
    return out


def _corpus_shared():
    """several live objects over one buffer (the constructor keeps a complex ndarray it is given, `amplitudes` hands out
    the stored array): accepted and rejected assignments on either; a rejected one leaves ALL of them, and the arrays the
    caller holds, exactly as they were"""
    v = [["3/5", 0], ["4/5", 0], [0, 0], [0, 0]]
    swap = {"op": "slice", "start": 0, "stop": 2, "vals": [["4/5", 0], ["3/5", 0]]}
    out = []
    for how, container in [("amplitudes", "ndarray"), ("view", "ndarray"), ("source", "ndarray"), ("source", "strided"),
                           ("reshape", "list"), ("reversed", "ndarray"), ("col", "tuple"), ("copy", "ndarray")]:
        out.append({"kind": "ops", "exact": False, "container": container, "vec": v, "ops": [
            {"op": "clone", "how": how, "on": 0}, {"op": "hold", "on": 0}, dict(swap, on=0),
            {"op": "set", "i": 2, "val": ["1/2", 0], "on": 0},            # rejected on the first …
            {"op": "set", "i": 3, "val": [0, 0], "on": 1},                # … a no-op on the second is still accepted
            {"op": "set", "i": -1, "val": [0, "1/2"], "on": 1},           # rejected on the second
            {"op": "clone", "how": "held", "on": 1}, {"op": "set", "i": 0, "val": ["-4/5", 0], "on": 2},
            {"op": "slice", "start": 1, "stop": 3, "val": ["3/5", 0], "on": 2}, {"op": "flip", "on": 1},
            {"op": "set", "i": 1, "val": [1, 0], "on": 0}]})
    # the same on an (n,1) array that a complete binding produced, and on a clone of a symbol-free Matrix
    sym = [_X("x"), ["4/5", 0], [0, 0], [0, 0]]
    tail = [{"op": "clone", "how": "amplitudes", "on": 1}, {"op": "hold", "on": 1}, {"op": "set", "i": 2, "val": ["1/2", 0], "on": 1},
            {"op": "set", "i": 0, "val": ["-3/5", 0], "on": 2}, {"op": "set", "i": 3, "val": [0, "1/2"], "on": 2},
            {"op": "set", "i": 1, "val": [0, "4/5"], "on": 1}]
    out.append({"kind": "ops", "exact": True, "vec": sym, "ops": [{"op": "bind", "map": [["x", ["3/5", 0]]]}] + tail})
    out.append({"kind": "ops", "exact": True, "vec": sym, "ops": [{"op": "clone", "how": "amplitudes", "on": 0},
                                                                   {"op": "set", "i": 0, "val": ["3/5", 0], "on": 0}] + tail})
    # KNOWN FINDING (unchanged library): a symbol-free sympy-backed object hands out its Matrix itself; a rejected assignment
    # restores the object by re-binding to a copy, so the Matrix the caller holds keeps the rejected value
    out.append({"kind": "ops", "exact": True, "vec": [_X("x"), ["3/5", 0]], "ops": [
        {"op": "set", "i": 0, "val": ["4/5", 0]}, {"op": "hold"}, {"op": "set", "i": 0, "val": ["1/2", 0]},
        {"op": "set", "i": 1, "val": ["-3/5", 0]}]})
    # KNOWN FINDING (unchanged library): an object made from a PART of another's amplitudes is a view of its buffer; an
    # accepted assignment on the whole moves the weight out of the part, which is left with probabilities summing to 0
    out.append({"kind": "ops", "exact": False, "container": "ndarray", "vec": v, "ops": [
        {"op": "clone", "how": "half_lo", "on": 0},
        {"op": "slice", "start": None, "stop": None, "vals": [[0, 0], [0, 0], ["3/5", 0], ["4/5", 0]], "on": 0},
        {"op": "set", "i": 0, "val": [0, 0], "on": 1}]})
    return out


def corpus():
    return [
        # F5 (fixed in 3fba136): a rejected slice assignment must leave the vector as it was
        {"kind": "ops", "exact": False, "vec": [[1, 0], [0, 0], [0, 0], [0, 0]],
         "ops": [{"op": "slice", "start": 0, "stop": 2, "vals": [["1/2", 0], ["1/2", 0]]},
                 {"op": "slice", "start": 0, "stop": 2, "vals": [[0, 0], [0, 1]]}]},
        # sympy-Matrix-backed object + bare slice key: a rejected write used to stay (fixed in 05839b5)
        {"kind": "ops", "exact": True, "vec": [_X("x"), [0, 0]],
         "ops": [{"op": "slice", "start": 0, "stop": 0, "val": [5, 0]}]},
        {"kind": "ops", "exact": True, "vec": [_X("x"), _X("y"), ["3/5", 0], [0, 0]],
         "ops": [{"op": "set", "i": -1, "val": ["4/5", 0]}, {"op": "set", "i": 3, "val": ["9/10", 0]},
                 {"op": "bind", "map": [["x", ["1/5", 0]]]}, {"op": "bind", "map": [["x", [0, 0]], ["y", [0, 0]]]},
                 {"op": "slice", "start": 0, "stop": 2, "val": [0, 0]}, {"op": "flip"}, {"op": "reload"}]},
        # rejected scalar write through a bare slice on a symbolic object, then the no-op assignment wf[:0] = []
        {"kind": "ops", "exact": True, "vec": [[0, 0], _X("y", Fraction(1, 2)), _X("z"), ["4/5", 0]],
         "ops": [{"op": "reload"}, {"op": "slice", "start": None, "stop": 0, "val": [0, 1]},
                 {"op": "slice", "start": None, "stop": 0, "vals": []}, {"op": "flip"}]},
        # float boundary (not a violation): the numeric part is exactly 1 but 0.1479… + 0.8520… rounds above 1.0
        {"kind": "ops", "exact": True, "vec": [["5/13", 0], [0, "12/13"], _X("x"), [0, 0]], "ops": []},
        # aliasing: bind with an empty / foreign-only map, then accepted and rejected assignments on either object;
        # every object the history produced must keep holding what it held
        {"kind": "ops", "exact": True, "vec": [_X("alpha"), ["1/2", 0], _X("beta"), ["1/2", 0]],
         "ops": [{"op": "bind", "map": [["gamma", ["3/10", 0]]], "on": 0},
                 {"op": "set", "i": 0, "val": ["1/2", 0], "on": 1}, {"op": "set", "i": 2, "val": [1, 0], "on": 1},
                 {"op": "bind", "map": [["alpha", ["1/2", 0]], ["beta", ["1/2", 0]]], "on": 0}]},
        {"kind": "ops", "exact": True, "vec": [_X("alpha"), ["1/2", 0], _X("beta"), ["1/2", 0]],
         "ops": [{"op": "bind", "map": [], "on": 0},
                 {"op": "set", "i": 0, "val": ["1/2", 0], "on": 0}, {"op": "set", "i": 2, "val": [1, 0], "on": 0},
                 {"op": "bind", "map": [["alpha", ["1/2", 0]], ["beta", ["1/2", 0]]], "on": 1}]},
        {"kind": "ops", "exact": False, "vec": [["3/5", 0], [0, "4/5"], [0, 0], [0, 0]],
         "ops": [{"op": "flip", "on": 0}, {"op": "reload", "on": 0}, {"op": "bind", "map": [], "on": 0},
                 {"op": "slice", "start": 0, "stop": 2, "vals": [[0, "4/5"], ["3/5", 0]], "on": 0},
                 {"op": "set", "i": 0, "val": [1, 0], "on": 1}, {"op": "set", "i": 1, "val": [0, "-3/5"], "on": 2}]},
        # approximately normalised from the start (1 + 8e-6: accepted), then a phase change, a flip, a save+load
        {"kind": "ops", "exact": False, "container": "ndarray", "vec": [["500002/1000000", 0]] * 4,
         "ops": [{"op": "set", "i": 0, "val": [0, "500002/1000000"]}, {"op": "flip"}, {"op": "reload"},
                 {"op": "set", "i": 1, "val": ["500008/1000000", 0], "np": True}]},
        # numeric entries a few parts in a million above 1 next to a symbol: nothing to create
        {"kind": "ops", "exact": True, "vec": [_X("x"), ["3/5", 0], [0, "800002/1000000"], [0, 0]], "ops": []},
        # ---- number types: a float32 array, then a complex64 value through a uint8 index (accepted), a Python int (rejected), a
        #      complex64 array through a slice; a symbolic vector bound with Fractions / a numpy integer; an int8 array [1, 1] is refused
        {"kind": "ops", "exact": False, "container": "ndarray", "ty": "arr:float32", "vec": [["1/2", 0]] * 4,
         "ops": [{"op": "set", "i": 1, "val": [0, "1/2"], "vty": "c64", "ity": "u8"}, {"op": "set", "i": 0, "val": [1, 0], "vty": "int"},
                 {"op": "slice", "start": 0, "stop": 2, "vals": [[0, "-1/2"], ["-1/2", 0]], "vty": "arr:complex64"},
                 {"op": "slice", "start": 2, "stop": 4, "vals": [[1, 0], [0, 0]], "vty": "arr:bool"}]},
        {"kind": "ops", "exact": True, "ty": "list:Fraction", "vec": [_X("x"), ["1/2", 0], _X("y", 2), ["1/2", 0]],
         "ops": [{"op": "bind", "map": [["x", ["1/2", 0]]], "vty": "Fraction"}, {"op": "bind", "map": [["y", [1, 0]]], "vty": "i64"},
                 {"op": "bind", "map": [["y", ["1/4", 0]]], "vty": "Float", "on": 1}, {"op": "set", "i": 3, "val": ["-1/2", 0], "vty": "f32"}]},
        {"kind": "ops", "exact": False, "container": "ndarray", "ty": "arr:int8", "vec": [[1, 0], [1, 0]], "ops": []},
    ] + _corpus_drift() + _corpus_shared() + [
        {"kind": "dicke", "n": 4, "k": 2},
        {"kind": "dicke", "n": 3, "k": 3},
        {"kind": "dicke", "n": 0, "k": 0},
        {"kind": "flip", "n": 8},
        {"kind": "gosper", "v": 2 ** 40 + 2 ** 39 + 12},
        {"kind": "load", "real": [0, "3/5"], "imag": ["4/5", 0]},
    ]


PYTH = [(3, 4, 5), (5, 12, 13), (8, 15, 17), (7, 24, 25)]
PHASES = [(1, 0), (-1, 0), (0, 1), (0, -1), (Fraction(3, 5), Fraction(4, 5)), (Fraction(-4, 5), Fraction(3, 5))]


def _mulc(a, b):
    return (a[0] * b[0] - a[1] * b[1], a[0] * b[1] + a[1] * b[0])


def _nsq(a):
    return a[0] * a[0] + a[1] * a[1]


def _unit_vector(rng, n, dyadic=False):
    """exactly normalised vector of n Gaussian rationals (n a power of two)"""
    mags = [Fraction(1)]
    splits = rng.randrange(0, min(n, 4))
    if dyadic:
        # amplitudes 1/2^k: split one weight into four equal parts (needs 4 slots) or keep
        while len(mags) + 3 <= n and rng.random() < 0.6:
            i = rng.randrange(len(mags))
            m = mags.pop(i)
            mags += [m / 2] * 4
    else:
        for _ in range(splits):
            if len(mags) >= n:
                break
            i = rng.randrange(len(mags))
            m = mags.pop(i)
            a, b, c = rng.choice(PYTH)
            mags += [m * Fraction(a, c), m * Fraction(b, c)]
    vec = [(Fraction(0), Fraction(0))] * n
    pos = rng.sample(range(n), len(mags))
    for p, m in zip(pos, mags):
        ph = rng.choice(PHASES[:4] if dyadic else PHASES)
        vec[p] = _mulc((m, Fraction(0)), (Fraction(ph[0]), Fraction(ph[1])))
    return vec


def _j(z):
    return [rat(z[0]), rat(z[1])]


def _pool_value(rng, dyadic=False):
    if dyadic:
        m = rng.choice([Fraction(1, 2), Fraction(1, 4), Fraction(1), Fraction(3, 4), Fraction(0)])
    else:
        a, b, c = rng.choice(PYTH)
        m = rng.choice([Fraction(a, c), Fraction(b, c), Fraction(1, 2), Fraction(1), Fraction(0), Fraction(a, c) * Fraction(3, 5)])
    ph = rng.choice(PHASES[:4] if dyadic else PHASES)
    return _mulc((m, Fraction(0)), (Fraction(ph[0]), Fraction(ph[1])))


def _gen_numeric_ops(rng, big, nq=None):
    nq = rng.choice([0, 1, 1, 2, 2, 2, 3, 3] + ([4, 5] if big else [])) if nq is None else nq
    n = 2 ** nq
    dy = rng.random() < 0.25
    cur = _unit_vector(rng, n, dy)
    vec = list(cur)
    if rng.random() < 0.12:  # constructor must reject
        i = rng.randrange(n)
        vec[i] = (vec[i][0] + Fraction(1, 2), vec[i][1])
        return {"kind": "ops", "exact": False, "vec": [_j(z) for z in vec], "ops": []}
    ops = []
    for _ in range(rng.randrange(1, 9 if big else 7)):
        r = rng.random()
        if r < 0.30:  # integer index
            i = rng.randrange(-n - 1, n + 1)
            want_ok = rng.random() < 0.5
            if want_ok and -n <= i < n:
                v = _mulc(cur[i % n], tuple(map(Fraction, rng.choice(PHASES))))
            else:
                v = _pool_value(rng, dy)
            if rng.random() < 0.06:
                ops.append({"op": "set", "i": i, "val": _X("x")})  # symbol into an ndarray: TypeError
                continue
            ops.append({"op": "set", "i": i, "val": _j(v)})
            if -n <= i < n:
                new = list(cur)
                new[i % n] = v
                s = sum(_nsq(z) for z in new)
                if s == 1:
                    cur = new
                elif abs(s - 1) < Fraction(1, 1000):
                    ops.pop()
        elif r < 0.72:  # slice
            a = rng.choice([None, 0, rng.randrange(-n - 1, n + 2), rng.randrange(0, n + 1)])
            b = rng.choice([None, n, rng.randrange(-n - 1, n + 2), rng.randrange(0, n + 1)])
            ps = list(range(*slice(a, b).indices(n)))
            mode = rng.random()
            if mode < 0.45 and ps:  # permutation / rephasing of the addressed values: accepted
                vals = [cur[p] for p in ps]
                rng.shuffle(vals)
                vals = [_mulc(v, tuple(map(Fraction, rng.choice(PHASES)))) for v in vals]
                op = {"op": "slice", "start": a, "stop": b, "vals": [_j(v) for v in vals]}
            elif mode < 0.6:  # scalar broadcast
                vals = [_pool_value(rng, dy)] * len(ps)
                op = {"op": "slice", "start": a, "stop": b, "val": _j(vals[0]) if vals else _j(_pool_value(rng, dy))}
            elif mode < 0.7:  # wrong length: numpy refuses to broadcast
                L = rng.choice([len(ps) + 1, max(0, len(ps) - 1), 1, 0])
                vals = [_pool_value(rng, dy) for _ in range(L)]
                op = {"op": "slice", "start": a, "stop": b, "vals": [_j(v) for v in vals]}
                if L == 1:
                    vals = vals * len(ps)
                elif L != len(ps):
                    vals = None
            else:  # arbitrary values: mostly rejected
                vals = [_pool_value(rng, dy) for _ in ps]
                op = {"op": "slice", "start": a, "stop": b, "vals": [_j(v) for v in vals]}
            ops.append(op)
            if vals is not None and len(vals) == len(ps):
                new = list(cur)
                for p, v in zip(ps, vals):
                    new[p] = v
                s = sum(_nsq(z) for z in new)
                if s == 1:
                    cur = new
                elif abs(s - 1) < Fraction(1, 1000):
                    ops.pop()
        elif r < 0.80:
            ops.append({"op": "bind", "map": [["x", _j(_pool_value(rng, dy))]]})
        elif r < 0.90:
            ops.append({"op": "flip"})
            if n > 1:
                nb = nq
                cur = [cur[int(format(i, "0%db" % nb)[::-1], 2)] for i in range(n)]
        else:
            ops.append({"op": "reload"})
    return {"kind": "ops", "exact": False, "vec": [_j(z) for z in vec], "ops": ops}


def _gen_symbolic_ops(rng, big):
    nq = rng.choice([0, 1, 1, 2, 2, 2, 3] + ([3, 4] if big else []))
    n = 2 ** nq
    dy = rng.random() < 0.2
    exact = True if not dy else rng.random() < 0.5
    target = _unit_vector(rng, n, dy)
    names = ["x", "y", "z", "w"]
    nsym = rng.randrange(1, min(n, 3) + 1)
    spos = rng.sample(range(n), nsym)
    vec = [_j(z) for z in target]
    good = {}  # symbol -> value reproducing the target
    used = []
    for p in spos:
        name = rng.choice(names[: nsym + 1])
        coef = rng.choice([Fraction(1), Fraction(1), Fraction(1, 2), Fraction(2), Fraction(-1)])
        if name in good:
            # a second occurrence of the same symbol: coefficient chosen so the same value still fits (if possible)
            val = good[name]
            if _nsq(val) == 0 or target[p][1] * val[0] != target[p][0] * val[1] and _nsq(target[p]) != 0:
                name = next(nm for nm in names if nm not in good)
        if name not in good:
            good[name] = _mulc(target[p], (1 / coef, Fraction(0)))
            used.append(name)
            vec[p] = {"c": [0, 0], "t": [[name, [rat(coef), 0]]]}
        else:
            val = good[name]
            # target[p] = c * val  with c real if possible, else fall back to a fresh constant offset
            if _nsq(val) != 0:
                c = Fraction(target[p][0] * val[0] + target[p][1] * val[1]) / _nsq(val)
                rest = (target[p][0] - c * val[0], target[p][1] - c * val[1])
                if c != 0:
                    vec[p] = {"c": _j(rest), "t": [[name, [rat(c), 0]]]}
    if rng.random() < 0.1:  # numeric part already too large: constructor must reject
        free = [i for i in range(n) if i not in spos]
        if free:
            vec[free[0]] = _j((Fraction(5, 4), Fraction(0)))
            return {"kind": "ops", "exact": exact, "vec": vec, "ops": []}
    ops = []
    remaining = list(used)
    for _ in range(rng.randrange(1, 8 if big else 6)):
        r = rng.random()
        if r < 0.45 and remaining:  # bind
            k = rng.randrange(1, len(remaining) + 1)
            chosen = rng.sample(remaining, k)
            m = []
            ok_values = rng.random() < 0.6
            for nm in chosen:
                t = rng.random()
                if t < 0.12:
                    fresh = rng.choice([s for s in names if s not in chosen])
                    m.append([nm, _X(fresh, rng.choice([1, -1]))])
                elif ok_values:
                    m.append([nm, _j(good[nm])])
                else:
                    m.append([nm, _j(_pool_value(rng, dy))])
            if rng.random() < 0.15:
                m.append(["unused", _j(_pool_value(rng, dy))])
            ops.append({"op": "bind", "map": m})
            if ok_values and all(_is_num(v) for _, v in m):
                remaining = [s for s in remaining if s not in chosen]
        elif r < 0.70:  # integer assignment
            i = rng.randrange(-n - 1, n + 1)
            t = rng.random()
            if t < 0.3:
                val = _X(rng.choice(names), rng.choice([1, Fraction(1, 2), -1]))
            elif t < 0.6 and -n <= i < n:
                val = _j(_mulc(target[i % n], tuple(map(Fraction, rng.choice(PHASES[:4] if dy else PHASES)))))
            else:
                val = _j(_pool_value(rng, dy))
            ops.append({"op": "set", "i": i, "val": val})
        elif r < 0.80:
            ops.append({"op": "flip"})
            if n > 1:
                target = [target[int(format(i, "0%db" % nq)[::-1], 2)] for i in range(n)]
        elif r < 0.88:
            ops.append({"op": "reload"})
        else:  # slices: on a Matrix they hit sympy's (row, col) reading of a bare slice
            a = rng.choice([None, 0, 0, rng.randrange(0, n + 1)])
            b = rng.choice([None, 0, 0, rng.randrange(0, n + 1)])
            if rng.random() < 0.7:
                ops.append({"op": "slice", "start": a, "stop": b, "val": _j(_pool_value(rng, dy))})
            else:
                L = rng.choice([0, 1, 2])
                ops.append({"op": "slice", "start": a, "stop": b, "vals": [_j(_pool_value(rng, dy)) for _ in range(L)]})
    if rng.random() < 0.45:
        # bind everything that is left to the fitting values (the object becomes an (n,1) ndarray when that is
        # accepted), then assign through integer and slice keys as on a numeric object
        allsyms = sorted({nm for e in vec if not _is_num(e) for nm, _ in e["t"]} | set(names))
        ops.append({"op": "bind", "map": [[nm, _j(good.get(nm, (Fraction(0), Fraction(0))))] for nm in allsyms]})
        for _ in range(rng.randrange(1, 4)):
            a = rng.choice([None, 0, rng.randrange(-n - 1, n + 2)])
            b = rng.choice([None, n, rng.randrange(-n - 1, n + 2)])
            ps = list(range(*slice(a, b).indices(n)))
            t = rng.random()
            if t < 0.3:
                i = rng.randrange(-n, n)
                ops.append({"op": "set", "i": i, "val": _j(_mulc(target[i % n], tuple(map(Fraction, rng.choice(PHASES[:4] if dy else PHASES)))))})
            elif t < 0.5 and ps:
                ops.append({"op": "slice", "start": a, "stop": b, "vals": [_j(target[p]) for p in ps]})
            elif t < 0.7 and ps:
                p0 = rng.choice(ps)
                ops.append({"op": "slice", "start": p0, "stop": p0 + 1, "vals": [_j(_mulc(target[p0], (Fraction(-1), Fraction(0))))]})
            elif t < 0.85:
                ops.append({"op": "slice", "start": a, "stop": b, "val": _j(_pool_value(rng, dy))})
            else:
                ops.append({"op": rng.choice(["flip", "reload"])})
                if ops[-1]["op"] == "flip" and n > 1:
                    target = [target[int(format(i, "0%db" % nq)[::-1], 2)] for i in range(n)]
    return {"kind": "ops", "exact": exact, "vec": vec, "ops": ops}


def _gen_alias_ops(rng, big):
    """several objects per history: producing operations (bind with an empty map, with foreign symbols only, with own
    symbols, to symbols; flip; save+load) interleaved with accepted and rejected assignments on ANY live object"""
    nq = rng.choice([1, 1, 2, 2, 2, 3] + ([3, 4] if big else []))
    n = 2 ** nq
    dy = rng.random() < 0.3
    exact = True if not dy else rng.random() < 0.5
    target = _unit_vector(rng, n, dy)
    vec = [_j(z) for z in target]
    names = ["x", "y", "z"]
    good = {}
    symbolic = rng.random() < 0.7
    if symbolic:
        for p_, nm in zip(rng.sample(range(n), rng.randrange(1, min(n, 3) + 1)), names):
            coef = rng.choice([Fraction(1), Fraction(1, 2), Fraction(-1), Fraction(2)])
            good[nm] = _mulc(target[p_], (1 / coef, Fraction(0)))
            vec[p_] = {"c": [0, 0], "t": [[nm, [rat(coef), 0]]]}
    ops = []
    sharing = rng.random() < 0.5
    if sharing and not symbolic and rng.random() < 0.6:
        case_container = rng.choice(["ndarray", "strided"])
    else:
        case_container = None
    for _ in range(rng.randrange(3, 10 if big else 8)):
        on = rng.randrange(0, 6)
        r = rng.random()
        if sharing and rng.random() < 0.22:
            # a second object from what the first hands out (values only: same, copied, or from the caller's own arrays)
            if rng.random() < 0.8:
                ops.append({"op": "clone", "how": rng.choice(CLONE_SAME + CLONE_SAME + CLONE_FRESH), "on": on})
            else:
                ops.append({"op": "hold", "on": on})
            continue
        if r < 0.16:
            ops.append({"op": "bind", "map": [], "on": on})
        elif r < 0.30:
            m = [[nm, _j(_pool_value(rng, dy))] for nm in rng.sample(["u", "v", "gamma"], rng.randrange(1, 3))]
            ops.append({"op": "bind", "map": m, "on": on})
        elif r < 0.40 and good:
            chosen = rng.sample(sorted(good), rng.randrange(1, len(good) + 1))
            t = rng.random()
            m = [[nm, _j(good[nm]) if t < 0.6 else (_X("u") if t < 0.75 else _j(_pool_value(rng, dy)))] for nm in chosen]
            ops.append({"op": "bind", "map": m, "on": on})
        elif r < 0.48:
            ops.append({"op": "flip", "on": on})
        elif r < 0.54:
            ops.append({"op": "reload", "on": on})
        elif r < 0.84:
            i = rng.randrange(-n, n)
            t = rng.random()
            if t < 0.55:
                val = _j(_mulc(target[i % n], tuple(map(Fraction, rng.choice(PHASES[:4] if dy else PHASES)))))
            elif t < 0.7 and symbolic:
                val = _X(rng.choice(names), rng.choice([1, -1, Fraction(1, 2)]))
            else:
                val = _j(_pool_value(rng, dy))
            ops.append({"op": "set", "i": i, "val": val, "on": on})
        else:
            a = rng.choice([None, 0, rng.randrange(0, n + 1)])
            b = rng.choice([None, n, 0, rng.randrange(0, n + 1)])
            ps = list(range(*slice(a, b).indices(n)))
            t = rng.random()
            if t < 0.5 and ps:
                vals = [target[p_] for p_ in ps]
                rng.shuffle(vals)
                ops.append({"op": "slice", "start": a, "stop": b, "vals": [_j(v) for v in vals], "on": on})
            else:
                ops.append({"op": "slice", "start": a, "stop": b, "val": _j(_pool_value(rng, dy)), "on": on})
    case = {"kind": "ops", "exact": exact, "vec": vec, "ops": ops}
    if case_container and not exact:
        case["container"] = case_container
    return case


def _scatter(rng, case):
    """let some operations of a single-chain history address an earlier object of the history"""
    if rng.random() < 0.5:
        for op in case["ops"]:
            if rng.random() < 0.35:
                op["on"] = rng.randrange(0, 5)
    return case


# ------------------------------------------------------------------ approximately normalised values, drift histories
# "sum to 1" is the library's own criterion np.isclose(s, 1.0), i.e. |s - 1| <= 1e-8 + 1e-5.  The histories below live
# at that boundary: vectors / assignments / bindings / files whose exact sum is 1 + c*tol for c on both sides of 1, and
# CHAINS of assignments each of which changes one entry (or the whole vector) by a few parts in a million in the same
# direction, so that every single step is tiny relative to the previous state while the history as a whole leaves the
# tolerance.  The generator follows the exact rational sums only to stay clear of the float-ambiguous band around the
# boundary (|.| < BAND); what the implementation has to do is decided by the model and by the oracle, not here.
LIB_TOL = Fraction(1001, 10 ** 8)
BAND = Fraction(1, 10 ** 9)
NEAR_C = [Fraction(3, 10), Fraction(7, 10), Fraction(19, 20), Fraction(21, 20), Fraction(3, 2), Fraction(4), Fraction(30)]
CONTAINERS = ["list", "list", "tuple", "ndarray", "strided", "ndarray_obj"]


def _verdict_numeric(s):
    d = abs(s - 1)
    if abs(d - LIB_TOL) < BAND:
        return None
    return d <= LIB_TOL


def _verdict_mixed(s):
    if abs(s - 1) < BAND:
        return None
    return s <= 1


def _rfrac(x, digits=12):
    return Fraction(round(x * 10 ** digits), 10 ** digits)


def _scale(z, f):
    """z * f, written with at most 15 decimals (keeps the rationals of a long chain short)"""
    return (_rfrac(z[0] * f, 15), _rfrac(z[1] * f, 15))


def _numsum(vec):
    return sum((_nsq(z) for z in vec if z is not None), Fraction(0))


def _bitrev_list(v):
    n = len(v)
    nb = n.bit_length() - 1
    return [v[int(format(i, "0%db" % nb)[::-1], 2) if nb else 0] for i in range(n)]


class _NearSim:
    """the objects of one history (exact rationals; None = symbolic entry) under the property's reading of the
    operations.  Only used to steer the generated values; never consulted by compare()/oracle()."""

    def __init__(self, vec, mixed):
        self.objs = [list(vec)]
        self.mixed = mixed

    def verdict(self, vec):
        if any(z is None for z in vec):
            return _verdict_mixed(_numsum(vec))
        return _verdict_numeric(_numsum(vec))

    def write(self, k, ps, vals):
        """None: too close to the boundary (do not emit the op); else True/False = accepted/rejected"""
        new = list(self.objs[k])
        for p_, v in zip(ps, vals):
            new[p_] = v
        v = self.verdict(new)
        if v:
            self.objs[k] = new
        return v


def _near_chain(rng, sim, k, on, span, styles):
    """a drift chain on object k: K assignments v0*f, v0*f^2, ... to one entry (or to the whole vector through [:]),
    |f - 1| <= 4.5e-6, long enough to carry the sum 1.5 .. 3 spans away.  Returns the ops or None (boundary band hit)."""
    cur = sim.objs[k]
    n = len(cur)
    nz = [i for i, z in enumerate(cur) if z is not None and _nsq(z) != 0]
    if not nz:
        return None
    wmax = max(_nsq(cur[i]) for i in nz)
    p = rng.choice([i for i in nz if _nsq(cur[i]) * 2 >= wmax])
    style = rng.choice(styles)
    weight = _numsum(cur) if style == "whole" else _nsq(cur[p])
    sgn = rng.choice([1, 1, -1])
    K = rng.randrange(3, 15)
    c_total = rng.choice([Fraction(3, 2), Fraction(2), Fraction(3)])
    delta = c_total * span / (2 * weight * K)
    cap = Fraction(45, 10 ** 7)
    if delta > cap:
        delta = cap
        K = min(40, int(c_total * span / (2 * weight * delta)) + 1)
    delta = _rfrac(delta, 10)
    if delta == 0:
        return None
    f = 1 + sgn * delta
    base = list(cur)
    ops = []
    back = rng.random() < 0.3  # come back along the same values afterwards (accepted again once inside the tolerance)
    ks = list(range(1, K + 1)) + (list(range(K - 1, -1, -1)) if back else [])
    for step, kk in enumerate(ks):
        if style == "whole":
            ps = [q for q in range(n) if base[q] is not None]
            vals = [_scale(base[q], f ** kk) for q in ps]
            op = {"op": "slice", "start": None, "stop": None, "vals": [_j(v) for v in vals]}
        else:
            ps, vals = [p], [_scale(base[p], f ** kk)]
            st = style if style != "alt" else ["int", "slice1", "npint", "slice1s"][step % 4]
            if st == "int":
                op = {"op": "set", "i": p if step % 2 else p - n, "val": _j(vals[0])}
            elif st == "npint":
                op = {"op": "set", "i": p, "val": _j(vals[0]), "np": True}
            elif st == "slice1":
                op = {"op": "slice", "start": p, "stop": p + 1, "vals": [_j(vals[0])]}
            else:
                op = {"op": "slice", "start": p, "stop": p + 1, "val": _j(vals[0])}
        if sim.write(k, ps, vals) is None:
            return None
        if on is not None:
            op["on"] = on
        ops.append(op)
    return ops


def _near_jump(rng, sim, k, on, span, styles):
    """one assignment that puts the sum at 1 + c*span (c on both sides of +-1), possibly with a change of phase"""
    cur = sim.objs[k]
    n = len(cur)
    nz = [i for i, z in enumerate(cur) if z is not None and _nsq(z) != 0]
    if not nz:
        return None
    p = rng.choice(nz)
    w = _nsq(cur[p])
    c = rng.choice(NEAR_C) * rng.choice([1, -1])
    f = _rfrac(1 + (1 + c * span - _numsum(cur)) / (2 * w), 12)
    ph = rng.choice(PHASES)
    val = _mulc(_scale(cur[p], f), (Fraction(ph[0]), Fraction(ph[1])))
    if sim.write(k, [p], [val]) is None:
        return None
    st = rng.choice([s_ for s_ in styles if s_ not in ("whole", "alt")] or ["int"])
    if st == "int":
        op = {"op": "set", "i": rng.choice([p, p - n]), "val": _j(val)}
    elif st == "npint":
        op = {"op": "set", "i": p, "val": _j(val), "np": True}
    elif st == "slice1":
        op = {"op": "slice", "start": p, "stop": p + 1, "vals": [_j(val)]}
    else:
        op = {"op": "slice", "start": p, "stop": p + 1, "val": _j(val)}
    if on is not None:
        op["on"] = on
    return [op]


def _near_other(rng, sim, k, on, dy, arr):
    """an ordinary operation on object k: change of phase (accepted), pool value (mostly rejected), permutation through
    a slice, flip, save+load, bind with a foreign map"""
    cur = sim.objs[k]
    n = len(cur)
    t = rng.random()
    op = None
    if t < 0.3:
        nums = [i for i, z in enumerate(cur) if z is not None]
        if not nums:
            return None
        p = rng.choice(nums)
        ph = rng.choice(PHASES)
        val = _mulc(cur[p], (Fraction(ph[0]), Fraction(ph[1])))
        if sim.write(k, [p], [val]) is None:
            return None
        op = {"op": "set", "i": rng.choice([p, p - n]), "val": _j(val)}
    elif t < 0.5:
        p = rng.randrange(n)
        val = _pool_value(rng, dy)
        if sim.write(k, [p], [val]) is None:
            return None
        op = {"op": "set", "i": p, "val": _j(val)}
    elif t < 0.65 and arr:
        a, b = sorted([rng.randrange(0, n + 1), rng.randrange(0, n + 1)])
        ps = list(range(a, b))
        vals = [cur[q] for q in ps]
        rng.shuffle(vals)
        if sim.write(k, ps, vals) is None:
            return None
        op = {"op": "slice", "start": a, "stop": b, "vals": [_j(v) for v in vals]}
    elif t < 0.8:
        if sim.mixed and any(z is None for z in cur):
            return None
        op = {"op": "flip"}
        sim.objs.append(_bitrev_list(cur))
    elif t < 0.92:
        if any(z is None for z in cur):
            return None
        op = {"op": "reload"}
        sim.objs.append(list(cur))
    else:
        if any(z is None for z in cur):
            return None
        op = {"op": "bind", "map": [["gamma", _j(_pool_value(rng, dy))]]}
    if on is not None:
        op["on"] = on
    return [op]


def _gen_near_ops(rng, big, wide=None):
    """histories at the tolerance boundary on every representation an object can have (1-d ndarray from any container,
    (n,1) ndarray after a complete binding or from a Matrix, symbol-free Matrix, Matrix with symbols left)"""
    for _attempt in range(20):
        flavour = rng.choice(["arr1", "arr1", "arr1", "arr2", "arr2m", "matnum", "mixed", "bindnear"])
        nq = rng.choice([1, 1, 2, 2, 2, 3] + ([3, 4] if big else []))
        if flavour == "arr1" and rng.random() < 0.1:
            nq = 0
        if wide is not None:
            nq = wide
        n = 2 ** nq
        dy = rng.random() < 0.25
        target = _unit_vector(rng, n, dy)
        case = {"kind": "ops", "exact": True, "vec": None, "ops": []}
        ops = []
        nonzero = [i for i in range(n) if _nsq(target[i]) != 0]
        zero = [i for i in range(n) if _nsq(target[i]) == 0]
        mixed = flavour == "mixed"
        multi = False
        if flavour == "arr1":
            case["exact"] = rng.random() < 0.2
            if not case["exact"]:
                case["container"] = rng.choice(CONTAINERS)
            vec = [_j(z) for z in target]
            state = list(target)
            styles = ["int", "int", "npint", "slice1", "slice1s", "alt", "whole"]
            multi = rng.random() < 0.5
        elif flavour == "arr2m":
            case["container"] = "matrix"
            vec = [_j(z) for z in target]
            state = list(target)
            styles = ["int", "npint", "slice1", "slice1s", "alt"]
        elif flavour in ("arr2", "matnum", "bindnear"):
            spos = rng.sample(nonzero, min(len(nonzero), rng.randrange(1, 3)))
            if flavour == "bindnear":
                spos = spos[:1]
            vec = [_j(z) for z in target]
            good = {}
            for p_, nm in zip(spos, ["x", "y"]):
                coef = rng.choice([Fraction(1), Fraction(1, 2), Fraction(-1), Fraction(2)])
                good[nm] = (p_, coef, _mulc(target[p_], (1 / coef, Fraction(0))))
                vec[p_] = {"c": [0, 0], "t": [[nm, [rat(coef), 0]]]}
            state = list(target)
            if flavour == "arr2":
                ops.append({"op": "bind", "map": [[nm, _j(g[2])] for nm, g in sorted(good.items())]})
                styles = ["int", "npint", "slice1", "slice1s", "alt"]
            elif flavour == "matnum":
                for nm, g in sorted(good.items()):
                    ops.append({"op": "set", "i": g[0], "val": _j(target[g[0]])})
                styles = ["int", "npint"]
            else:
                # bindings whose value is off by a few parts in a million: rejected outside the tolerance (the object
                # keeps its symbol), accepted inside (the (n,1) array that results is approximately normalised)
                nm, g = sorted(good.items())[0]
                w = _nsq(target[g[0]])
                bound = False
                for _ in range(rng.randrange(1, 5)):
                    c = rng.choice(NEAR_C) * rng.choice([1, -1])
                    f = _rfrac(1 + c * LIB_TOL / (2 * w), 12)
                    st2 = list(target)
                    st2[g[0]] = _scale(target[g[0]], f)
                    v = _verdict_numeric(_numsum(st2))
                    if v is None:
                        continue
                    ops.append({"op": "bind", "map": [[nm, _j(_scale(g[2], f))]]})
                    if v:
                        state, bound = st2, True
                        break
                if not bound:
                    ops.append({"op": "bind", "map": [[nm, _j(g[2])]]})
                styles = ["int", "npint", "slice1", "slice1s", "alt"]
        else:  # mixed: symbols stay; the numeric entries start a few parts in a million below 1
            if not zero or not nonzero:
                continue
            spos = rng.sample(zero, rng.randrange(1, min(len(zero), 2) + 1))
            p0 = rng.choice(nonzero)
            gap = Fraction(rng.choice([3, 5, 8]), 10 ** 6)
            state = list(target)
            state[p0] = _scale(target[p0], _rfrac(1 - gap / (2 * _nsq(target[p0])), 12))
            if _verdict_mixed(_numsum(state)) is not True:
                continue
            vec = [_j(z) for z in state]
            for p_, nm in zip(spos, ["x", "y"]):
                vec[p_] = _X(nm, rng.choice([1, Fraction(1, 2), -1]))
                state[p_] = None
            styles = ["int", "npint"]
        span = LIB_TOL if not mixed else (1 - _numsum(state))
        sim = _NearSim(state, mixed)
        # approximately normalised right from the constructor (numeric flavours built from numbers only)
        if flavour in ("arr1", "arr2m") and rng.random() < 0.35 and nonzero:
            p_ = rng.choice(nonzero)
            c = rng.choice(NEAR_C) * rng.choice([1, -1])
            if rng.random() < 0.5:
                f = _rfrac(1 + c * LIB_TOL / (2 * _nsq(target[p_])), 12)
                st2 = list(target)
                st2[p_] = _scale(target[p_], f)
            else:
                f = _rfrac(1 + c * LIB_TOL / 2, 12)
                st2 = [_scale(z, f) for z in target]
            v = _verdict_numeric(_numsum(st2))
            if v is None:
                continue
            vec = [_j(z) for z in st2]
            if not v:
                case["vec"] = vec
                return case  # the constructor must refuse
            sim = _NearSim(st2, False)
        case["vec"] = vec
        ok = True
        arr = flavour in ("arr1", "arr2", "arr2m", "bindnear")
        for _seg in range(rng.randrange(1, 4 if big else 3)):
            k = rng.randrange(len(sim.objs)) if multi else len(sim.objs) - 1
            on = k if multi else None
            t = rng.random()
            if t < 0.55:
                seg = _near_chain(rng, sim, k, on, span, [s_ for s_ in styles if s_ != "whole" or len(sim.objs[k]) > 1])
                if seg is not None and multi and len(sim.objs) > 1 and rng.random() < 0.6:
                    # interleave operations on the OTHER live objects between the steps of the chain
                    mixed_seg = []
                    for op in seg:
                        mixed_seg.append(op)
                        if rng.random() < 0.2:
                            k2 = rng.choice([j for j in range(len(sim.objs)) if j != k])
                            extra = _near_other(rng, sim, k2, k2, dy, True)
                            if extra:
                                mixed_seg += extra
                    seg = mixed_seg
            elif t < 0.8:
                seg = []
                for _ in range(rng.randrange(1, 4)):
                    j_ = _near_jump(rng, sim, k, on, span, styles)
                    if j_ is None:
                        seg = None
                        break
                    seg += j_
            else:
                seg = _near_other(rng, sim, k, on, dy, arr)
                if seg is None:
                    seg = []
            if seg is None:
                ok = False
                break
            ops += seg
        if not ok:
            continue
        case["ops"] = ops
        return case
    return {"kind": "ops", "exact": False, "vec": [[1, 0], [0, 0]], "ops": []}


# ------------------------------------------------------------------ several live objects over shared storage
class _BufSim:
    """buffers and the objects / caller's arrays that are views of them, as the unchanged library lays them out (the
    constructor keeps a complex ndarray it is given; `amplitudes` hands out the stored array).  Generator side only: it
    steers the values so that histories mix accepted and rejected steps; what is really shared is MEASURED in run_impl."""

    def __init__(self, vec, shares_source, dim=1):
        self.bufs = [list(vec)]
        self.objs = [(0, list(range(len(vec))), dim)]  # buffer, cells, 1 = (n,) array / 2 = (n,1) array
        self.source = (0, list(range(len(vec))), dim) if shares_source else None
        self.held = []

    def content(self, k):
        b, cells, _dim = self.objs[k]
        return [self.bufs[b][c_] for c_ in cells]

    def write(self, k, ps, vals, allow_break=False, as_list=False):
        b, cells, dim = self.objs[k]
        if as_list and dim == 2 and len(ps) > 1:
            return False  # numpy does not broadcast m values into an (m,1) block: refused before anything is written
        new = list(self.bufs[b])
        for p_, v in zip(ps, vals):
            new[cells[p_]] = v
        v = _verdict_numeric(sum((_nsq(new[c_]) for c_ in cells), Fraction(0)))
        if v is None:
            return None
        if v:
            for (b2, cells2, _d2) in self.objs:
                if b2 == b and _verdict_numeric(sum((_nsq(new[c_]) for c_ in cells2), Fraction(0))) is not True \
                        and not allow_break:
                    return None  # would leave a partial view unnormalised (the known finding): not generated here
            self.bufs[b] = new
        return v

    def clone(self, k, how, src=None):
        """returns False if the constructor must refuse, None if too close to call, else True (object appended)"""
        b, cells, dim = src if src is not None else self.objs[k]
        n = len(cells)
        if how == "reversed":
            view = (b, cells[::-1], dim)
        elif how == "half_lo":
            view = (b, cells[: max(1, n // 2)], dim)
        elif how == "half_hi":
            view = (b, cells[n // 2:], dim)
        elif how in CLONE_FRESH:
            self.bufs.append([self.bufs[b][c_] for c_ in cells])
            view = (len(self.bufs) - 1, list(range(n)), 1 if how == "list" else dim)
        else:
            view = (b, list(cells), 2 if how == "col" else (1 if how == "flat" else dim))
        v = _verdict_numeric(sum((_nsq(self.bufs[view[0]][c_]) for c_ in view[1]), Fraction(0)))
        if v:
            self.objs.append(view)
        return v

    def fresh(self, vals, dim):
        self.bufs.append(list(vals))
        self.objs.append((len(self.bufs) - 1, list(range(len(vals))), dim))


def _gen_shared_ops(rng, big, partial=False):
    """numeric histories with several live objects over shared storage: clones from `amplitudes`, from views / reshapes /
    the reverse / (partial=True) one half of it, from the array the caller built the first object from or still holds,
    from copies; accepted and rejected assignments (exact, and at the tolerance boundary) on any of them, flips,
    save+load and trivial bindings in between."""
    for _attempt in range(20):
        nq = rng.choice([1, 2, 2, 2, 3] + ([3, 4] if big else []))
        n = 2 ** nq
        dy = rng.random() < 0.3
        target = _unit_vector(rng, n, dy)
        if partial:
            # all the weight in one half, so that a half of the vector is a wavefunction of its own
            half = _unit_vector(rng, max(1, n // 2), dy)
            zeros = [(Fraction(0), Fraction(0))] * (n - len(half))
            target = half + zeros if rng.random() < 0.5 else zeros + half
        container = rng.choice(["ndarray", "ndarray", "strided", "list", "tuple", "matrix", "matrix"])
        case = {"kind": "ops", "exact": container == "matrix", "vec": [_j(z) for z in target], "ops": [],
                "container": container}
        sim = _BufSim(target, container in ("ndarray", "strided"), 2 if container == "matrix" else 1)
        ops = []
        hows = CLONE_SAME * 3 + CLONE_FRESH + ["reversed", "col", "flat"] + (["half_lo", "half_hi"] * 4 if partial else [])
        bad = False
        for step in range(rng.randrange(4, 12 if big else 10)):
            k = rng.randrange(len(sim.objs))
            cur = sim.content(k)
            m = len(cur)
            t = rng.random()
            if step == 0 or t < 0.22:
                how = rng.choice(hows)
                if how == "source" and sim.source is None:
                    how = "amplitudes"
                if how == "held" and not sim.held:
                    how = "view"
                src = sim.source if how == "source" else (sim.held[-1] if how == "held" else None)
                if sim.clone(k, how, src) is None:
                    continue
                ops.append({"op": "clone", "how": how, "on": k})
            elif t < 0.30:
                sim.held.append(sim.objs[k])
                ops.append({"op": "hold", "on": k})
            elif t < 0.38:
                ops.append({"op": rng.choice(["flip", "reload"]), "on": k})
                sim.fresh(_bitrev_list(cur) if ops[-1]["op"] == "flip" else cur, sim.objs[k][2])
            elif t < 0.42:
                ops.append({"op": "bind", "map": [["gamma", _j(_pool_value(rng, dy))]] if rng.random() < 0.5 else [], "on": k})
            else:
                u = rng.random()
                if u < 0.30:  # change of phase: accepted
                    p = rng.randrange(m)
                    ph = rng.choice(PHASES[:4] if dy else PHASES)
                    ps, vals = [p], [_mulc(cur[p], (Fraction(ph[0]), Fraction(ph[1])))]
                    op = {"op": "set", "i": rng.choice([p, p - m]), "val": _j(vals[0])}
                elif u < 0.50:  # permutation of a block: accepted
                    a, b = sorted([rng.randrange(0, m + 1), rng.randrange(0, m + 1)])
                    ps = list(range(a, b))
                    vals = [cur[q] for q in ps]
                    rng.shuffle(vals)
                    op = {"op": "slice", "start": a, "stop": b, "vals": [_j(v) for v in vals]}
                elif u < 0.62:  # at the tolerance boundary (either side)
                    nz = [i for i in range(m) if _nsq(cur[i]) != 0]
                    if not nz:
                        continue
                    p = rng.choice(nz)
                    cc = rng.choice(NEAR_C) * rng.choice([1, -1])
                    f = _rfrac(1 + (1 + cc * LIB_TOL - sum(_nsq(z) for z in cur)) / (2 * _nsq(cur[p])), 12)
                    ps, vals = [p], [_scale(cur[p], f)]
                    op = {"op": "set", "i": p, "val": _j(vals[0]), "np": rng.random() < 0.3}
                elif u < 0.85:  # a value that does not fit: rejected (mostly)
                    p = rng.randrange(m)
                    ps, vals = [p], [_pool_value(rng, dy)]
                    op = {"op": "set", "i": rng.choice([p, p - m]), "val": _j(vals[0])}
                else:  # a block of values that do not fit
                    a, b = sorted([rng.randrange(0, m + 1), rng.randrange(0, m + 1)])
                    ps = list(range(a, b))
                    vals = [_pool_value(rng, dy) for _ in ps]
                    op = {"op": "slice", "start": a, "stop": b, "vals": [_j(v) for v in vals]}
                if sim.write(k, ps, vals, allow_break=partial, as_list="vals" in op) is None:
                    continue
                if not op.get("np", True):
                    op.pop("np")
                op["on"] = k
                ops.append(op)
        if bad or not any(o_["op"] == "clone" for o_ in ops):
            continue
        case["ops"] = ops
        return case
    return {"kind": "ops", "exact": False, "vec": [[1, 0], [0, 0]], "ops": []}


FLIP_ARGS = ["list", "tuple", "ndarray", "col", "strided", "complex"]

EXPR_CASES = [
    (["cos(t)", "sin(t)"], [{"t": "3/10"}]),
    (["cos(t)", "I*sin(t)", "0", "0"], [{"t": "7/5"}]),
    (["x*y", "0"], [{"x": "1/2"}, {"y": "2"}]),
    (["x*y", "0"], [{"x": "1/2", "y": "1"}]),
    (["x**2", "3/5"], [{"x": "2*sqrt(5)/5"}]),
    (["x**2", "3/5"], [{"x": "1"}]),
    (["sqrt(2)/2", "a"], [{"a": "-sqrt(2)/2"}, {"a": "1"}]),
    (["sqrt(2)/2", "a", "b", "0"], [{"a": "1/2"}, {"b": "-I/2"}]),
    (["sqrt(2)/2", "a", "b", "0"], [{"a": "1/2", "b": "3/5"}]),
    (["exp(I*p)/2", "1/2", "1/2", "q"], [{"p": "1/3"}, {"q": "-1/2"}]),
    (["exp(I*p)/2", "1/2", "1/2", "q"], [{"q": "3/4"}]),
]


def _typed(rng, case, vec_prob=0.8):
    """the same history with its numbers handed over in other NUMBER TYPES: the constructor's entries (one type for all, one per
    entry, or ONE typed numpy array), every assigned value (scalars, lists, typed arrays), every value of a bind map, the integer
    indices.  A type is used only where it holds the value exactly and where the unchanged library accepts it, so the history
    means what it meant."""
    if case.get("container") in ("strided", "ndarray_obj", "matrix"):
        case.pop("container")
    if rng.random() < vec_prob:
        numeric = all(_is_num(e) for e in case["vec"])
        case["ty"] = rng.choice(VEC_TYPES if numeric else [t for t in VEC_TYPES if not t.startswith("arr:")])
        if case["ty"].startswith("arr:"):
            case["container"] = "ndarray"
    for op in case["ops"]:
        if op["op"] in ("set", "slice", "bind") and rng.random() < 0.85:
            pool = VAL_TYPES + ["mixed"] + (["arr:complex64", "arr:float32", "arr:int8", "arr:bool", "arr:obj-Fraction", "arr:float64"]
                                            if op["op"] == "slice" and "vals" in op else [])
            op["vty"] = rng.choice(pool)
        if op["op"] == "set" and not op.get("np") and rng.random() < 0.4:
            op["ity"] = rng.choice(IDX_TYPES)
    return case


def _gen_typed(rng, big):
    cases = []
    k = 4 if big else 1
    # dyadic vectors first: every value fits float32 / complex64 / float16 / the small integer types
    for _ in range(60 * k):
        for _try in range(20):
            c = _gen_numeric_ops(rng, big)
            if all(_dyadic(x) and x.denominator <= 16 for x in _case_numbers({"v": c["vec"], "o": c["ops"]})):
                break
        cases.append(_typed(rng, c, 1.0))
    for _ in range(40 * k):
        cases.append(_typed(rng, _scatter(rng, _gen_numeric_ops(rng, big))))
    for _ in range(60 * k):
        cases.append(_typed(rng, _scatter(rng, _gen_symbolic_ops(rng, big))))
    for _ in range(40 * k):
        cases.append(_typed(rng, _gen_alias_ops(rng, big)))
    for _ in range(40 * k):
        cases.append(_typed(rng, _gen_near_ops(rng, big)))
    for _ in range(30 * k):
        cases.append(_typed(rng, _gen_shared_ops(rng, big)))
    # constructor only: every container type x (normalised / clearly not / basis state / uniform), lengths 1..8 and 3, 0
    for ty in VEC_TYPES:
        for vec in ([[1, 0], [0, 0]], [[0, 0], [0, 1], [0, 0], [0, 0]], [["1/2", 0]] * 4, [["1/2", 0], [0, "1/2"], ["-1/2", 0], [0, "-1/2"]],
                    [[1, 0], [1, 0]], [["1/2", 0]] * 3 + [[1, 0]], [["1/2", 0]] * 2, [[1, 0], [0, 0], [0, 0]], [[0, 0]] * 4, [[1, 0]],
                    [["1/4", 0]] * 16, [["3/5", 0], [0, "4/5"]], [["3/5", 0], ["3/5", 0]]):
            cases.append({"kind": "ops", "exact": False, "vec": vec, "container": "ndarray" if ty.startswith("arr:") else "list", "ty": ty,
                          "ops": [{"op": "set", "i": 0, "val": vec[0], "vty": rng.choice(VAL_TYPES)},
                                  {"op": "set", "i": len(vec) - 1, "val": [1, 0], "vty": rng.choice(VAL_TYPES), "ity": rng.choice(IDX_TYPES)},
                                  {"op": "flip"}]})
    # every value type x (accepted rephasing / rejected value / value that completes the norm) on a numeric and on a symbolic object,
    # and as the value of a bind map
    for vt in VAL_TYPES + ["mixed"]:
        for val, i in (([0, 0], 2), (["-1/2", 0], 1), ([1, 0], 0), ([0, "1/2"], 3), (["1/2", 0], 2), ([0, 1], 2)):
            cases.append({"kind": "ops", "exact": False, "vec": [["1/2", 0]] * 4, "ops": [
                {"op": "set", "i": i, "val": val, "vty": vt}, {"op": "slice", "start": 0, "stop": 2, "val": val, "vty": vt},
                {"op": "slice", "start": 2, "stop": 4, "vals": [val, ["1/2", 0]], "vty": vt}, {"op": "reload"}]})
            cases.append({"kind": "ops", "exact": rng.random() < 0.5, "vec": [_X("x"), ["1/2", 0], ["1/2", 0], _X("y", Fraction(1, 2))], "ops": [
                {"op": "set", "i": i, "val": val, "vty": vt}, {"op": "bind", "map": [["x", val]], "vty": vt},
                {"op": "bind", "map": [["y", [1, 0]], ["x", ["1/2", 0]]], "vty": vt}, {"op": "set", "i": 1, "val": val, "vty": vt}]})
    return cases


def generate(rng, tier):
    big = tier == "thorough"
    cases = []
    # constructor-only: every length 0..9, normalised or not
    for n in range(0, 10 if not big else 18):
        for variant in range(3):
            if variant == 0:
                vec = [[1, 0]] + [[0, 0]] * (n - 1) if n else []
            elif variant == 1:
                vec = [[rat(Fraction(1, 2)), 0]] * n
            else:
                vec = ([_X("x")] + [[0, 0]] * (n - 1)) if n else []
            cases.append({"kind": "ops", "exact": variant == 2, "vec": vec, "ops": []})
            # the same vector handed over as a tuple, a complex / object ndarray, a non-contiguous view, a sympy Matrix
            if variant < 2 and n < 10:
                for how in ["tuple", "ndarray", "ndarray_obj", "strided", "matrix"]:
                    cases.append({"kind": "ops", "exact": how == "matrix", "vec": vec, "ops": [], "container": how})
    for how in ["list", "tuple", "ndarray", "ndarray_obj", "strided", "matrix"]:
        # normalised / far off / just outside the library's tolerance, per container
        for vec in ([["3/5", 0], [0, "4/5"]], [["3/5", 0], [0, "3/5"]], [["3/5", 0], [0, "800012/1000000"]],
                    [["1/2", 0]] * 3 + [["500025/1000000", 0]], [["1/2", 0]] * 3 + [["499975/1000000", 0]]):
            cases.append({"kind": "ops", "exact": how == "matrix", "vec": vec, "container": how,
                          "ops": [{"op": "set", "i": 0, "val": vec[0]}, {"op": "flip"}]})
    # wide registers (a few): ordinary and boundary histories on 16 .. 1024 amplitudes
    for nq in ([4, 5, 6, 9] if not big else [4, 5, 5, 6, 6, 7, 8, 9, 10, 10]):
        cases.append(_gen_numeric_ops(rng, big, nq))
        cases.append(_gen_near_ops(rng, big, nq))
        cases.append(_gen_near_ops(rng, big, nq))
    for _ in range(3000 if big else 180):
        cases.append(_scatter(rng, _gen_numeric_ops(rng, big)))
    for _ in range(3000 if big else 180):
        cases.append(_scatter(rng, _gen_symbolic_ops(rng, big)))
    for _ in range(2500 if big else 160):
        cases.append(_gen_alias_ops(rng, big))
    for _ in range(2500 if big else 170):
        cases.append(_gen_near_ops(rng, big))
    for _ in range(2500 if big else 170):
        cases.append(_gen_shared_ops(rng, big))
    for _ in range(40 if big else 4):
        cases.append(_gen_shared_ops(rng, big, partial=True))
    # rejected assignments of HUGE values (1e8 … 1e150) in the middle of a history: the object must be exactly what it was, and the
    # next assignments are judged against the true total (a running total that absorbed the huge value forgets the rest)
    for _ in range(60 if big else 12):
        n = rng.choice([2, 4, 4, 8])
        basis = rng.randrange(n)
        vec = [[1, 0] if i == basis else [0, 0] for i in range(n)] if rng.random() < 0.6 else \
            ([["3/5", 0], [0, "4/5"]] + [[0, 0]] * (n - 2))
        other = [i for i in range(n) if vec[i] == [0, 0]] or [0]
        ops = []
        for _ in range(rng.randrange(1, 3)):
            e = rng.choice([8, 9, 12, 16, 30, 100, 150])
            huge = [str(10 ** e), 0] if rng.random() < 0.7 else [0, str(-(10 ** e))]
            ops.append({"op": "set", "i": rng.choice(other + [basis]), "val": huge})               # rejected
            ops.append({"op": "set", "i": rng.choice(other), "val": rng.choice([[1, 0], [0, 1], ["3/5", 0]])})   # rejected too (total > 1)
        ops.append({"op": "set", "i": rng.choice(other), "val": [0, 0]})                          # accepted (nothing changes)
        cases.append({"kind": "ops", "exact": False, "vec": vec, "ops": ops,
                      **({"container": rng.choice(["ndarray", "list"])} if rng.random() < 0.5 else {})})
    for exprs, binds in EXPR_CASES:
        cases.append({"kind": "expr", "vec": exprs, "binds": binds})
    # Dicke states: all (n, k) up to the width, and invalid requests
    width = 13 if big else 10
    for n in range(1, width + 1):
        for k in range(0, n + 1):
            cases.append({"kind": "dicke", "n": n, "k": k})
    for n, k in [(0, 0), (-1, 0), (3, 4), (3, -1), (1, 2), (0, 1), (5, 6), (2, -2)]:
        cases.append({"kind": "dicke", "n": n, "k": k})
    # registers across the 16-bit / 2^16-amplitude mark (oracle only: the exact model is not asked for 2^17 amplitudes)
    for n, k in ([(15, 2), (16, 1), (16, 15), (17, 1), (17, 2), (17, 16), (17, 17), (18, 3), (20, 1)] + ([(19, 18), (21, 2)] if big else [])):
        cases.append({"kind": "dicke", "n": n, "k": k, "wide": True})
    for _ in range(2000 if big else 60):
        bits = rng.choice([4, 8, 16, 40, 70, 200])
        cases.append({"kind": "gosper", "v": rng.randrange(1, 2 ** bits)})
    for v in range(1, 1030 if big else 40):
        cases.append({"kind": "gosper", "v": v})
    for n in list(range(1, 20)) + [32, 64, 128] + ([256, 1024] if big else []):
        cases.append({"kind": "flip", "n": n})
    # the same permutation whatever the argument is: tuple, ndarray, (n,1) column, non-contiguous view, complex values
    for n in [1, 2, 4, 8, 16, 32] + ([64, 512] if big else []):
        for how in FLIP_ARGS[1:]:
            cases.append({"kind": "flip", "n": n, "as": how})
    for _ in range(400 if big else 25):
        nq = rng.randrange(0, 4)
        vec = _unit_vector(rng, 2 ** nq)
        c = {"kind": "load", "real": [rat(z[0]) for z in vec], "imag": [rat(z[1]) for z in vec]}
        t = rng.random()
        if t < 0.15:
            c["imag"] = None
        elif t < 0.25:
            c["imag"] = [0]
        elif t < 0.32:
            c["imag"] = c["imag"] + [0]
        elif t < 0.4:
            c["real"][0] = rat(unrat(c["real"][0]) + Fraction(1, 2))
        elif t < 0.65:
            # a file that is only approximately normalised: 1 + c*tol on either side of the library's tolerance
            f = _rfrac(1 + rng.choice(NEAR_C) * rng.choice([1, -1]) * LIB_TOL / 2, 12)
            scaled = [_scale(z, f) for z in vec]
            if _verdict_numeric(_numsum(scaled)) is not None:
                c["real"], c["imag"] = [rat(z[0]) for z in scaled], [rat(z[1]) for z in scaled]
        if rng.random() < 0.4:   # whole numbers written as JSON integers (numpy then reads an integer array)
            c["json_ints"] = True
        cases.append(c)
    # ---- NUMBER TYPES of everything the quantifier covers (a fresh generator: the streams above stay as they were)
    import random as _random
    r2 = _random.Random(rng.getrandbits(64))
    cases += _gen_typed(r2, big)
    for how in FLIP_TYPED:
        for n in [1, 2, 4, 8, 16, 64] + ([128, 256] if how != "i8" else [128]):
            cases.append({"kind": "flip", "n": n, "as": how})
    # the number of qubits as a numpy integer / Fraction / sympy Integer / bool, the weight as a bool (accepted by the unchanged
    # library: zero_state casts with a warning; NOT accepted: a float n, a numpy-integer weight, a narrow numpy integer n whose
    # 2**n leaves the type - they raise)
    for nty in DICKE_N_TYPES:
        top = {"u8": 7, "i8": 6, "bool": 1}.get(nty, 8)
        for n in sorted({1, 2, top - 1, top} - {0}):
            for kk in sorted({0, 1, n // 2, n}):
                c = {"kind": "dicke", "n": n, "k": kk, "n_ty": nty}
                if kk in (0, 1) and nty != "Integer" and r2.random() < 0.5:   # (True > sympy.Integer(n) is a TypeError of sympy's)
                    c["k_ty"] = "bool"
                cases.append(c)
    for _ in range(12):
        n = r2.randrange(1, 8)
        cases.append({"kind": "dicke", "n": n, "k": r2.choice([n + 1, -1, n + 2]), "n_ty": r2.choice(["i64", "Fraction", "Integer", "i32"])})
    return cases


FLIP_TYPED = ["f32", "c64", "u8", "i8", "f64", "Fraction", "Integer", "range"]
DICKE_N_TYPES = ["i64", "i32", "u8", "i8", "Fraction", "Integer", "bool", "intp"]

_SEEN_OUTCOMES = {}  # canonical case -> (some op accepted, some op rejected); filled by run_impl


def nontrivial(c):
    k = c["kind"]
    if k == "ops":
        return _SEEN_OUTCOMES.get(common.canon(c)) == (True, True)
    if k == "expr":
        return True
    if k == "dicke":
        return 1 < c["k"] < c["n"]
    if k == "gosper":
        return c["v"] & (c["v"] + 1) != 0
    if k == "flip":
        return c["n"] >= 4
    if k == "load":
        return len(c["real"]) >= 2
    return False


# ------------------------------------------------------------------ running the real code
def _build_vec(c, np, sympy):
    """the constructor argument in the container the case asks for (a fresh one per call: nothing else refers to it).
    c["ty"] (one of VEC_TYPES): the NUMBER TYPE of the entries / the dtype of the array, used where it holds the values exactly"""
    ty = c.get("ty")
    how = c.get("container", "list")
    if ty and how in ("list", "tuple", "ndarray"):
        numeric = all(_is_num(e) for e in c["vec"])
        if ty.startswith("arr:"):
            a = _typed_array(c["vec"], c["exact"], ty[4:]) if numeric and c["vec"] else None
            if a is not None:
                return a
        else:
            form, t = ty.split(":")
            vals = [_to_py(e, c["exact"], sympy, t, numeric, i) for i, e in enumerate(c["vec"])]
            return tuple(vals) if form == "tuple" or how == "tuple" else vals
    vals = [_to_py(e, c["exact"], sympy) for e in c["vec"]]
    if how == "tuple":
        return tuple(vals)
    if how == "ndarray":
        return np.array(vals, dtype=complex)
    if how == "ndarray_obj":
        a = np.empty(len(vals), dtype=object)
        a[:] = vals
        return a
    if how == "strided":
        a = np.zeros(2 * len(vals), dtype=complex)
        a[::2] = vals
        a[1::2] = 7.0
        return a[::2]
    if how == "matrix":
        return sympy.Matrix(vals)
    return vals


def _typed_index(i, ity, np, sympy):
    """the integer index i as an object of the index type ity (where that type holds it)"""
    if ity == "Integer":
        return sympy.Integer(i)
    t = {"i64": np.int64, "i8": np.int8, "u8": np.uint8, "i16": np.int16, "intp": np.intp}.get(ity)
    if t is None:
        return i
    info = np.iinfo(t)
    return t(i) if info.min <= i <= info.max else i


CLONE_SAME = ["amplitudes", "view", "reshape", "source", "held"]      # the new object is to hold what the source holds
CLONE_OTHER = ["reversed", "col", "flat", "half_lo", "half_hi"]        # … the reverse / the other shape / one half of it
CLONE_FRESH = ["copy", "list"]                                         # … what the source holds, from a copy


def _clone_arg(np, wf, how, ctx):
    """the constructor argument of a clone: what a caller can get out of a live object (or still holds)"""
    if how == "source":
        return ctx["source"] if ctx["source"] is not None else wf.amplitudes
    if how == "held":
        return ctx["held"][-1] if ctx["held"] else wf.amplitudes
    a = wf.amplitudes
    if not isinstance(a, np.ndarray):
        return a  # a symbol-free sympy Matrix: handed over as it is
    n = a.shape[0]
    if how == "view":
        return a[:]
    if how == "reshape":
        return a.reshape(a.shape)
    if how == "reversed":
        return a[::-1]
    if how == "col":
        return a.reshape(n, 1)
    if how == "flat":
        return a.reshape(-1)
    if how == "half_lo":
        return a[: max(1, n // 2)]
    if how == "half_hi":
        return a[n // 2:]
    if how == "copy":
        return np.array(a, copy=True)
    if how == "list":
        return [z for z in a.reshape(-1)]
    return a


def _storage(wf):
    return wf._amplitude_vector


def _shares(np, a, b):
    """do two stores overlap (numpy buffers: np.shares_memory; sympy matrices: one object / one entry list)"""
    if isinstance(a, np.ndarray) and isinstance(b, np.ndarray):
        return bool(np.shares_memory(a, b))
    if isinstance(a, np.ndarray) or isinstance(b, np.ndarray):
        return False
    if a is b:
        return True
    fa, fb = getattr(a, "_rep", None), getattr(b, "_rep", None)
    return fa is not None and fa is fb


def _same_cells(np, a, b):
    """two stores that are the SAME cells in the same order (then they always hold the same values)"""
    if isinstance(a, np.ndarray) and isinstance(b, np.ndarray):
        return (a.shape == b.shape and a.strides == b.strides and a.dtype == b.dtype
                and a.__array_interface__["data"][0] == b.__array_interface__["data"][0])
    return a is b


def _raw(np, arr):
    return [repr(complex(z)) if not hasattr(z, "free_symbols") or not z.free_symbols else str(z)
            for z in np.asarray(arr).reshape(-1)]


def _apply_op(W, np, sympy, wf, op, exact, ctx=None):
    """returns (wf_after, outcome, extra)"""
    extra = {}
    try:
        if op["op"] == "clone":
            # a second object made from what the first one hands out (or from the array the caller built it from / still
            # holds).  Whether the two then share storage is the library's business; it is measured, not assumed.
            wf = W.Wavefunction(_clone_arg(np, wf, op["how"], ctx))
        elif op["op"] == "hold":
            # the caller keeps what `amplitudes` handed out; it is only ever looked at afterwards
            ctx["held"].append(wf.amplitudes)
            ctx["held_family"].append(ctx["family_of_target"])
        elif op["op"] == "set" and op.get("np"):
            # numpy scalars as index and value: the same assignment
            val = _to_py(op["val"], exact, sympy)
            if isinstance(val, (float, complex)):
                val = np.complex128(val) if isinstance(val, complex) else np.float64(val)
            wf[np.int64(op["i"])] = val
        elif op["op"] == "set":
            arr_ok = isinstance(_storage(wf), np.ndarray)
            wf[_typed_index(op["i"], op.get("ity"), np, sympy)] = _to_py(op["val"], exact, sympy, op.get("vty"), arr_ok)
        elif op["op"] == "slice":
            key = slice(op.get("start"), op.get("stop"))
            arr_ok = isinstance(_storage(wf), np.ndarray)
            vty = op.get("vty")
            if "vals" in op:
                typed = None
                if vty and vty.startswith("arr:") and arr_ok and op["vals"] and all(_is_num(v) for v in op["vals"]):
                    typed = _typed_array(op["vals"], exact, vty[4:])   # the new values as ONE array of that dtype
                if typed is None:
                    vt = None if (vty or "").startswith("arr:") else vty
                    typed = [_to_py(v, exact, sympy, vt, arr_ok, j) for j, v in enumerate(op["vals"])]
                wf[key] = typed
            else:
                wf[key] = _to_py(op["val"], exact, sympy, None if (vty or "").startswith("arr:") else vty, arr_ok)
        elif op["op"] == "bind":
            m = {sympy.Symbol(nm): _to_py(v, exact, sympy, op.get("vty"), False, j) for j, (nm, v) in enumerate(op["map"])}
            before = _snap(wf, np, sympy)
            new = wf.bind(m)
            extra["orig_intact"] = _snap(wf, np, sympy)["exact"] == before["exact"] or new is wf
            extra["same_obj"] = new is wf
            wf = new
        elif op["op"] == "flip":
            before = _snap(wf, np, sympy)
            new = W.flip_wavefunction(wf)
            extra["orig_intact"] = _snap(wf, np, sympy)["exact"] == before["exact"]
            wf = new
        elif op["op"] == "reload":
            fd, path = tempfile.mkstemp(suffix=".json", prefix="c12_")
            os.close(fd)
            try:
                W.save_wavefunction(wf, path)
                wf = W.load_wavefunction(path)
            finally:
                os.unlink(path)
        else:
            raise AssertionError("unknown op")
    except (ValueError, TypeError, IndexError) as e:
        extra["msg"] = str(e)[:60].replace("\n", " ")
        return wf, _err(e), extra
    return wf, "ok", extra


def run_impl(c):
    np, sympy, W = _mods()
    k = c["kind"]
    if k == "ops":
        exact = c["exact"]
        source = _build_vec(c, np, sympy)
        try:
            wf = W.Wavefunction(source)
        except ValueError as e:
            return {"init": "err:value", "msg": str(e)[:60]}
        probs0 = _probs(wf, np)
        out = {"init": {"snap": _snap(wf, np, sympy), "probs": probs0}, "steps": []}
        objs = [wf]  # EVERY object the history produced stays alive and is inspected after every later operation
        # objects made by the constructor from one another's amplitudes form a FAMILY: within it the library may let them
        # share storage (measured below); results of bind / flip / save+load start a family of their own
        family = [0]
        ctx = {"source": source if isinstance(source, np.ndarray) else None, "held": [], "held_family": []}
        watch = bool(ctx["source"] is not None or any(o_["op"] in ("clone", "hold") for o_ in c["ops"]))

        def arrays():
            return ([ctx["source"]] if ctx["source"] is not None else []) + ctx["held"]

        saved = {}

        def remember():
            for j_, o_ in enumerate(objs):
                st_ = _storage(o_)
                saved[j_] = np.array(st_, copy=True) if isinstance(st_, np.ndarray) and st_.dtype != object else None

        remember()
        if watch:
            out["init"]["arrays"] = [_raw(np, a_) for a_ in arrays()]
            out["init"]["has_source"] = ctx["source"] is not None
        for op in c["ops"]:
            k = (op["on"] % len(objs)) if "on" in op else len(objs) - 1
            tk = _storage(objs[k])
            n_before = len(objs)
            shared = [_shares(np, _storage(o_), tk) for o_ in objs]
            cells = [_same_cells(np, _storage(o_), tk) for o_ in objs]
            arr_shared = [_shares(np, a_, tk) for a_ in arrays()]
            ctx["family_of_target"] = family[k]
            after, res, extra = _apply_op(W, np, sympy, objs[k], op, exact, ctx)
            new_idx = None
            r = next((j for j, o in enumerate(objs) if o is after), None)
            if r is None:
                objs.append(after)
                r = new_idx = len(objs) - 1
                if op["op"] == "clone":
                    family.append(ctx["held_family"][-1] if op["how"] == "held" and ctx["held"] else
                                  (0 if op["how"] == "source" and ctx["source"] is not None else family[k]))
                else:
                    family.append(max(family) + 1)
            # what every object holds BEFORE anything is read out of it, then the read-outs, then the full snapshots
            pre = [_raw(np, _storage(o_)) if isinstance(_storage(o_), np.ndarray) else None for o_ in objs]
            probs = _probs(objs[r], np)
            probs_all = [probs if j == r else _probs(o_, np) for j, o_ in enumerate(objs)]
            snaps = [_snap(o, np, sympy) for o in objs]
            readout_intact = [p_ is None or p_ == sn_["exact"] for p_, sn_ in zip(pre, snaps)]
            # `==` against a fresh object made from a private copy of what the object held after the previous step
            eq_prev = []
            for j_ in range(n_before):
                if saved.get(j_) is None:
                    eq_prev.append(None)
                    continue
                try:
                    eq_prev.append(bool(objs[j_] == W.Wavefunction(saved[j_].copy())))
                except Exception as e:  # noqa: BLE001 – judged by the oracle
                    eq_prev.append("raised " + repr(e)[:60])
            remember()
            step = {"out": res, "target": k, "result": r, "new": new_idx, "snaps": snaps,
                    "snap": snaps[r], "probs": probs, "probs_all": probs_all, "readout_intact": readout_intact,
                    "eq_prev": eq_prev, "family": list(family),
                    "shared": [bool(sh_ and family[j_] == family[k]) for j_, sh_ in enumerate(shared)],
                    "shared_any": shared, "cells": cells, **extra}
            if watch:
                step["arrays"] = [_raw(np, a_) for a_ in arrays()]
                step["arr_shared"] = arr_shared
                step["arr_is_matrix"] = [not isinstance(a_, np.ndarray) for a_ in arrays()]
            out["steps"].append(step)
        _SEEN_OUTCOMES[common.canon(c)] = (any(s_["out"] == "ok" for s_ in out["steps"]),
                                           any(s_["out"] != "ok" for s_ in out["steps"]))
        return out
    if k == "expr":
        try:
            wf = W.Wavefunction([sympy.sympify(s) for s in c["vec"]])
        except ValueError:
            return {"init": "err:value"}
        out = {"init": {"exact": _snap(wf, np, sympy)["exact"]}, "steps": []}
        for b in c["binds"]:
            m = {sympy.Symbol(nm): sympy.sympify(v) for nm, v in b.items()}
            before = _entries_sympy(wf, np, sympy)
            try:
                new = wf.bind(m)
                res = "ok"
            except ValueError:
                new, res = wf, "err:value"
            after_old = _entries_sympy(wf, np, sympy)
            ents = _entries_sympy(new, np, sympy)
            want = [x.subs(m, simultaneous=True) for x in before]
            nums = [complex(x) for x in ents if not x.free_symbols]
            out["steps"].append({
                "out": res, "orig_intact": [sympy.srepr(x) for x in before] == [sympy.srepr(x) for x in after_old],
                "n": len(new), "all_numeric": len(nums) == len(ents),
                "numsq": float(sum(abs(z) ** 2 for z in nums)),
                "would_numsq": float(sum(abs(complex(x)) ** 2 for x in want if not x.free_symbols)),
                "would_all_numeric": all(not x.free_symbols for x in want),
                "matches_subs": res != "ok" or all(
                    abs(complex(sympy.N(a - b2))) < 1e-9 if not (a - b2).free_symbols else sympy.simplify(a - b2) == 0
                    for a, b2 in zip(ents, want))})
            wf = new
        return out
    if k == "dicke":
        import warnings

        def build():
            with warnings.catch_warnings():
                warnings.simplefilter("ignore")
                n_arg, k_arg = c["n"], c["k"]
                nty = c.get("n_ty")
                if nty in ("i64", "i32", "u8", "i8", "intp"):
                    n_arg = {"i64": np.int64, "i32": np.int32, "u8": np.uint8, "i8": np.int8, "intp": np.intp}[nty](n_arg)
                elif nty == "Fraction":
                    n_arg = Fraction(n_arg)
                elif nty == "Integer":
                    n_arg = sympy.Integer(n_arg)
                elif nty == "bool" and n_arg in (0, 1):
                    n_arg = bool(n_arg)
                if c.get("k_ty") == "bool" and k_arg in (0, 1):
                    k_arg = bool(k_arg)
                return W.Wavefunction.dicke_state(n_arg, k_arg)
        try:
            wf = _with_timeout(build)
        except ValueError as e:
            return {"err": "err:value", "msg": str(e)[:60]}
        if isinstance(wf, dict):
            return wf
        amps = np.asarray(wf.amplitudes).reshape(-1)
        res = {"n": len(wf), "support": [int(i) for i in np.nonzero(amps)[0]],
               "probs_support": [float(abs(amps[i]) ** 2) for i in np.nonzero(amps)[0]],
               "probs_api": [float(x) for x in np.asarray(wf.get_probabilities()).reshape(-1)[np.nonzero(amps)[0]]],
               "total": float(np.sum(np.abs(amps) ** 2))}
        # history: an accepted, norm-preserving assignment on the returned state, then the same constructor call
        # again – the constructor must still give the Dicke state (results are values, not a shared object)
        if len(wf) >= 2:
            try:
                rolled = np.roll(amps.copy(), 1)
                wf[:] = rolled
                again = _with_timeout(build)
                if not isinstance(again, dict):
                    a2 = np.asarray(again.amplitudes).reshape(-1)
                    res["again_support"] = [int(i) for i in np.nonzero(a2)[0]]
            except Exception as e:  # noqa: BLE001 – recorded, judged by the oracle
                res["again_error"] = repr(e)[:100]
        return res
    if k == "gosper":
        if not hasattr(W, "_get_next_number_with_same_hamming_weight") or not hasattr(W, "_most_significant_set_bit"):
            # the private helpers are not part of the property: their absence breaks the correspondence, it is not a failing input
            return {"helper_missing": True}
        nxt = W._get_next_number_with_same_hamming_weight(c["v"])
        return {"next": int(nxt), "msb": int(W._most_significant_set_bit(int(nxt))), "lowbit": c["v"] & -c["v"]}
    if k == "flip":
        n = c["n"]
        how = c.get("as", "list")
        first = list(range(n))
        if how == "tuple":
            first = tuple(first)
        elif how == "ndarray":
            first = np.arange(n)
        elif how == "col":
            first = np.arange(n).reshape(n, 1)
        elif how == "strided":
            first = np.repeat(np.arange(n), 2)[::2]
        elif how == "complex":
            first = [complex(i, -i) for i in range(n)]
        elif how in ("f32", "f64", "u8", "i8"):
            first = np.arange(n).astype({"f32": np.float32, "f64": np.float64, "u8": np.uint8, "i8": np.int8}[how])
        elif how == "c64":
            first = np.array([complex(i, -i) for i in range(n)], dtype=np.complex64)
        elif how == "Fraction":
            first = [Fraction(i) for i in range(n)]
        elif how == "Integer":
            first = tuple(sympy.Integer(i) for i in range(n))
        elif how == "range":
            first = range(n)
        try:
            a = W.flip_amplitudes(first)
        except (TypeError, ValueError, IndexError) as e:
            return {"err": _err(e)}
        raw = a
        flat = np.asarray(a).reshape(-1)
        if how in ("complex", "c64") and any(complex(x).imag != -complex(x).real for x in flat):
            return {"res": ["imaginary parts do not follow the real parts"]}
        a = [int(complex(x).real) for x in flat]
        res = {"res": a}
        if len(a) == n:
            res["twice"] = [int(x) for x in W.flip_amplitudes(a)]
        res["first_arg_intact"] = [int(complex(x).real) for x in np.asarray(first).reshape(-1)] == list(range(n))
        # results are values / arguments are not modified: scribble over the returned array, call again on an ndarray
        try:
            if isinstance(raw, np.ndarray) and raw.flags.writeable:
                raw[...] = 113 if raw.dtype.kind in "ub" else -1
            arg = np.arange(n)
            again = W.flip_amplitudes(arg)
            res["again"] = [int(x) for x in again]
            res["arg_intact"] = [int(x) for x in arg] == list(range(n))
        except Exception as e:  # noqa: BLE001 – judged by the oracle
            res["again_error"] = repr(e)[:100]
        return res
    if k == "load":
        import json
        def num(x):
            f = unrat(x)
            return int(f) if c.get("json_ints") and Fraction(f).denominator == 1 else float(f)
        d = {"real": [num(x) for x in c["real"]]}
        if c["imag"] is not None:
            d["imag"] = [num(x) for x in c["imag"]]
        fd, path = tempfile.mkstemp(suffix=".json", prefix="c12_")
        os.close(fd)
        fd2, path2 = tempfile.mkstemp(suffix=".json", prefix="c12_")
        os.close(fd2)
        try:
            with open(path, "w") as f:
                json.dump({"amplitudes": d}, f)
            import pathlib
            other_sources = {}
            for label, opener in (("file object", lambda: open(path)), ("pathlib.Path", lambda: pathlib.Path(path))):
                try:
                    src = opener()
                    try:
                        other_sources[label] = _snap(W.load_wavefunction(src), np, sympy)
                    finally:
                        if hasattr(src, "close"):
                            src.close()
                except Exception as e:  # noqa: BLE001 – judged by the oracle
                    other_sources[label] = "raised " + type(e).__name__ + ": " + str(e)[:60]
            try:
                wf = W.load_wavefunction(path)
            except ValueError as e:
                return {"err": "err:value", "msg": str(e)[:60], "other_sources": other_sources}
            s1 = _snap(wf, np, sympy)
            W.save_wavefunction(wf, pathlib.Path(path2) if len(c["real"]) % 2 else path2)
            saved_intact = _snap(wf, np, sympy)["exact"] == s1["exact"]
            try:
                wf2 = W.load_wavefunction(path2)
            except ValueError as e:
                return {"snap": s1, "reload_error": str(e)[:80]}
            s2 = _snap(wf2, np, sympy)
            res = {"snap": s1, "again": s2, "saved_intact": saved_intact, "other_sources": other_sources}
            # two loads of one file are two objects: an accepted assignment on one must not reach the other
            try:
                wf3 = W.load_wavefunction(path2)
                wf2[:] = np.roll(np.asarray(wf2.amplitudes).reshape(-1).copy(), 1)
                res["sibling"] = _snap(wf3, np, sympy)["exact"]
                res["source_after"] = _snap(wf, np, sympy)["exact"]
            except Exception as e:  # noqa: BLE001 – judged by the oracle
                res["sibling_error"] = repr(e)[:100]
            return res
        finally:
            os.unlink(path)
            os.unlink(path2)
    raise AssertionError("unknown kind")


# ------------------------------------------------------------------ model requests / comparison
def _strip_on(op):
    return {kk: v for kk, v in op.items() if kk not in ("on", "np", "vty", "ity")}


def _lineages(c, out):
    """per live object: the indices of the operations that made its value (the operations on its ancestors before it
    was produced, the producing operation, the operations on itself).  The model follows one object at a time."""
    if not isinstance(out, dict) or "steps" not in out:
        return [[t for t, o_ in enumerate(c["ops"]) if o_["op"] not in ("clone", "hold")]]
    lin = {0: []}
    for t, st in enumerate(out["steps"]):
        k = st["target"]
        what = c["ops"][t]["op"]
        if what == "hold":
            continue
        if what == "clone":
            # the model has values, not storage: a clone starts with the history that made its source's value
            if st["new"] is not None:
                src = k
                if c["ops"][t]["how"] in ("source", "held"):
                    # made from an array the caller holds: the values are those of whichever object holds the same now
                    sn = st["snaps"][st["new"]]
                    src = next((j for j in sorted(lin) if st["snaps"][j]["exact"] == sn["exact"]
                                and st["snaps"][j]["kind"] == sn["kind"] and lin[j] is not None), None)
                lin[st["new"]] = list(lin[src]) if src is not None and lin[src] is not None else None
            continue
        if lin[k] is None:
            if st["new"] is not None:
                lin[st["new"]] = None
            continue
        if st["new"] is not None:
            lin[st["new"]] = lin[k] + [t]
        else:
            lin[k] = lin[k] + [t]
            # the shared cell, as measured on the implementation: an accepted assignment is also an operation on every
            # object that is the same cells as the target and now shows the target's new values
            if what in ("set", "slice") and st["out"] == "ok":
                for j, same in enumerate(st.get("cells", [])):
                    if j != k and same and lin.get(j) is not None and st["snaps"][j]["exact"] == st["snaps"][k]["exact"] \
                            and st["snaps"][j]["kind"] == st["snaps"][k]["kind"]:
                        lin[j] = lin[j] + [t]
    return [lin[j] for j in range(len(lin))]


def _model_free(c, out):
    """histories the value model cannot follow: a clone that is the reverse / another shape / a part of its source, or
    whose representation differs from its source's (symbol-free Matrix -> (n,1) array)"""
    if not isinstance(out, dict) or "steps" not in out:
        return False
    for op, st in zip(c["ops"], out["steps"]):
        if op["op"] != "clone":
            continue
        if op["how"] in CLONE_OTHER:
            return True
        if st["new"] is not None and st["snaps"][st["new"]]["kind"] != st["snaps"][st["target"]]["kind"]:
            return True
        if st["out"] != "ok":
            return True
    return any(l_ is None for l_ in _lineages(c, out))


def requests(c, out):
    k = c["kind"]
    if k == "ops":
        if _model_free(c, out):
            return []
        lins = _lineages(c, out)
        col = c.get("container") == "matrix"
        return [("run", {"vec": c["vec"], "col": col, "ops": [_strip_on(c["ops"][t]) for t in lin]}) for lin in lins]
    if k == "dicke":
        return [] if c.get("wide") else [("dicke", {"n": c["n"], "k": c["k"]})]
    if k == "gosper":
        return [("gosper", {"v": c["v"]})]
    if k == "flip":
        return [("ordering", {"n": c["n"]})]
    if k == "load":
        return [("load", {"real": c["real"], "imag": c["imag"], "col": False})]
    return []


TOL = 1e-9


def _close(a, b):
    return abs(a - b) <= TOL


def _cmp_entry(m, s):
    """model entry JSON vs snapshot entry; returns message or None"""
    if isinstance(m, list):
        re_, im_ = float(unrat(m[0])), float(unrat(m[1]))
        if s[0] != "num":
            return f"model number {m}, implementation {s}"
        if not (_close(re_, s[1]) and _close(im_, s[2])):
            return f"model {re_}+{im_}j, implementation {s[1]}+{s[2]}j"
        return None
    if s[0] != "lin":
        return f"model symbolic {m}, implementation {s}"
    cr, ci = float(unrat(m["c"][0])), float(unrat(m["c"][1]))
    if not (_close(cr, s[1]) and _close(ci, s[2])):
        return f"constant parts differ: model {m['c']}, implementation {s[1:3]}"
    mt = sorted((nm, float(unrat(q[0])), float(unrat(q[1]))) for nm, q in m["t"])
    st = sorted((nm, a, b) for nm, a, b in s[3])
    if [t[0] for t in mt] != [t[0] for t in st]:
        return f"symbols differ: model {[t[0] for t in mt]}, implementation {[t[0] for t in st]}"
    for a, b in zip(mt, st):
        if not (_close(a[1], b[1]) and _close(a[2], b[2])):
            return f"coefficient of {a[0]}: model {a[1:]}, implementation {b[1:]}"
    return None


def _cmp_state(minfo, istate):
    ms, snap = minfo["store"], istate["snap"]
    if ms["kind"] != snap["kind"]:
        return f"representation: model {ms['kind']}, implementation {snap['kind']}"
    if len(ms["v"]) != len(snap["v"]):
        return f"length: model {len(ms['v'])}, implementation {len(snap['v'])}"
    for i, (m, s) in enumerate(zip(ms["v"], snap["v"])):
        msg = _cmp_entry(m, s)
        if msg:
            return f"entry {i}: {msg}"
    mp, ip = minfo["probs"], istate["probs"]
    if (mp is None) != (ip is None):
        return f"probabilities: model {mp}, implementation {ip}"
    if mp is not None:
        for i, (a, b) in enumerate(zip(mp, ip)):
            if not _close(float(unrat(a)), b):
                return f"probability {i}: model {a}, implementation {b}"
    return None


SKIPPED = {"float_boundary": 0}


def _boundary(c, minfo):
    """model accepted a MIXED state whose numeric part is exactly 1 and non-dyadic numbers are involved:
    the implementation's strict float test may reject it"""
    if minfo.get("allnum") is not False or unrat(minfo.get("numsq", 0)) != 1:
        return False
    return not all(_dyadic(x) for x in _case_numbers({"v": c["vec"], "o": c["ops"]}))


def compare(c, out, resp):
    r = resp[0]
    if isinstance(r, dict) and "driver_error" in r:
        return "driver error: " + r["driver_error"]
    k = c["kind"]
    if k == "ops":
        if "init" not in out:
            return f"implementation raised {out}"
        mi, ii = r["init"], out["init"]
        if isinstance(mi, str) or isinstance(ii, str):
            if mi != ii:
                if isinstance(ii, str) and isinstance(mi, dict) and _boundary(c, mi):
                    SKIPPED["float_boundary"] += 1
                    return None
                return f"constructor: model {mi if isinstance(mi, str) else 'ok'}, implementation {ii if isinstance(ii, str) else 'ok'}"
            return None
        msg = _cmp_state(mi, ii)
        if msg:
            return "after construction: " + msg
        lins = _lineages(c, out)
        if len(lins) != len(resp):
            return f"{len(lins)} objects, {len(resp)} model runs"
        for j, (lin, rj) in enumerate(zip(lins, resp)):
            if isinstance(rj, dict) and "driver_error" in rj:
                return "driver error: " + rj["driver_error"]
            if isinstance(rj.get("init"), str) or len(rj["steps"]) != len(lin):
                return f"object {j}: model run has no/other steps"
            for ms, t in zip(rj["steps"], lin):
                is_ = out["steps"][t]
                if ms["out"] != is_["out"]:
                    if is_["out"] == "err:value" and ms["out"] == "ok" and _boundary(c, ms):
                        SKIPPED["float_boundary"] += 1
                        return None
                    return f"op {t} {c['ops'][t]}: model {ms['out']}, implementation {is_['out']} ({is_.get('msg', '')})"
                msg = _cmp_state(ms, is_)
                if msg:
                    return f"after op {t} {c['ops'][t]} ({ms['out']}) [object {is_['result']}]: {msg}"
            # what object j holds at the END of the whole history (operations on other objects must not have reached it)
            if out["steps"]:
                last = rj["steps"][-1] if rj["steps"] else mi
                msg = _cmp_state({"store": last["store"], "probs": None}, {"snap": out["steps"][-1]["snaps"][j], "probs": None})
                if msg:
                    return f"object {j} at the end of the history: {msg}"
        return None
    if k == "dicke":
        if "timeout" in out:
            return f"dicke_state({c['n']},{c['k']}) did not return"
        if isinstance(r, str) or "err" in out:
            if r != out.get("err"):
                return f"dicke_state({c['n']},{c['k']}): model {r if isinstance(r, str) else 'ok'}, implementation {out}"
            return None
        if r["indices"] != out["support"] and sorted(r["indices"]) != out["support"]:
            return f"dicke support: model {r['indices']}, implementation {out['support']}"
        probs = [float(unrat(x)) for x in r["probs"]]
        if len(probs) != out["n"]:
            return f"dicke length: model {len(probs)}, implementation {out['n']}"
        for i, p in zip(out["support"], out["probs_support"]):
            if not _close(probs[i], p):
                return f"dicke probability at {i}: model {probs[i]}, implementation {p}"
        return None
    if k == "gosper":
        if out.get("helper_missing"):
            return "the helpers _get_next_number_with_same_hamming_weight / _most_significant_set_bit are gone from wavefunction.py (the model's nextSameWeight / msb mirror them)"
        if r["next"] != [out["next"]] or r["msb"] != [out["msb"]] or r["lowbit"] != [out["lowbit"]]:
            return f"next-same-weight({c['v']}): model {r}, implementation {out}"
        return None
    if k == "flip":
        got = out.get("err") or out.get("res")
        if r != got:
            return f"flip_amplitudes(range({c['n']})): model {r}, implementation {got}"
        return None
    if k == "load":
        if isinstance(r, str) or "err" in out:
            if r != out.get("err"):
                return f"load_wavefunction: model {r if isinstance(r, str) else 'ok'}, implementation {out}"
            return None
        return _cmp_state({"store": r, "probs": None}, {"snap": out["snap"], "probs": None})
    return None


# ------------------------------------------------------------------ the property oracle (implementation only)
# "squared magnitudes sum to 1" is read with the tolerance the library itself uses when it creates an object
# (np.isclose(s, 1.0): |s - 1| <= 1e-8 + 1e-5); 1e-9 on top for the order of summation.  Every way of obtaining an
# object ends in that test, so an object further away than this is one the constructor itself refuses.
NORM_TOL = 1e-8 + 1e-5 + 1e-9


def _snap_numsq(snap):
    nums = [e for e in snap["v"] if e[0] == "num"]
    return sum(e[1] * e[1] + e[2] * e[2] for e in nums), len(nums) == len(snap["v"])


def _inv_fail(snap):
    n = snap["n"]
    if n <= 0 or n & (n - 1) or len(snap["v"]) != n:
        return "length %d (entries %d) is not a power of two" % (n, len(snap["v"]))
    s, allnum = _snap_numsq(snap)
    if allnum and abs(s - 1) > NORM_TOL:
        return "squared magnitudes sum to %r, not 1" % s
    if not allnum and s > 1 + 1e-9:
        return "numeric entries already sum to %r > 1" % s
    return None


def _bitrev(i, nb):
    return int(format(i, "0%db" % nb)[::-1], 2) if nb else 0


def _same_entry(a, b, tol=1e-12):
    if a[0] != b[0]:
        return False
    if a[0] == "num":
        return abs(a[1] - b[1]) <= tol and abs(a[2] - b[2]) <= tol
    if a[0] == "lin":
        if abs(a[1] - b[1]) > tol or abs(a[2] - b[2]) > tol or len(a[3]) != len(b[3]):
            return False
        return all(x[0] == y[0] and abs(x[1] - y[1]) <= tol and abs(x[2] - y[2]) <= tol for x, y in zip(a[3], b[3]))
    return a == b


def _val_entry(e):
    """the JSON value of an op as a snapshot-style entry (floats)"""
    if _is_num(e):
        return ["num", float(unrat(e[0])), float(unrat(e[1]))]
    ts = sorted([nm, float(unrat(q[0])), float(unrat(q[1]))] for nm, q in e["t"])
    if not ts:
        return ["num", float(unrat(e["c"][0])), float(unrat(e["c"][1]))]
    return ["lin", float(unrat(e["c"][0])), float(unrat(e["c"][1])), ts]


def _subst_entry(entry, m):
    """substitute numbers/symbols for symbols in a snapshot linear entry (floats; independent of the Lean model)"""
    if entry[0] != "lin":
        return entry
    c = complex(entry[1], entry[2])
    acc = {}
    for nm, a, b in entry[3]:
        coef = complex(a, b)
        if nm in m:
            v = m[nm]
            if v[0] == "num":
                c += coef * complex(v[1], v[2])
                continue
            c += coef * complex(v[1], v[2])
            for nm2, a2, b2 in v[3]:
                acc[nm2] = acc.get(nm2, 0) + coef * complex(a2, b2)
        else:
            acc[nm] = acc.get(nm, 0) + coef
    ts = sorted([nm, z.real, z.imag] for nm, z in acc.items() if abs(z) > 1e-12)
    if not ts:
        return ["num", c.real, c.imag]
    return ["lin", c.real, c.imag, ts]


def oracle(c, out):
    k = c["kind"]
    if isinstance(out, dict) and "exc" in out:
        return ("unexpected-exception", f"the implementation raised {out['exc']}: {out.get('msg')}")
    if k == "ops":
        init = out["init"]
        if isinstance(init, str):
            return None  # creation refused: nothing exists that could be unnormalised
        prev = init["snap"]
        msg = _inv_fail(prev)
        if msg:
            return ("ctor-accepts-invalid", f"Wavefunction({c['vec']}) was created although {msg}")
        pf = _probs_fail(prev, init["probs"])
        if pf:
            return ("probabilities", f"Wavefunction({c['vec']}): {pf}")
        held = [prev]  # what every live object holds (results are values: only the object operated on may change)
        arrays = init.get("arrays", [])  # what the caller's own arrays hold (the constructor argument, held `amplitudes`)
        for t, (op, st) in enumerate(zip(c["ops"], out["steps"])):
            k, r, snaps = st["target"], st["result"], st["snaps"]
            prev, snap = held[k], snaps[r]
            where = f"op {t} {op} on object {k} = {_show(prev)}"
            mat_slice = prev["kind"] == "mat" and op["op"] == "slice"
            assign = op["op"] in ("set", "slice")
            # the caller's arrays: a rejected operation leaves them exactly as they were; an accepted assignment may show
            # in those that (measured) share the target's buffer; nothing else writes to them
            now = st.get("arrays", [])
            # Only the array the CALLER PASSED IN (index 0 when there is one) is judged: a handle the library handed out
            # earlier (`wf.amplitudes` held by the caller) is not a wavefunction object and the property says nothing
            # about it (a Matrix handed out before a rejected assignment keeps the rejected value on the unchanged
            # library, while the object itself is exactly as it was) - judging it would demand more than C12 states.
            n_src = 1 if init.get("has_source") else 0
            for i_, (was, is_now) in enumerate(zip(arrays, now)):
                if i_ >= n_src:
                    continue
                if was != is_now and not (st["out"] == "ok" and assign and st["arr_shared"][i_]):
                    if st["out"] != "ok" and assign and st["arr_is_matrix"][i_] and st["arr_shared"][i_]:
                        return (SIG_HELD_MATRIX,
                                f"{where} raised {st['out']} and the object is as it was, but the sympy Matrix its `amplitudes` "
                                f"handed out earlier keeps the rejected value: {was} -> {is_now}")
                    return ("caller-array-modified",
                            f"{where} ({st['out']}) changed array {i_} held by the caller (the constructor argument / a held "
                            f"wf.amplitudes) from {was} to {is_now}")
            arrays_before, arrays = arrays, now
            if st["out"] != "ok":
                if snap["exact"] != prev["exact"] or snap["kind"] != prev["kind"]:
                    sig = SIG_MATRIX_SLICE if mat_slice else "rejected-op-modified"
                    return (sig, f"{where} raised {st['out']} but left the object as {_show(snap)}")
                if op["op"] in ("flip", "reload") and prev["kind"] in ("arr1", "arr2"):
                    # a valid numeric object can always be flipped, and saved and loaded again
                    return ("saveload-raise" if op["op"] == "reload" else "flip-raise",
                            f"{where} raised {st['out']} ({st.get('msg', '')})")
            msg = _inv_fail(snap)
            if msg:
                sig = SIG_MATRIX_SLICE if mat_slice else "op-breaks-normalisation"
                return (sig, f"after {where} ({st['out']}): {msg}")
            if st.get("orig_intact") is False:
                return ("bind-modifies-original", f"{where}: the original object was modified")
            if st["out"] == "ok" and op["op"] == "clone":
                msg = _clone_fail(op, prev, snap, arrays_before, init.get("has_source", False))
                if msg:
                    return ("clone-wrong-contents", f"{where}: {msg}; got {_show(snap)}")
            elif st["out"] == "ok" and not mat_slice:
                msg = _accepted_fail(op, prev, snap)
                if msg:
                    return ("accepted-op-wrong-contents", f"{where}: {msg}; got {_show(snap)}")
            pf = _probs_fail(snap, st["probs"])
            if pf:
                return ("probabilities", f"after {where}: {pf}")
            # every OTHER live object (the receiver of bind / flip / save+load / clone included) holds exactly what it
            # held – except that an ACCEPTED assignment may show in an object of the target's family (made by the
            # constructor from the other's amplitudes) that was measured to share the target's storage; such an object
            # then holds its old values or, if it is the same cells, the target's new ones, and is still normalised
            for j, sj in enumerate(snaps):
                if j == r or j >= len(held):
                    continue
                may_show = st["out"] == "ok" and assign and j < len(st.get("shared", [])) and st["shared"][j]
                msg = _inv_fail(sj)
                if msg:
                    if may_show and sj["n"] != snap["n"]:
                        return (SIG_PARTIAL_VIEW, f"after {where} (ok): object {j}, made from a PART of the amplitudes "
                                                  f"object {k} handed out and sharing its storage, = {_show(sj)}: {msg}")
                    sig = "shared-sibling-unnormalised" if may_show else "other-object-modified"
                    return (sig, f"after {where} ({st['out']}): object {j} = {_show(sj)} (held {_show(held[j])}): {msg}")
                changed = sj["exact"] != held[j]["exact"] or sj["kind"] != held[j]["kind"]
                if changed and may_show:
                    if st["cells"][j] and sj["exact"] != snap["exact"]:
                        return ("shared-sibling-inconsistent",
                                f"{where} (ok): object {j} is the same cells as object {k} but holds {_show(sj)}, "
                                f"object {k} holds {_show(snap)}")
                    continue
                if changed:
                    sig = "receiver-modified" if j == k else "other-object-modified"
                    return (sig, f"{where} ({st['out']}) changed object {j} (produced earlier in this history, not operated "
                                 f"on) from {_show(held[j])} to {_show(sj)}")
                eq = st.get("eq_prev", [])
                if j < len(eq) and eq[j] not in (None, True) and held[j]["kind"] in ("arr1", "arr2"):
                    return ("other-object-modified", f"after {where} ({st['out']}): object {j} no longer compares equal (==) "
                                                     f"to a wavefunction made from a copy of what it held, {_show(held[j])}: {eq[j]}")
            # the same for the target of a rejected operation, through the public comparison
            eq = st.get("eq_prev", [])
            if st["out"] != "ok" and k < len(eq) and eq[k] not in (None, True) and prev["kind"] in ("arr1", "arr2"):
                return ("rejected-op-modified", f"{where} raised {st['out']} but the object no longer compares equal (==) to a "
                                                f"wavefunction made from a copy of what it held: {eq[k]}")
            # every live object: reading the probabilities changes nothing, and they are the squared magnitudes summing to 1
            for j, sj in enumerate(snaps):
                if st.get("readout_intact") and not st["readout_intact"][j]:
                    return ("readout-modifies-object", f"after {where}: reading get_probabilities() / amplitudes of object {j} "
                                                       f"changed what it holds to {_show(sj)}")
                if j != r and "probs_all" in st:
                    pf = _probs_fail(sj, st["probs_all"][j])
                    if pf:
                        return ("probabilities", f"after {where}: object {j}: {pf}")
            held = list(snaps)
        return None
    if k == "expr":
        if isinstance(out["init"], str):
            return None
        for b, st in zip(c["binds"], out["steps"]):
            if not st["orig_intact"]:
                return ("bind-modifies-original", f"bind({b}) on {c['vec']} modified the original object")
            n = st["n"]
            if n <= 0 or n & (n - 1):
                return ("op-breaks-normalisation", f"bind({b}) on {c['vec']}: length {n}")
            if st["out"] == "ok":
                if st["all_numeric"] and abs(st["numsq"] - 1) > NORM_TOL:
                    return ("op-breaks-normalisation", f"bind({b}) on {c['vec']} accepted, squared magnitudes sum to {st['numsq']}")
                if not st["all_numeric"] and st["numsq"] > 1 + 1e-9:
                    return ("op-breaks-normalisation", f"bind({b}) on {c['vec']} accepted, numeric part sums to {st['numsq']}")
                if not st["matches_subs"]:
                    return ("accepted-op-wrong-contents", f"bind({b}) on {c['vec']} is not the substitution")
        return None
    if k == "dicke":
        n, kk = c["n"], c["k"]
        valid = n >= 1 and 0 <= kk <= n
        if not valid:
            return None if out.get("err") else ("dicke-accepts-invalid", f"dicke_state({n},{kk}) returned {out}")
        if "timeout" in out:
            return ("dicke-nontermination", f"dicke_state({n},{kk}) did not return within {out['timeout']} s")
        if "err" in out:
            return ("dicke-raise", f"dicke_state({n},{kk}) raised {out}")
        want = [i for i in range(2 ** n) if bin(i).count("1") == kk]
        if out["n"] != 2 ** n:
            return ("dicke-support", f"dicke_state({n},{kk}) has {out['n']} amplitudes")
        if out["support"] != want:
            missing = sorted(set(want) - set(out["support"]))[:5]
            extra = sorted(set(out["support"]) - set(want))[:5]
            return ("dicke-support", f"dicke_state({n},{kk}): support misses {missing}, has extra {extra}")
        p = 1 / math.comb(n, kk)
        for lst in (out["probs_support"], out["probs_api"]):
            if any(abs(x - p) > 1e-9 for x in lst):
                return ("dicke-probability", f"dicke_state({n},{kk}): probabilities {lst[:4]} differ from 1/C(n,k) = {p}")
        if abs(out["total"] - 1) > 1e-9:
            return ("dicke-probability", f"dicke_state({n},{kk}): total probability {out['total']}")
        if "again_support" in out and out["again_support"] != want:
            return ("dicke-shared-state", f"dicke_state({n},{kk}) called again after an accepted assignment on the first "
                                          f"result has support {out['again_support'][:6]}, expected {want[:6]}")
        return None
    if k == "gosper":
        if out.get("helper_missing"):
            return None   # (not a sentence of the property; the correspondence reports it)
        v = c["v"]
        s = "0" + bin(v)[2:]
        i = s.rfind("01")
        tail = s[i + 2:]
        want = int(s[:i] + "10" + "".join(sorted(tail)), 2)
        if out["next"] != want:
            return ("next-same-weight", f"next integer after {v} with the same Hamming weight is {want}, got {out['next']}")
        return None
    if k == "flip":
        n = c["n"]
        if n & (n - 1):
            return None  # not a wavefunction length
        if "res" not in out:
            return ("flip-raise", f"flip_amplitudes raised on a vector of length {n}")
        nb = n.bit_length() - 1
        want = [_bitrev(i, nb) for i in range(n)]
        if out["res"] != want:
            return ("flip-not-bitreversal", f"flip_amplitudes(range({n})) = {out['res'][:8]}…, bit reversal is {want[:8]}…")
        if out.get("twice") != list(range(n)):
            return ("flip-not-involutive", f"flipping range({n}) twice gives {out.get('twice', [])[:8]}…")
        if "again_error" in out:
            return ("flip-raise", f"flip_amplitudes(np.arange({n})) after an earlier call raised {out['again_error']}")
        if out.get("again") != want:
            return ("flip-shared-result", f"flip_amplitudes(range({n})) called again after its first result was overwritten "
                                          f"gives {out.get('again', [])[:8]}…, bit reversal is {want[:8]}…")
        if out.get("arg_intact") is False or out.get("first_arg_intact") is False:
            return ("flip-modifies-argument", f"flip_amplitudes modified its argument ({c.get('as', 'list')} of range({n}))")
        return None
    if k == "load":
        # the file's name, an open file object and a pathlib.Path are the same source
        for label, got in sorted(out.get("other_sources", {}).items()):
            if isinstance(got, dict):
                msg = _inv_fail(got)
                if msg:
                    return ("ctor-accepts-invalid", f"load_wavefunction({label}) created an object although {msg}")
        if "err" in out:
            return None
        msg = _inv_fail(out["snap"])
        if msg:
            return ("ctor-accepts-invalid", f"load_wavefunction created an object although {msg}")
        re_ = [float(unrat(x)) for x in c["real"]]
        im_ = [float(unrat(x)) for x in c["imag"]] if c["imag"] else [0.0] * len(re_)
        if len(im_) == len(re_):
            want = [repr(complex(a, b)) for a, b in zip(re_, im_)]
            if out["snap"]["exact"] != want:
                return ("saveload-differs", f"loaded amplitudes {out['snap']['exact']} differ from the file contents {want}")
        for label, got in sorted(out.get("other_sources", {}).items()):
            shown = got["exact"] if isinstance(got, dict) else got
            if shown != out["snap"]["exact"]:
                return ("saveload-differs", f"the same file loaded through a {label} gives {shown}, through its name "
                                            f"{out['snap']['exact']}")
        if "reload_error" in out:
            return ("saveload-raise", f"saving the loaded wavefunction {out['snap']['exact']} and loading it again raised "
                                      f"ValueError: {out['reload_error']}")
        if out["again"]["exact"] != out["snap"]["exact"]:
            return ("saveload-differs", f"save+load changed the amplitudes: {out['snap']['exact']} -> {out['again']['exact']}")
        if out.get("saved_intact") is False:
            return ("save-modifies-object", "save_wavefunction changed the object it saved")
        if "sibling_error" in out:
            return ("saveload-raise", f"loading a saved file twice and permuting one copy raised {out['sibling_error']}")
        if out.get("sibling", out["snap"]["exact"]) != out["snap"]["exact"] or \
                out.get("source_after", out["snap"]["exact"]) != out["snap"]["exact"]:
            return ("other-object-modified", f"an accepted assignment on one loaded copy changed another object: "
                                             f"{out['snap']['exact']} -> {out.get('sibling')} / {out.get('source_after')}")
        return None
    return None


def _show(snap):
    def one(e):
        if e[0] == "num":
            return "%g%+gj" % (e[1], e[2]) if e[2] else "%g" % e[1]
        if e[0] == "lin":
            return "+".join(["%g%+gj" % (e[1], e[2])] * bool(e[1] or e[2]) + ["(%g%+gj)*%s" % (a, b, nm) for nm, a, b in e[3]])
        return str(e[1])
    return snap["kind"] + "[" + ", ".join(one(e) for e in snap["v"]) + "]"


def _probs_fail(snap, probs):
    s, allnum = _snap_numsq(snap)
    if not allnum:
        return None
    api = snap.get("api")
    if api is not None:
        if isinstance(api, str) or len(api) != len(snap["v"]) or any(
                abs(a[0] - e[1]) > 1e-12 or abs(a[1] - e[2]) > 1e-12 for a, e in zip(api, snap["v"])):
            return f"wf.amplitudes shows {api} while the object holds {_show(snap)}"
    if probs is None or len(probs) != len(snap["v"]):
        return f"get_probabilities returned {probs} for {_show(snap)}"
    for e, p in zip(snap["v"], probs):
        if abs(p - (e[1] * e[1] + e[2] * e[2])) > 1e-12:
            return f"probability {p} is not the squared magnitude of {e[1:]}"
    if abs(sum(probs) - 1) > NORM_TOL:
        return f"probabilities sum to {sum(probs)}"
    return None


def _clone_fail(op, prev, snap, arrays_before, has_source):
    """Wavefunction(<what object k hands out / what the caller holds>) holds those values"""
    how = op["how"]
    expect = None
    if how == "source" and has_source:
        expect = arrays_before[0]
    elif how == "held" and len(arrays_before) > (1 if has_source else 0):
        expect = arrays_before[-1]
    if expect is not None:
        if snap["kind"] in ("arr1", "arr2") and snap["exact"] != expect:
            return f"the caller's array held {expect}"
        return None
    want = list(prev["v"])
    if prev["kind"] in ("arr1", "arr2") or any(e[0] != "num" for e in prev["v"]):
        # (a symbol-free sympy Matrix is handed over whole whatever the case asks for)
        n = len(want)
        if how == "reversed":
            want = want[::-1]
        elif how == "half_lo":
            want = want[: max(1, n // 2)]
        elif how == "half_hi":
            want = want[n // 2:]
    if len(want) != len(snap["v"]):
        return f"it should have {len(want)} entries"
    for i, (a, b) in enumerate(zip(want, snap["v"])):
        if not _same_entry(a, b, 1e-12):
            return f"entry {i} should be {a}"
    return None


def _accepted_fail(op, prev, snap):
    """what an accepted operation must have produced, from the op's own meaning"""
    n = prev["n"]
    if op["op"] == "hold":
        return None if snap["exact"] == prev["exact"] else "handing out the amplitudes changed the object"
    if len(snap["v"]) != n:
        return "length changed"
    if op["op"] == "set":
        i = op["i"] % n
        want = list(prev["v"])
        want[i] = _val_entry(op["val"])
    elif op["op"] == "slice":
        ps = list(range(*slice(op.get("start"), op.get("stop")).indices(n)))
        vals = [_val_entry(v) for v in op["vals"]] if "vals" in op else [_val_entry(op["val"])] * len(ps)
        if len(vals) == 1 and len(ps) != 1:
            vals = vals * len(ps)
        if len(vals) != len(ps):
            return "a slice assignment with mismatched lengths was accepted"
        want = list(prev["v"])
        for p, v in zip(ps, vals):
            want[p] = v
    elif op["op"] == "bind":
        m = {nm: _val_entry(v) for nm, v in op["map"]}
        want = [_subst_entry(e, m) for e in prev["v"]]
    elif op["op"] == "flip":
        nb = n.bit_length() - 1
        want = [prev["v"][_bitrev(i, nb)] for i in range(n)]
    elif op["op"] == "reload":
        if snap["exact"] != prev["exact"]:
            return "save+load changed the amplitudes"
        return None
    else:
        return None
    for i, (a, b) in enumerate(zip(want, snap["v"])):
        if not _same_entry(a, b, 1e-9):
            return f"entry {i} should be {a}"
    return None


def _clone_shared(o, st):
    """did the clone made in step st come out sharing storage with anything (seen in the NEXT step's measurement, or in
    this history's later steps)"""
    new = st["new"]
    for later in o["steps"]:
        sh = later.get("shared_any", [])
        if later is not st and len(sh) > new and (later["target"] == new and any(x for j, x in enumerate(sh) if j != new)
                                                  or later["target"] != new and sh[new]):
            return True
    return False


def distribution(cases, outs):
    ops = {}
    outcomes = {}
    kinds = {}
    hist_mixed = 0
    for c, o in zip(cases, outs):
        if c["kind"] != "ops" or not isinstance(o, dict) or "init" not in o:
            continue
        if isinstance(o["init"], str):
            outcomes["ctor:" + o["init"]] = outcomes.get("ctor:" + o["init"], 0) + 1
            continue
        outcomes["ctor:ok"] = outcomes.get("ctor:ok", 0) + 1
        seen = set()
        for op, st in zip(c["ops"], o["steps"]):
            ops[op["op"]] = ops.get(op["op"], 0) + 1
            key = op["op"] + ":" + st["out"]
            outcomes[key] = outcomes.get(key, 0) + 1
            kinds[st["snap"]["kind"]] = kinds.get(st["snap"]["kind"], 0) + 1
            seen.add(st["out"] == "ok")
        if seen == {True, False}:
            hist_mixed += 1
    objs_hist, earlier, trivial_binds = {}, 0, 0
    for c, o in zip(cases, outs):
        if c["kind"] != "ops" or not isinstance(o, dict) or not isinstance(o.get("init"), dict) or not o["steps"]:
            continue
        m = len(o["steps"][-1]["snaps"])
        objs_hist[m] = objs_hist.get(m, 0) + 1
        for op, st in zip(c["ops"], o["steps"]):
            if st["target"] != len(st["snaps"]) - 1 - (1 if st["new"] is not None else 0):
                earlier += 1
            if op["op"] == "bind":
                own = {nm for e in st["snaps"][st["target"]]["v"] if e[0] == "lin" for nm, _, _ in e[3]}
                if st["new"] is not None and not (own & {nm for nm, _ in op["map"]}):
                    trivial_binds += 1
    near_states = near_rejected = near_ctor_rejected = 0
    containers = {}
    for c, o in zip(cases, outs):
        if c["kind"] != "ops" or not isinstance(o, dict) or "init" not in o:
            continue
        containers[c.get("container", "list")] = containers.get(c.get("container", "list"), 0) + 1
        if isinstance(o["init"], str):
            nums = [_frac_pair(e) for e in c["vec"] if _is_num(e)]
            if len(c["vec"]) and not len(c["vec"]) & (len(c["vec"]) - 1) and abs(sum(_nsq(z) for z in nums) - 1) < Fraction(1, 1000):
                near_ctor_rejected += 1
            continue
        prev = o["init"]["snap"]
        for st in o["steps"]:
            sq, _all = _snap_numsq(st["snap"])
            if 1e-9 < abs(sq - 1) < 1e-3:
                if st["out"] == "ok":
                    near_states += 1
                else:
                    near_rejected += 1
    sharing = {"steps_with_a_sibling_sharing_the_targets_buffer": 0, "rejected_steps_with_such_a_sibling": 0,
               "accepted_assignments_showing_in_a_sibling": 0, "clones": {}, "held_arrays": 0, "histories_not_modelled": 0}
    for c, o in zip(cases, outs):
        if c["kind"] != "ops" or not isinstance(o, dict) or not isinstance(o.get("init"), dict):
            continue
        if any(op["op"] in ("clone", "hold") for op in c["ops"]) and _model_free(c, o):
            sharing["histories_not_modelled"] += 1
        prev_snaps = None
        for op, st in zip(c["ops"], o["steps"]):
            if op["op"] == "clone":
                key = op["how"] + (":shares-a-buffer-later" if st["new"] is not None and _clone_shared(o, st) else ":separate")
                sharing["clones"][key] = sharing["clones"].get(key, 0) + 1
            if op["op"] == "hold":
                sharing["held_arrays"] += 1
            sib = [j for j, sh in enumerate(st.get("shared", [])) if sh and j != st["target"]]
            if sib:
                sharing["steps_with_a_sibling_sharing_the_targets_buffer"] += 1
                if st["out"] != "ok":
                    sharing["rejected_steps_with_such_a_sibling"] += 1
                elif op["op"] in ("set", "slice") and prev_snaps is not None and any(
                        j < len(prev_snaps) and st["snaps"][j]["exact"] != prev_snaps[j]["exact"] for j in sib):
                    sharing["accepted_assignments_showing_in_a_sibling"] += 1
            prev_snaps = st["snaps"]
    types = {"constructor_entry_types": {}, "assigned_value_types": {}, "bind_value_types": {}, "index_types": {}, "typed_histories": 0,
             "typed_ops_rejected": 0, "typed_ops_accepted": 0, "typed_constructor_refusals": 0}
    for c, o in zip(cases, outs):
        if c["kind"] != "ops":
            continue
        is_typed = bool(c.get("ty")) or any(op.get("vty") or op.get("ity") for op in c["ops"])
        if not is_typed:
            continue
        types["typed_histories"] += 1
        if c.get("ty"):
            types["constructor_entry_types"][c["ty"]] = types["constructor_entry_types"].get(c["ty"], 0) + 1
            if isinstance(o, dict) and isinstance(o.get("init"), str):
                types["typed_constructor_refusals"] += 1
        steps = o.get("steps", []) if isinstance(o, dict) and isinstance(o.get("init"), dict) else []
        for j, op in enumerate(c["ops"]):
            if op.get("vty"):
                key = "bind_value_types" if op["op"] == "bind" else "assigned_value_types"
                types[key][op["vty"]] = types[key].get(op["vty"], 0) + 1
                if j < len(steps):
                    types["typed_ops_accepted" if steps[j]["out"] == "ok" else "typed_ops_rejected"] += 1
            if op.get("ity"):
                types["index_types"][op["ity"]] = types["index_types"].get(op["ity"], 0) + 1
    types["flip_argument_types"] = sorted({c.get("as", "list") for c in cases if c["kind"] == "flip"})
    types["dicke_qubit_count_types"] = sorted({c.get("n_ty", "int") for c in cases if c["kind"] == "dicke"})
    types["amplitude_files_with_integer_literals"] = sum(1 for c in cases if c["kind"] == "load" and c.get("json_ints"))
    return {"shared_storage": sharing, "number_types": types,
            "states_within_1e-3_of_unit_sum_but_not_exact_after_accepted_op": near_states,
            "ops_rejected_on_such_states": near_rejected, "constructor_refusals_within_1e-3_of_unit_sum": near_ctor_rejected,
            "constructor_argument_kinds": containers,
            "live_objects_per_history": {str(k_): v for k_, v in sorted(objs_hist.items())},
            "ops_on_an_earlier_object": earlier, "binds_with_empty_or_foreign_map_giving_a_new_object": trivial_binds,
            "op_kinds": ops, "op_outcomes": outcomes, "representation_after_op": kinds,
            "histories_with_accepted_and_rejected": hist_mixed,
            "lengths": sorted({len(c["vec"]) for c in cases if c["kind"] == "ops"}),
            "skipped_float_boundary_steps": SKIPPED["float_boundary"]}
