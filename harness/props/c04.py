"""C04 — every view of a simulated state agrees on which qubit is which."""
import math
from fractions import Fraction

from .. import circ, common
from ..common import rat, unrat

PROP = "C04"
RULE = ("seeded circuits (asymmetric product states by X / RY(rational angle) on random qubit subsets; random built-in "
        "gates incl. 2-qubit gates on gapped / descending qubits), explicit Gaussian-rational amplitude vectors, widths 1-5 "
        "(thorough 1-6), n_samples on both sides of 2^n, random Z-type / general Pauli operators; plus direct frequency "
        "dicts and probability vectors.  non-trivial: register width >= 2 and the outcome distribution (state / "
        "frequency dict / probability vector) is NOT invariant under reversing the qubit order; distinct = canonical JSON")
TRUSTED = [
    "rng.choice(a, size=n, p=p) returns exactly n elements of a, never one whose probability is 0, and equals "
    "a[default_rng(seed).choice(len(a), size=n, p=p)] for the same seed (the harness recovers the drawn indices this way)",
    "format(i, '0nb') is the binary representation of i left-padded with zeros to width n; itertools.product([0,1], repeat=n) "
    "enumerates in lexicographic order (both modelled by explicit recursions, proved equal to MSB-first bits)",
    "scipy.sparse.kron / csc arithmetic implement the Kronecker product and matrix-vector product (the sparse operator is "
    "modelled by the dense Kronecker matrix Pauli.PSum.denote; its identification with get_sparse_operator is property C09)",
    "the executable embedding Lift.liftMatrix is identified with Spec.lift by property C01 (circuit-level theorems are "
    "stated over Spec.lift)",
    "float arithmetic: implementation vs exact model compared with absolute tolerance 1e-9 (amplitudes, probabilities, "
    "expectation values); sampled tuples, keys, key order and counts are compared exactly",
]
ASSUMPTIONS = [
    "MeasurementOutcomeDistribution(dict) keeps keys, order and (for a normalised vector) values (normalisation is C17's concern)",
    "gate matrices are those of OQ.Model.Gates (validated by C01/C02); the oracle takes the 2^k x 2^k gate matrix from the "
    "library and embeds it by independent bit manipulation",
    "np.isclose(total probability, 1) is modelled by exact equality with 1 (all generated states are exactly normalised)",
]

TOL = 1e-9
UNITARY_1Q_EXACT = ["X", "Y", "Z", "S", "I"]
GATES_ANY = ["X", "Y", "Z", "H", "I", "S", "SX", "T", "RX", "RY", "RZ", "PHASE", "U3", "GPi", "GPi2", "RH",
             "CNOT", "CZ", "SWAP", "ISWAP", "CPHASE", "XX", "YY", "ZZ", "XY", "MS"]


# ----------------------------------------------------------------------------------------- helpers
def _mods():
    common.use_repo()
    import numpy as np
    from orquestra.quantum.runners.symbolic_simulator import SymbolicSimulator
    from orquestra.quantum.wavefunction import Wavefunction, sample_from_wavefunction
    from orquestra.quantum.distributions import create_bitstring_distribution_from_probability_distribution
    from orquestra.quantum.measurements import Measurements
    from orquestra.quantum.measurements.measurements import get_expectation_value_from_frequencies
    from orquestra.quantum.operators import PauliSum, PauliTerm, get_expectation_value
    return dict(np=np, Sim=SymbolicSimulator, Wavefunction=Wavefunction, sample=sample_from_wavefunction,
                create_dist=create_bitstring_distribution_from_probability_distribution, Measurements=Measurements,
                freq_ev=get_expectation_value_from_frequencies, PauliSum=PauliSum, PauliTerm=PauliTerm,
                get_ev=get_expectation_value)


def _cplx(c):
    return complex(float(unrat(c[0])), float(unrat(c[1])))


def _build_operator(m, opspec):
    terms = []
    for t in opspec:
        c = _cplx(t["c"])
        coeff = c.real if c.imag == 0 else c
        terms.append(m["PauliTerm"]({int(q): p for q, p in t["ops"]}, coeff))
    return m["PauliSum"](terms)


def _width(case):
    """register width of a views case, from the case alone"""
    if "amps" in case:
        return int(math.log2(len(case["amps"]))) if case["amps"] else 0
    cs = case["circuit"]
    w = cs.get("n") or 0
    for o in cs["ops"]:
        w = max(w, max(o["qs"]) + 1)
    return w


def _msb_bits(i, n):
    return tuple((i >> (n - 1 - q)) & 1 for q in range(n))


def _index_of(t):
    i = 0
    for b in t:
        i = 2 * i + int(b)
    return i


_EXPECTED = {ValueError: "err:value", TypeError: "err:type", IndexError: "err:index"}


def _stage(fn):
    try:
        return fn()
    except tuple(_EXPECTED) as e:
        for k, v in _EXPECTED.items():
            if isinstance(e, k):
                return {"err": v, "msg": str(e)[:120]}
        raise


def _is_err(x):
    return isinstance(x, dict) and "err" in x


# ----------------------------------------------------------------------------------------- cases
def _term(c, ops):
    return {"c": [rat(c), 0] if not isinstance(c, (list, tuple)) else [rat(c[0]), rat(c[1])], "ops": ops}


def _ry(ch, sh, q):
    return {"g": {"gate": "RY", "angles": [[rat(ch), rat(sh)]]}, "qs": [q]}


def _x(q):
    return {"g": {"gate": "X", "angles": []}, "qs": [q]}


def corpus():
    f = Fraction
    zs = [_term(2, [[0, "Z"], [2, "Z"]]), _term(3, [[1, "Z"]]), _term(f(1, 2), [[2, "Z"]])]
    c3 = {"n": 3, "ops": [_x(0), _ry(f(4, 5), f(3, 5), 2)]}
    out = []
    for ns in (1, 7, 8, 9, 40):
        out.append({"kind": "views", "circuit": c3, "n_samples": ns, "seed": 3, "operator": zs})
    out += [
        # seeded change C04_m2: a three-qubit gate on a ROTATED index order (X(0) X(1) CCX(1,2,0) -> |110>)
        {"kind": "views", "circuit": {"n": 3, "ops": [_x(0), _x(1), {"g": {"controlled": {"gate": "X", "angles": []}, "k": 2}, "qs": [1, 2, 0]}]},
         "n_samples": 6, "seed": 4, "operator": zs},
        {"kind": "views", "circuit": {"n": 4, "ops": [_x(3), _x(0), {"g": {"controlled": {"gate": "X", "angles": []}, "k": 2}, "qs": [3, 0, 2]}]},
         "n_samples": 20, "seed": 5, "operator": zs},
        # the degenerate register of width 0 (fixed in 6292974: keys sliced to the width); a regression has sig width-0-register
        {"kind": "views", "circuit": {"n": None, "ops": []}, "n_samples": 3, "seed": 1, "operator": [_term(2, [])]},
        {"kind": "views", "circuit": {"n": 2, "ops": [_x(1)]}, "n_samples": 5, "seed": 2,
         "operator": [_term(1, [[1, "Z"]]), _term(1, [[0, "Z"]]), _term(5, [])]},
        {"kind": "views", "circuit": {"n": 2, "ops": [_x(1)]}, "n_samples": 4, "seed": 2, "operator": []},
        {"kind": "views", "circuit": {"n": 2, "ops": [_x(0)]}, "n_samples": 0, "seed": 2, "operator": [_term(1, [[0, "Z"]])]},
        {"kind": "views", "circuit": {"n": 2, "ops": [_x(0)]}, "n_samples": 3, "seed": 2, "operator": [_term(1, [[4, "Z"]])]},
        {"kind": "views", "circuit": {"n": 2, "ops": [_x(0)]}, "n_samples": 3, "seed": 2,
         "operator": [_term(1, [[0, "X"], [1, "Y"]]), _term([0, 2], [[1, "Z"]])]},
        {"kind": "views", "circuit": {"n": None, "ops": [{"g": {"gate": "H", "angles": []}, "qs": [2]},
                                                        {"g": {"gate": "CNOT", "angles": []}, "qs": [2, 0]}, _x(1)]},
         "n_samples": 20, "seed": 5, "operator": [_term(1, [[0, "Z"], [2, "Z"]]), _term(1, [[1, "Z"]])]},
        {"kind": "views", "amps": [[0, 0], ["3/5", 0], [0, "4/5"], [0, 0]], "n_samples": 6, "seed": 9,
         "operator": [_term(1, [[0, "Z"]]), _term(1, [[1, "Z"]])]},
        {"kind": "freq", "marked": [0, 2], "freqs": [["100", 2], ["101", 1]]},
        {"kind": "freq", "marked": [], "freqs": [["10", 2], ["01", 1]]},
        {"kind": "freq", "marked": [2], "freqs": [["10", 2], ["01", 1]]},
        {"kind": "dist", "probs": [rat(f(1, 2)), 0, rat(f(1, 4)), rat(f(1, 4))]},
    ]
    return out


_UNIT_VECTORS = [[1], [f for f in (Fraction(3, 5), Fraction(4, 5))], [Fraction(1, 2)] * 4,
                 [Fraction(1, 3), Fraction(2, 3), Fraction(2, 3)], [Fraction(2, 7), Fraction(3, 7), Fraction(6, 7)],
                 [Fraction(5, 13), Fraction(12, 13)], [Fraction(1, 5), Fraction(2, 5), Fraction(2, 5), Fraction(4, 5)]]


def _random_operator(rng, n, ztype=True, allow_wide=False):
    terms = []
    for _ in range(rng.choice([0, 1, 1, 2, 2, 3, 4])):
        k = rng.randrange(0, n + 1) if n else 0
        qs = rng.sample(range(n), k) if n else []
        if allow_wide and rng.random() < 0.5:
            qs = qs + [n + rng.randrange(0, 2)]
        ops = [[q, "Z" if ztype else rng.choice("XYZ")] for q in qs]
        c = Fraction(rng.choice([-1, 1]) * rng.randrange(1, 9), rng.choice([1, 1, 2, 4]))
        if rng.random() < 0.1:
            terms.append(_term([c, Fraction(rng.randrange(-4, 5), 2)], ops))
        else:
            terms.append(_term(c, ops))
    return terms


def _product_circuit(rng, n):
    ops = []
    order = list(range(n))
    rng.shuffle(order)
    for q in order:
        r = rng.random()
        if r < 0.35:
            ops.append(_x(q))
        elif r < 0.8:
            a = circ.rat_angle(rng, axis_prob=0.1)
            ops.append({"g": {"gate": "RY", "angles": [a]}, "qs": [q]})
    declared = n if (not ops or rng.random() < 0.6) else None
    return {"n": declared, "ops": ops}


def _general_circuit(rng, n, exact_only):
    names = [g for g in GATES_ANY if circ.BUILTIN_QUBITS[g] <= n]
    if exact_only:
        names = [g for g in names if g in circ.EXACT_FIXED]
    length = rng.randrange(1, 6)
    c = circ.random_circuit(rng, n, length, names=names, custom_prob=0.0)
    if c["n"] is None and not c["ops"]:
        c["n"] = n
    if n >= 3 and rng.random() < 0.5:
        # gates on three or more qubits in an arbitrary (rotated, descending, gapped) index order
        k = rng.choice([2, 2, 3]) if n >= 4 else 2
        qs = rng.sample(range(n), k + 1)
        if rng.random() < 0.5:
            base = sorted(qs)
            r = rng.randrange(1, k + 1)
            qs = base[r:] + base[:r]       # a rotated index order
        pre = [{"g": {"gate": "X", "angles": []}, "qs": [q]} for q in qs[:k] if rng.random() < 0.8]
        c["ops"] = pre + [{"g": {"controlled": {"gate": "X", "angles": []}, "k": k}, "qs": qs}] + c["ops"]
    return c


def _random_amps(rng, n):
    """sparse Gaussian-rational unit vector of length 2^n with an asymmetric support"""
    dim = 2 ** n
    vec = rng.choice([v for v in _UNIT_VECTORS if len(v) <= dim])
    idx = rng.sample(range(dim), len(vec))
    amps = [[0, 0] for _ in range(dim)]
    for i, v in zip(idx, vec):
        ph = rng.choice([(1, 0), (0, 1), (-1, 0), (0, -1)])
        amps[i] = [rat(v * ph[0]), rat(v * ph[1])]
    return amps


def _n_samples(rng, n):
    big = 2 ** n
    return rng.choice([1, 2, max(1, big - 1), big, big + 1, big + 1, 2 * big + 3, rng.randrange(1, 4 * big + 2)])


def generate(rng, tier):
    big = tier == "thorough"
    # width 6 costs ~0.5 s per case in the exact model (64x64 matrices of Q(zeta8) entries): a small share only
    widths = [1, 2, 2, 3, 3, 4, 4, 5, 5] + ([5, 6] if big else [])
    cases = []
    # asymmetric product states
    for _ in range(700 if big else 90):
        n = rng.choice(widths)
        cases.append({"kind": "views", "circuit": _product_circuit(rng, n), "n_samples": _n_samples(rng, n),
                      "seed": rng.randrange(2 ** 31), "operator": _random_operator(rng, n, ztype=rng.random() < 0.85)})
    # general circuits (entangled states)
    for _ in range(300 if big else 60):
        n = rng.randrange(1, (5 if big else 4) + 1)
        cases.append({"kind": "views", "circuit": _general_circuit(rng, n, exact_only=rng.random() < 0.3),
                      "n_samples": _n_samples(rng, n), "seed": rng.randrange(2 ** 31),
                      "operator": _random_operator(rng, n, ztype=rng.random() < 0.8)})
    # explicit amplitude vectors
    for _ in range(300 if big else 50):
        n = rng.choice(widths)
        cases.append({"kind": "views", "amps": _random_amps(rng, n), "n_samples": _n_samples(rng, n),
                      "seed": rng.randrange(2 ** 31), "operator": _random_operator(rng, n, ztype=rng.random() < 0.85)})
    # wide registers (explicit sparse amplitude vectors): both sampling regimes beyond 8 qubits
    for _ in range(12 if big else 4):
        n = rng.choice([9, 10])
        cases.append({"kind": "views", "amps": _random_amps(rng, n), "n_samples": rng.choice([1, 3, 2 ** n - 1, 2 ** n + 1]),
                      "seed": rng.randrange(2 ** 31), "operator": _random_operator(rng, n, ztype=True)})
    # malformed stream: non-positive sample counts, operators wider than the register
    for _ in range(60 if big else 12):
        n = rng.randrange(1, 4)
        c = {"kind": "views", "circuit": _product_circuit(rng, n), "n_samples": _n_samples(rng, n),
             "seed": rng.randrange(2 ** 31), "operator": _random_operator(rng, n)}
        if rng.random() < 0.5:
            c["n_samples"] = rng.choice([0, -1, -5])
        else:
            c["operator"] = _random_operator(rng, n, allow_wide=True)
        cases.append(c)
    # frequencies
    for _ in range(500 if big else 70):
        w = rng.randrange(1, 7)
        keys = rng.sample(range(2 ** w), rng.randrange(1, min(2 ** w, 6) + 1))
        freqs = [[format(k, f"0{w}b"), rng.randrange(1, 40)] for k in keys]
        marked = rng.sample(range(w), rng.randrange(0, w + 1))
        if rng.random() < 0.1:
            marked.append(w + rng.randrange(0, 2))
        cases.append({"kind": "freq", "marked": marked, "freqs": freqs})
    # probability vectors (dyadic: exact in doubles)
    for _ in range(200 if big else 30):
        n = rng.randrange(1, 6)
        dim = 2 ** n
        den = rng.choice([4, 8, 16, 64])
        cuts = sorted(rng.randrange(0, den + 1) for _ in range(min(dim, 5) - 1))
        parts = [b - a for a, b in zip([0] + cuts, cuts + [den])]
        probs = [0] * dim
        for i, p in zip(rng.sample(range(dim), len(parts)), parts):
            probs[i] = rat(Fraction(p, den))
        cases.append({"kind": "dist", "probs": probs})
    return cases


# ----------------------------------------------------------------------------------------- reference (oracle side)
def _ref_state(case):
    """numpy reference state of a views case: explicit amplitudes, or the circuit's gates (matrices taken from the
    library) embedded by independent bit manipulation, qubit 0 = most significant bit"""
    import numpy as np
    if "amps" in case:
        return np.array([_cplx(a) for a in case["amps"]], dtype=complex)
    n = _width(case)
    state = np.zeros(2 ** n, dtype=complex)
    state[0] = 1
    for o in case["circuit"]["ops"]:
        g = circ.build_gate(o["g"])
        mat = circ.impl_matrix_to_numpy(g.matrix)
        state = circ.embed_reference(mat, o["qs"], n) @ state
    return state


_PAULI = None


def _pauli_np():
    global _PAULI
    if _PAULI is None:
        import numpy as np
        _PAULI = {"I": np.eye(2, dtype=complex), "X": np.array([[0, 1], [1, 0]], dtype=complex),
                  "Y": np.array([[0, -1j], [1j, 0]], dtype=complex), "Z": np.array([[1, 0], [0, -1]], dtype=complex)}
    return _PAULI


def _ref_expectation(opspec, state, n):
    """psi^dagger (sum_t c_t kron_q sigma_q) psi with qubit 0 the leftmost factor; Z-type terms by eigenvalues"""
    import numpy as np
    total = 0j
    probs = np.abs(state) ** 2
    for t in opspec:
        c = _cplx(t["c"])
        ops = {int(q): p for q, p in t["ops"]}
        if all(p == "Z" for p in ops.values()):
            ev = 0.0
            for i in range(len(state)):
                b = _msb_bits(i, n)
                ev += probs[i] * (-1) ** sum(b[q] for q in ops)
            total += c * ev
        else:
            m = np.array([[1]], dtype=complex)
            for q in range(n):
                m = np.kron(m, _pauli_np()[ops.get(q, "I")])
            total += c * (np.conj(state) @ (m @ state))
    return total


def _reversal_invariant(probs, n):
    for i, p in enumerate(probs):
        j = _index_of(tuple(reversed(_msb_bits(i, n))))
        if abs(p - probs[j]) > 1e-12:
            return False
    return True


def nontrivial(c):
    import numpy as np
    k = c["kind"]
    if k == "views":
        n = _width(c)
        if n < 2:
            return False
        st = _ref_state(c)
        return not _reversal_invariant(np.abs(st) ** 2, n)
    if k == "freq":
        w = len(c["freqs"][0][0])
        if w < 2 or not c["marked"]:
            return False
        d = {s: v for s, v in c["freqs"]}
        return any(d.get(s[::-1], 0) != v for s, v in d.items())
    if k == "dist":
        n = int(math.log2(len(c["probs"])))
        return n >= 2 and not _reversal_invariant([float(unrat(p)) for p in c["probs"]], n)
    return False


# ----------------------------------------------------------------------------------------- implementation
def _canon_samples(bitstrings):
    out = []
    for t in bitstrings:
        if not isinstance(t, tuple):
            out.append({"nontuple": repr(t)[:40]})
        else:
            out.append([int(b) for b in t])
    return out


def run_impl(c):
    m = _mods()
    np = m["np"]
    k = c["kind"]
    if k == "freq":
        r = _stage(lambda: m["freq_ev"](c["marked"], {s: v for s, v in c["freqs"]}))
        return r if _is_err(r) else {"value": float(r)}
    if k == "dist":
        d = m["create_dist"](np.array([float(unrat(p)) for p in c["probs"]]))
        return {"dist": [[[int(b) for b in key], float(v)] for key, v in d.distribution_dict.items()]}
    out = {}
    op = _build_operator(m, c["operator"])
    ns, seed = c["n_samples"], c["seed"]
    if "amps" in c:
        wf = _stage(lambda: m["Wavefunction"](np.array([_cplx(a) for a in c["amps"]], dtype=complex)))
        if _is_err(wf):
            return {"wf": wf}
        dist_fn = lambda: m["create_dist"](wf.get_probabilities())  # noqa: E731
        meas_fn = lambda: m["Measurements"](m["sample"](wf, ns, seed))  # noqa: E731
        exact_fn = lambda: m["get_ev"](op, wf).real  # noqa: E731
    else:
        circuit = circ.build_circuit(c["circuit"])
        sim = m["Sim"](seed=seed)
        wf = _stage(lambda: sim.get_wavefunction(circuit))
        if _is_err(wf):
            return {"wf": wf}
        dist_fn = lambda: sim.get_measurement_outcome_distribution(circuit, None)  # noqa: E731
        meas_fn = lambda: sim.run_and_measure(circuit, ns)  # noqa: E731
        exact_fn = lambda: sim.get_exact_expectation_values(circuit, op)  # noqa: E731
    amps = np.asarray(wf.amplitudes, dtype=complex)
    out["wf"] = [[float(a.real), float(a.imag)] for a in amps]
    out["n_qubits"] = int(wf.n_qubits)
    probs_items = list(wf.get_outcome_probs().items())
    out["outcome_probs"] = [[str(s), float(p)] for s, p in probs_items]
    d = _stage(dist_fn)
    out["dist"] = d if _is_err(d) else [[[int(b) for b in key], float(v)] for key, v in d.distribution_dict.items()]
    meas = _stage(meas_fn)
    if _is_err(meas):
        out["samples"] = out["counts"] = out["measured"] = meas
        out["draws"] = []
    else:
        out["samples"] = _canon_samples(meas.bitstrings)
        cnt = _stage(meas.get_counts)
        out["counts"] = cnt if _is_err(cnt) else [[str(s), int(v)] for s, v in cnt.items()]
        ev = _stage(lambda: meas.get_expectation_values(op))
        out["measured"] = ev if _is_err(ev) else [[float(complex(v).real), float(complex(v).imag)] for v in ev.values]
        # glue for the model: the indices rng.choice drew (trusted law, see TRUSTED[0]); same call shape as the code
        p = [float(x) for _, x in probs_items]
        if len(amps) < ns:
            out["draws"] = [int(i) for i in np.random.default_rng(seed).choice(len(amps) + 1, size=ns, p=p + [0])]
        else:
            out["draws"] = [int(i) for i in np.random.default_rng(seed).choice(len(amps), size=ns, p=p)]
    ex = _stage(exact_fn)
    out["exact"] = ex if _is_err(ex) else float(ex)
    return out


# ----------------------------------------------------------------------------------------- model side
def _driver_op(o):
    g = o["g"]
    if "controlled" in g:
        # multiply-controlled X (Toffoli family): the exact matrix is written out here, independently of the library
        assert g["controlled"] == {"gate": "X", "angles": []}
        d = 2 ** (g["k"] + 1)
        m = [[[1 if r == c2 else 0, 0] for c2 in range(d)] for r in range(d)]
        m[d - 2], m[d - 1] = m[d - 1], m[d - 2]
        return {"m": m, "qs": o["qs"]}
    return {"gate": g["gate"], "angles": g["angles"], "qs": o["qs"]}


def requests(c, out):
    k = c["kind"]
    if k == "freq":
        return [("freq", {"marked": c["marked"], "freqs": c["freqs"]})]
    if k == "dist":
        return [("dist", {"probs": c["probs"]})]
    if "amps" in c and len(c["amps"]) > 256:
        return []  # wide registers: the exact model is too slow there; judged by the oracle only
    payload = {"n_samples": c["n_samples"], "draws": out.get("draws", []) if isinstance(out, dict) else [],
               "operator": c["operator"]}
    if "amps" in c:
        payload["amps"] = c["amps"]
    else:
        payload["n"] = c["circuit"].get("n")
        payload["ops"] = [_driver_op(o) for o in c["circuit"]["ops"]]
    return [("views", payload)]


def _status(x):
    return x["err"] if _is_err(x) else None


def _cmp_kv(name, impl, model, keyf):
    if _is_err(impl):
        return f"{name}: implementation raised {impl} , model {str(model)[:80]}"
    if [keyf(kv[0]) for kv in impl] != [keyf(kv[0]) for kv in model]:
        return f"{name}: keys/order differ: impl {[kv[0] for kv in impl][:8]} model {[kv[0] for kv in model][:8]}"
    for (k1, v1), (_, v2) in zip(impl, model):
        mv = common.cyc_to_complex(v2)
        if abs(v1 - mv) > TOL:
            return f"{name}: value at key {k1}: impl {v1} model {mv}"
    return None


def compare(c, out, resp):
    r = resp[0]
    if isinstance(r, dict) and "driver_error" in r:
        return "driver error: " + r["driver_error"]
    k = c["kind"]
    if k == "freq":
        if _is_err(out) or isinstance(r, str) and r.startswith("err:"):
            if _status(out) != (r if isinstance(r, str) and r.startswith("err:") else None):
                return f"get_expectation_value_from_frequencies: impl {out} model {r}"
            return None
        if "value" not in out or abs(out["value"] - float(unrat(r))) > 1e-12:
            return f"get_expectation_value_from_frequencies: impl {out} model {r}"
        return None
    if k == "dist":
        got = [[kv[0], kv[1]] for kv in out.get("dist", [])]
        want = [[kv[0], float(unrat(kv[1]))] for kv in r]
        if got != want:
            return f"create_bitstring_distribution…: impl {got[:6]} model {want[:6]}"
        return None
    # views
    if not isinstance(out, dict) or "wf" not in out:
        return f"implementation produced no wavefunction: {out}"
    mw, iw = r.get("wf"), out["wf"]
    if isinstance(mw, str) or _is_err(iw):
        if (mw if isinstance(mw, str) else None) != _status(iw):
            return f"wavefunction: impl {str(iw)[:100]} model {str(mw)[:100]}"
        return None
    if len(mw) != len(iw):
        return f"wavefunction length: impl {len(iw)} model {len(mw)}"
    for i, (a, b) in enumerate(zip(iw, mw)):
        if abs(complex(a[0], a[1]) - common.cyc_to_complex(b)) > TOL:
            return f"wavefunction amplitude {i}: impl {a} model {common.cyc_to_complex(b)}"
    msg = _cmp_kv("get_outcome_probs", out["outcome_probs"], r["outcome_probs"], str)
    if msg:
        return msg
    msg = _cmp_kv("exact distribution", out["dist"], r["dist"], list)
    if msg:
        return msg
    for name in ("samples", "counts"):
        mi, mm = out[name], r[name]
        if _is_err(mi) or isinstance(mm, str):
            if _status(mi) != (mm if isinstance(mm, str) else None):
                return f"{name}: impl {str(mi)[:100]} model {str(mm)[:100]}"
        elif mi != mm:
            return f"{name}: impl {str(mi)[:160]} model {str(mm)[:160]} (draws {out.get('draws')})"
    scale = 1 + sum(abs(_cplx(t["c"])) for t in c["operator"])
    mi, mm = out["measured"], r["measured"]
    if _is_err(mi) or isinstance(mm, str):
        if _status(mi) != (mm if isinstance(mm, str) else None):
            return f"Measurements.get_expectation_values: impl {str(mi)[:100]} model {str(mm)[:100]}"
    else:
        if len(mi) != len(mm):
            return f"Measurements.get_expectation_values: {len(mi)} values, model {len(mm)}"
        for a, b in zip(mi, mm):
            if abs(complex(a[0], a[1]) - common.cyc_to_complex(b)) > TOL * scale:
                return f"Measurements.get_expectation_values: impl {mi} model {[common.cyc_to_complex(x) for x in mm]}"
    mi, mm = out["exact"], r["exact"]
    if _is_err(mi) or isinstance(mm, str):
        if _status(mi) != (mm if isinstance(mm, str) else None):
            return f"get_exact_expectation_values: impl {str(mi)[:100]} model {str(mm)[:100]}"
    elif abs(mi - common.cyc_to_complex(mm).real) > TOL * scale:
        return f"get_exact_expectation_values: impl {mi} model {common.cyc_to_complex(mm).real}"
    return None


# ----------------------------------------------------------------------------------------- oracle
def _sig(n, s):
    return "width-0-register" if n == 0 else s


def oracle(c, out):
    """the property's sentences by numpy / Fraction brute force on the implementation's outputs only"""
    import numpy as np
    k = c["kind"]
    if isinstance(out, dict) and "exc" in out:
        return ("impl-raise", f"implementation raised {out['exc']}: {out.get('msg')}")
    if k == "freq":
        w = len(c["freqs"][0][0])
        if any(q >= w for q in c["marked"]):
            return None  # a marked qubit outside the register: outside the property's domain
        if _is_err(out):
            return ("frequencies-raise", f"get_expectation_value_from_frequencies raised {out}")
        tot = sum(v for _, v in c["freqs"])
        want = sum(Fraction(v) * (-1) ** sum(int(s[q]) for q in c["marked"]) for s, v in c["freqs"]) / tot
        if abs(out["value"] - float(want)) > 1e-12:
            return ("frequencies-parity", f"expectation from counts {out['value']} but position-q parity average is {float(want)}")
        return None
    if k == "dist":
        probs = [float(unrat(p)) for p in c["probs"]]
        n = int(math.log2(len(probs)))
        got = {tuple(kv[0]): kv[1] for kv in out["dist"]}
        for i, p in enumerate(probs):
            if got.get(_msb_bits(i, n)) != p:
                return ("dist-key-order", f"probability of basis index {i} = {p} but key {_msb_bits(i, n)} holds {got.get(_msb_bits(i, n))}")
        if len(got) != len(probs):
            return ("dist-key-order", "wrong number of keys")
        return None
    # ---- views
    n = _width(c)
    if _is_err(out.get("wf")):
        return (_sig(n, "wavefunction-raise"), f"get_wavefunction raised on a valid circuit: {out['wf']}")
    ref = _ref_state(c)
    probs = np.abs(ref) ** 2
    wf = np.array([complex(a[0], a[1]) for a in out["wf"]])
    if wf.shape != ref.shape or np.max(np.abs(wf - ref)) > TOL:
        return (_sig(n, "wavefunction-qubit-order"), f"state vector {wf.tolist()[:8]} differs from gates-on-qubit-q reference {ref.tolist()[:8]}")
    # (get_outcome_probs is an internal view – its key convention is checked by the correspondence only; the property
    #  speaks about the state vector, the exact distribution, the samples, the counts and the expectation values)
    if _is_err(out["dist"]):
        return (_sig(n, "dist-raise"), f"exact distribution raised: {out['dist']}")
    got = {tuple(kv[0]): kv[1] for kv in out["dist"]}
    if len(got) != 2 ** n:
        return (_sig(n, "dist-key-order"), f"exact distribution has {len(got)} keys for width {n}")
    for i in range(2 ** n):
        b = _msb_bits(i, n)
        if b not in got or abs(got[b] - probs[i]) > TOL:
            return (_sig(n, "dist-key-order"), f"exact distribution at {b}: {got.get(b)} but |amp[{i}]|^2 = {probs[i]}")
    ns = c["n_samples"]
    samples = None
    if ns >= 1:
        if _is_err(out["samples"]):
            return (_sig(n, "sample-raise"), f"run_and_measure raised for n_samples={ns}: {out['samples']}")
        samples = out["samples"]
        if len(samples) != ns:
            return (_sig(n, "sample-count"), f"{len(samples)} samples returned, {ns} requested")
        for t in samples:
            if isinstance(t, dict):
                return (_sig(n, "sample-not-tuple"), f"sampled outcome is not a tuple: {t}")
            if len(t) != n:
                return (_sig(n, "sample-length"), f"sampled tuple {t} has length {len(t)}, register width {n}")
            if any(b not in (0, 1) for b in t) or probs[_index_of(t)] < 1e-24:
                return (_sig(n, "sample-zero-prob"), f"sampled tuple {t} has exact probability {probs[_index_of(t)] if all(b in (0, 1) for b in t) else None}")
            if abs(got.get(tuple(t), 0.0)) < 1e-24:
                return (_sig(n, "sample-zero-prob"), f"sampled tuple {t} has probability 0 in the exact distribution object")
        if _is_err(out["counts"]):
            return (_sig(n, "counts-raise"), f"get_counts raised: {out['counts']}")
        cnt = {}
        for t in samples:
            s = "".join(str(b) for b in t)
            cnt[s] = cnt.get(s, 0) + 1
        if dict(map(tuple, out["counts"])) != cnt:
            return (_sig(n, "counts-key"), f"counts {out['counts']} but position-q strings of the samples give {cnt}")
    opspec = c["operator"]
    qubits = [int(q) for t in opspec for q, _ in t["ops"]]
    in_range = all(q < n for q in qubits)
    scale = 1 + sum(abs(_cplx(t["c"])) for t in opspec)
    if in_range:
        if _is_err(out["exact"]):
            return (_sig(n, "exact-raise"), f"get_exact_expectation_values raised: {out['exact']}")
        want = _ref_expectation(opspec, ref, n).real
        if abs(out["exact"] - want) > TOL * scale:
            return (_sig(n, "exact-expectation"), f"exact expectation {out['exact']} but eigenvalue average under the exact distribution is {want}")
        ztype = all(p == "Z" for t in opspec for _, p in t["ops"])
        if ztype and samples is not None:
            if _is_err(out["measured"]):
                return ("width-0-measured-raise" if n == 0 else "measured-raise",
                        f"Measurements.get_expectation_values raised: {out['measured']}")
            if len(out["measured"]) != len(opspec):
                return (_sig(n, "measured-expectation"), "wrong number of expectation values")
            for t, v in zip(opspec, out["measured"]):
                marked = [int(q) for q, _ in t["ops"]]
                avg = sum(Fraction((-1) ** sum(s[q] for q in marked)) for s in samples) / len(samples)
                wantv = _cplx(t["c"]) * float(avg)
                if abs(complex(v[0], v[1]) - wantv) > TOL * scale:
                    return (_sig(n, "measured-expectation"), f"term {t}: value from measurements {v}, eigenvalue average over the shots {wantv}")
    return None


def distribution(cases, outs):
    widths, regimes, errs = {}, {"fewer": 0, "equal": 0, "more": 0}, {}
    for c, o in zip(cases, outs):
        if c["kind"] != "views":
            continue
        n = _width(c)
        widths[n] = widths.get(n, 0) + 1
        ns = c["n_samples"]
        regimes["fewer" if ns < 2 ** n else "equal" if ns == 2 ** n else "more"] += 1
        if isinstance(o, dict):
            for f in ("samples", "measured", "exact"):
                if _is_err(o.get(f)):
                    key = f + ":" + o[f]["err"]
                    errs[key] = errs.get(key, 0) + 1
    return {"widths": widths, "sampling_regimes": regimes, "error_kinds": errs}
