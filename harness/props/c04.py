"""C04 — every view of a simulated state agrees on which qubit is which."""
import math
from fractions import Fraction

from .. import circ, common
from ..common import rat, unrat

PROP = "C04"
RULE = ("seeded circuits (asymmetric product states by X / RY(rational angle) on random qubit subsets; random built-in "
        "gates incl. 2-qubit gates on gapped / descending qubits), explicit Gaussian-rational amplitude vectors, widths 1-5 "
        "(thorough 1-6), n_samples on both sides of 2^n, random Z-type / general Pauli operators; plus direct frequency "
        "dicts and probability vectors.  non-trivial: register width >= 2 and the outcome distribution (state / "
        "frequency dict / probability vector) is NOT invariant under reversing the qubit order; distinct = canonical JSON.  "
        "Histories: every views case may be observed TWICE on the same long-lived objects (second pass in the opposite "
        "order, after the returned objects of the first pass were edited by the caller); `session` = several sibling "
        "views steps (each differs from its predecessor in ONE component: operator / width / one gate / one angle / "
        "n_samples across 2^n / qubit relabelling / equal-but-not-identical rebuild / same custom-gate name with another "
        "matrix) on ONE simulator, ONE operator object per spec, optionally ONE Measurements container, or ONE "
        "Wavefunction edited through __setitem__; `meas` = one Measurements object whose public `bitstrings` is "
        "replaced / edited / extended between get_counts / get_distribution / get_expectation_values calls "
        "(non-trivial: width >= 2, a mutation between two queries, a state not invariant under qubit reversal).  "
        "Magnitudes: product states with one or two qubits rotated by a very small rational angle (P[flip] 1e-4 … 1e-12, "
        "also 1e-2 with thousands of shots) x uniform superposition on up to 9 other qubits, the rare sector fanned out by "
        "CNOTs, explicit amplitude vectors spanning many orders of magnitude, operators living in the rare sector "
        "(c(1-Z)/2, projectors with c up to 1e12, coefficients 1e-9 next to 1e6), nearly balanced / one-in-a-billion count "
        "dicts, dyadic probabilities of 2^-45, one rare shot among thousands; probabilities are compared RELATIVELY "
        "(1e-10; exact rational reference where the state is a product without cancellation, zero / non-zero must agree).  "
        "Origins (kind `origin`, oracle only): every view (get_expectation_value incl. the bit-reversed state with "
        "reverse_operator=True, get_exact_expectation_values, get_probabilities / get_outcome_probs / exact distribution, "
        "sample_from_wavefunction in BOTH regimes, counts and measured expectation of the samples) on a Wavefunction of every "
        "origin / storage shape: list, column ndarray (N,1), sympy Matrix (rational / float), fancy-index and slice assignment "
        "(flat and column), flip_wavefunction, save + load, a symbolic-circuit state bound in one step / in two steps / then saved "
        "and loaded / flipped twice / re-assigned; Z-type, constant, narrow and mixed operators; every `bind_wf` views case additionally "
        "asks get_expectation_value on the bound Wavefunction object itself.  Nearly normalised states (kind `nearnorm`): "
        "amplitudes (flat / column) or a custom Hadamard-like gate rounded to 6-9 decimals with a support that is not invariant "
        "under qubit reversal, through sample_from_wavefunction, run_and_measure, run_batch_and_measure (both regimes) and "
        "get_measurement_outcome_distribution(circuit, n)")
TRUSTED = [
    "rng.choice(a, size=n, p=p) returns exactly n elements of a, never one whose probability is 0, and equals "
    "a[default_rng(seed).choice(len(a), size=n, p=p)] for the same seed (the harness recovers the drawn indices this way)",
    "format(i, '0nb') is the binary representation of i left-padded with zeros to width n; itertools.product([0,1], repeat=n) "
    "enumerates in lexicographic order (both modelled by explicit recursions, proved equal to MSB-first bits)",
    "scipy.sparse.kron / csc arithmetic implement the Kronecker product and matrix-vector product (the sparse operator is "
    "modelled by the dense Kronecker matrix Pauli.PSum.denote; its identification with get_sparse_operator is property C09)",
    "the executable embedding Lift.liftMatrix is identified with Spec.lift by property C01 (circuit-level theorems are "
    "stated over Spec.lift)",
    "float arithmetic: implementation vs exact model compared with tolerance 1e-12 + 1e-10*|value| (amplitudes, probabilities; "
    "1e-13*scale + 1e-10*|value| for exact expectation values, 1e-12*|coefficient| for measured ones, 1e-14 for means of "
    "count dicts); a value whose exact counterpart is >= 1e-24 must not be reported as 0; sampled tuples, keys, key order "
    "and counts are compared exactly.  The oracle uses the same tolerances against a numpy reference and, where every "
    "amplitude is a single product of exactly known factors, a purely relative 1e-10 against exact rationals",
    "sympy substitution (Matrix.subs) and json round trip of amplitudes (save_wavefunction / load_wavefunction) reproduce the "
    "numbers to double precision; the harness obtains the bit-reversed state of the reverse_operator=True view by its own index "
    "permutation of wf.amplitudes (same storage shape)",
]
ASSUMPTIONS = [
    "a Measurements / Wavefunction / simulator object is a plain container: its views are functions of the tuples / "
    "amplitudes it holds NOW and of the arguments of the call (the model is history-free; every step of a history is "
    "judged as an independent case); `Measurements.bitstrings` is a public mutable attribute (the test-suite assigns and "
    "extends it)",
    "MeasurementOutcomeDistribution(dict) keeps keys, order and (for a normalised vector) values (normalisation is C17's concern)",
    "gate matrices are those of OQ.Model.Gates (validated by C01/C02); the oracle takes the 2^k x 2^k gate matrix from the "
    "library and embeds it by independent bit manipulation",
    "np.isclose(total probability, 1) is modelled by exact equality with 1 (all model-compared states are exactly normalised)",
    "a state the Wavefunction constructor accepts although its total probability differs from 1 by more than ~1.5e-8 (kind "
    "`nearnorm`, 6-7 decimals) is refused by every sampling route of the unchanged library (ValueError 'Probabilities do not sum "
    "to 1' from rng.choice; observed on sample_from_wavefunction, run_and_measure, run_batch_and_measure, "
    "get_measurement_outcome_distribution(circuit, n)); below that it is sampled.  The property says nothing about a refusal: a "
    "ValueError is accepted there, and whatever a route RETURNS is judged by the property's sentences (number of samples, tuple "
    "length = register width, non-zero exact probability under the circuit's qubit numbering)",
    "the exact-distribution view of a column-shaped state is create_bitstring_distribution_from_probability_distribution("
    "wf.get_probabilities().ravel()): the function itself takes a one-dimensional probability vector (a column raises TypeError "
    "in the unchanged library: outside its domain); a row-shaped array (1,N) is not a state of n qubits (n_qubits = 0): not generated",
]

TOL = 1e-9
# magnitude-aware comparison of probabilities / amplitudes / expectation values: a value is right if it is within
# ABS + REL * |reference|; ABS covers the cancellation error of double arithmetic on O(1) intermediates (~1e-16 per
# operation), REL everything else.  Where the reference is known EXACTLY (explicit Gaussian-rational amplitudes, product
# circuits without cancellation) the comparison is purely relative and zero / non-zero must agree.
ABS, REL = 1e-12, 1e-10
ZERO = 1e-25        # what double arithmetic may leave where the exact value is 0 (cos(pi/2)^2 ~ 4e-33)
UNITARY_1Q_EXACT = ["X", "Y", "Z", "S", "I"]
GATES_ANY = ["X", "Y", "Z", "H", "I", "S", "SX", "T", "RX", "RY", "RZ", "PHASE", "U3", "GPi", "GPi2", "RH",
             "CNOT", "CZ", "SWAP", "ISWAP", "CPHASE", "XX", "YY", "ZZ", "XY", "MS"]


# ----------------------------------------------------------------------------------------- helpers
def _mods():
    common.use_repo()
    import numpy as np
    from orquestra.quantum.runners.symbolic_simulator import SymbolicSimulator
    from orquestra.quantum.wavefunction import (Wavefunction, sample_from_wavefunction, flip_wavefunction, save_wavefunction,
                                                load_wavefunction)
    from orquestra.quantum.distributions import create_bitstring_distribution_from_probability_distribution
    from orquestra.quantum.measurements import Measurements
    from orquestra.quantum.measurements.measurements import get_expectation_value_from_frequencies
    from orquestra.quantum.operators import PauliSum, PauliTerm, get_expectation_value
    return dict(np=np, Sim=SymbolicSimulator, Wavefunction=Wavefunction, sample=sample_from_wavefunction,
                create_dist=create_bitstring_distribution_from_probability_distribution, Measurements=Measurements,
                freq_ev=get_expectation_value_from_frequencies, PauliSum=PauliSum, PauliTerm=PauliTerm,
                get_ev=get_expectation_value, flip_wf=flip_wavefunction, save_wf=save_wavefunction, load_wf=load_wavefunction)


def _cplx(c):
    return complex(float(unrat(c[0])), float(unrat(c[1])))


def _build_term(m, t, form):
    c = _cplx(t["c"])
    coeff = c.real if c.imag == 0 else c
    ops = [(int(q), p) for q, p in t["ops"]]
    if form == "iter":        # PauliTerm.from_iterable([(op, index), …], coefficient)
        return m["PauliTerm"].from_iterable([(p, q) for q, p in ops], coeff)
    if form == "str":         # PauliTerm("Z0*Z2", coefficient); the constant term is "I0"
        return m["PauliTerm"]("*".join(f"{p}{q}" for q, p in ops) if ops else "I0", coeff)
    if form == "pad":         # explicit identity factors on the other qubits below the highest one (dropped by PauliTerm)
        d = {q: p for q, p in ops}
        for q in range(max(d) if d else 0):
            d.setdefault(q, "I")
        return m["PauliTerm"](d, coeff)
    return m["PauliTerm"]({q: p for q, p in ops}, coeff)


def _build_operator(m, opspec, form=None):
    """the operator object of a spec.  `form` = how it is written down (dict / from_iterable / string / padded with
    explicit identities / a bare PauliTerm instead of a one-term PauliSum): all denote the same operator"""
    terms = [_build_term(m, t, form) for t in opspec]
    if form == "single" and len(terms) == 1:
        return terms[0]
    return m["PauliSum"](terms)


# exact unitaries available to a custom gate definition (same NAME, different CONTENT across the circuits of a session)
_CUSTOM_MATS = {
    "x": [[[0, 0], [1, 0]], [[1, 0], [0, 0]]],
    "y": [[[0, 0], [0, -1]], [[0, 1], [0, 0]]],
    "z": [[[1, 0], [0, 0]], [[0, 0], [-1, 0]]],
    "s": [[[1, 0], [0, 0]], [[0, 0], [0, 1]]],
    "cx": [[[1, 0], [0, 0], [0, 0], [0, 0]], [[0, 0], [1, 0], [0, 0], [0, 0]],
           [[0, 0], [0, 0], [0, 0], [1, 0]], [[0, 0], [0, 0], [1, 0], [0, 0]]],
    "xc": [[[1, 0], [0, 0], [0, 0], [0, 0]], [[0, 0], [0, 0], [0, 0], [1, 0]],
           [[0, 0], [0, 0], [1, 0], [0, 0]], [[0, 0], [1, 0], [0, 0], [0, 0]]],
    "xi": [[[0, 0], [0, 0], [1, 0], [0, 0]], [[0, 0], [0, 0], [0, 0], [1, 0]],
           [[1, 0], [0, 0], [0, 0], [0, 0]], [[0, 0], [1, 0], [0, 0], [0, 0]]],
}


def _build_circuit(m, cspec, param=None):
    """(circuit, symbols_map): with `param` every angle of a built-in parametric gate is a sympy Symbol and
    symbols_map holds the numbers (the numeric circuit is then circuit.bind(symbols_map))"""
    if not param:
        return circ.build_circuit(cspec), None
    import sympy
    import orquestra.quantum.circuits as oqc
    ops, smap = [], {}
    for i, o in enumerate(cspec["ops"]):
        g = o["g"]
        inner = g.get("controlled", g)
        if "gate" in inner and inner["angles"]:
            syms = [sympy.Symbol(f"th_{i}_{j}") for j in range(len(inner["angles"]))]
            for sy, a in zip(syms, inner["angles"]):
                smap[sy] = circ.theta_of(a)
            gate = getattr(oqc, inner["gate"])(*syms)
            if "controlled" in g:
                gate = gate.controlled(g["k"])
            ops.append(gate(*o["qs"]))
        else:
            ops.append(circ.build_gate(g)(*o["qs"]))
    return oqc.Circuit(ops, n_qubits=cspec.get("n")), smap


def _width(case):
    """register width of a views case, from the case alone"""
    if "amps" in case:
        return int(math.log2(len(case["amps"]))) if case["amps"] else 0
    cs = case["circuit"]
    w = cs.get("n") or 0
    for o in cs["ops"]:
        w = max(w, max(o["qs"]) + 1)
    return w


def _msb_bits(i, n):
    return tuple((i >> (n - 1 - q)) & 1 for q in range(n))


def _index_of(t):
    i = 0
    for b in t:
        i = 2 * i + int(b)
    return i


_EXPECTED = {ValueError: "err:value", TypeError: "err:type", IndexError: "err:index"}


def _stage(fn):
    try:
        return fn()
    except tuple(_EXPECTED) as e:
        for k, v in _EXPECTED.items():
            if isinstance(e, k):
                return {"err": v, "msg": str(e)[:120]}
        raise


def _is_err(x):
    return isinstance(x, dict) and "err" in x


# ----------------------------------------------------------------------------------------- cases
def _term(c, ops):
    return {"c": [rat(c), 0] if not isinstance(c, (list, tuple)) else [rat(c[0]), rat(c[1])], "ops": ops}


def _ry(ch, sh, q):
    return {"g": {"gate": "RY", "angles": [[rat(ch), rat(sh)]]}, "qs": [q]}


def _x(q):
    return {"g": {"gate": "X", "angles": []}, "qs": [q]}


def corpus():
    f = Fraction
    zs = [_term(2, [[0, "Z"], [2, "Z"]]), _term(3, [[1, "Z"]]), _term(f(1, 2), [[2, "Z"]])]
    c3 = {"n": 3, "ops": [_x(0), _ry(f(4, 5), f(3, 5), 2)]}
    out = []
    for ns in (1, 7, 8, 9, 40):
        out.append({"kind": "views", "circuit": c3, "n_samples": ns, "seed": 3, "operator": zs})
    out += [
        # seeded change C04_m2: a three-qubit gate on a ROTATED index order (X(0) X(1) CCX(1,2,0) -> |110>)
        {"kind": "views", "circuit": {"n": 3, "ops": [_x(0), _x(1), {"g": {"controlled": {"gate": "X", "angles": []}, "k": 2}, "qs": [1, 2, 0]}]},
         "n_samples": 6, "seed": 4, "operator": zs},
        {"kind": "views", "circuit": {"n": 4, "ops": [_x(3), _x(0), {"g": {"controlled": {"gate": "X", "angles": []}, "k": 2}, "qs": [3, 0, 2]}]},
         "n_samples": 20, "seed": 5, "operator": zs},
        # the degenerate register of width 0 (fixed in 6292974: keys sliced to the width); a regression has sig width-0-register
        {"kind": "views", "circuit": {"n": None, "ops": []}, "n_samples": 3, "seed": 1, "operator": [_term(2, [])]},
        {"kind": "views", "circuit": {"n": 2, "ops": [_x(1)]}, "n_samples": 5, "seed": 2,
         "operator": [_term(1, [[1, "Z"]]), _term(1, [[0, "Z"]]), _term(5, [])]},
        {"kind": "views", "circuit": {"n": 2, "ops": [_x(1)]}, "n_samples": 4, "seed": 2, "operator": []},
        {"kind": "views", "circuit": {"n": 2, "ops": [_x(0)]}, "n_samples": 0, "seed": 2, "operator": [_term(1, [[0, "Z"]])]},
        {"kind": "views", "circuit": {"n": 2, "ops": [_x(0)]}, "n_samples": 3, "seed": 2, "operator": [_term(1, [[4, "Z"]])]},
        {"kind": "views", "circuit": {"n": 2, "ops": [_x(0)]}, "n_samples": 3, "seed": 2,
         "operator": [_term(1, [[0, "X"], [1, "Y"]]), _term([0, 2], [[1, "Z"]])]},
        {"kind": "views", "circuit": {"n": None, "ops": [{"g": {"gate": "H", "angles": []}, "qs": [2]},
                                                        {"g": {"gate": "CNOT", "angles": []}, "qs": [2, 0]}, _x(1)]},
         "n_samples": 20, "seed": 5, "operator": [_term(1, [[0, "Z"], [2, "Z"]]), _term(1, [[1, "Z"]])]},
        {"kind": "views", "amps": [[0, 0], ["3/5", 0], [0, "4/5"], [0, 0]], "n_samples": 6, "seed": 9,
         "operator": [_term(1, [[0, "Z"]]), _term(1, [[1, "Z"]])]},
        {"kind": "freq", "marked": [0, 2], "freqs": [["100", 2], ["101", 1]]},
        {"kind": "freq", "marked": [], "freqs": [["10", 2], ["01", 1]]},
        {"kind": "freq", "marked": [2], "freqs": [["10", 2], ["01", 1]]},
        {"kind": "dist", "probs": [rat(f(1, 2)), 0, rat(f(1, 4)), rat(f(1, 4))]},
    ]
    # ---- histories on long-lived objects / siblings / exotic-but-legal shapes (round 3)
    c3b = {"n": 3, "ops": [_x(0), _x(1), _ry(f(4, 5), f(3, 5), 2)]}
    zc = [_term(f(5, 2), []), _term(1, [[0, "Z"]])]           # constant term + operator narrower than the register
    out += [
        # one simulator, one operator object, one Measurements container refilled with the same number of shots
        {"kind": "session", "seed": 11, "container": True, "steps": [
            {"kind": "views", "circuit": c3, "n_samples": 6, "seed": 11, "operator": zs, "twice": "plain"},
            {"kind": "views", "circuit": c3b, "n_samples": 6, "seed": 11, "operator": zs, "twice": "poison"},
            {"kind": "views", "circuit": c3, "n_samples": 6, "seed": 11, "operator": zc}]},
        # the same operator object on registers of different widths; narrow operator with a constant term
        {"kind": "session", "seed": 12, "container": False, "steps": [
            {"kind": "views", "circuit": {"n": 2, "ops": [_x(1)]}, "n_samples": 5, "seed": 12, "operator": zc, "twice": "poison"},
            {"kind": "views", "circuit": {"n": 4, "ops": [_x(1), _ry(f(3, 5), f(4, 5), 0), _ry(f(5, 13), f(12, 13), 3)]},
             "n_samples": 17, "seed": 12, "operator": zc, "op_form": None},
            {"kind": "views", "circuit": {"n": 3, "ops": [_x(1), _ry(f(3, 5), f(4, 5), 0)]}, "n_samples": 8, "seed": 12,
             "operator": zc, "fresh": True}]},
        # the same narrow operator first on a wide, then on a narrower register
        {"kind": "session", "seed": 15, "container": True, "steps": [
            {"kind": "views", "circuit": {"n": 4, "ops": [_ry(f(3, 5), f(4, 5), 0), _x(3), _x(1)]}, "n_samples": 9, "seed": 15, "operator": zc},
            {"kind": "views", "circuit": {"n": 3, "ops": [_ry(f(3, 5), f(4, 5), 0), _x(1)]}, "n_samples": 9, "seed": 15, "operator": zc, "twice": "plain"},
            {"kind": "views", "circuit": {"n": 2, "ops": [_ry(f(3, 5), f(4, 5), 0), _x(1)]}, "n_samples": 9, "seed": 15, "operator": zc}]},
        # a controlled rotation (not symmetric in its qubits) on descending qubits: numeric, bound circuit, bound state
        {"kind": "views", "circuit": {"n": 3, "ops": [_x(2), {"g": {"controlled": {"gate": "RY", "angles": [[rat(f(4, 5)), rat(f(3, 5))]]}, "k": 1}, "qs": [2, 0]}]},
         "n_samples": 9, "seed": 6, "operator": zs, "twice": "plain"},
        {"kind": "views", "circuit": {"n": 3, "ops": [_x(2), {"g": {"controlled": {"gate": "RY", "angles": [[rat(f(4, 5)), rat(f(3, 5))]]}, "k": 1}, "qs": [2, 0]}]},
         "n_samples": 9, "seed": 6, "operator": zs, "param": "bind_wf"},
        {"kind": "views", "circuit": {"n": 3, "ops": [_x(2), _x(1), {"g": {"controlled": {"gate": "RX", "angles": [[rat(f(5, 13)), rat(f(12, 13))]]}, "k": 2}, "qs": [1, 2, 0]}]},
         "n_samples": 5, "seed": 6, "operator": zs, "param": "bind_circuit"},
        # same custom-gate name, different matrix, on one simulator
        {"kind": "session", "seed": 13, "container": False, "steps": [
            {"kind": "views", "circuit": {"n": 3, "ops": [_x(0), {"g": {"custom": "cg", "m": _CUSTOM_MATS["cx"]}, "qs": [0, 2]}]},
             "n_samples": 4, "seed": 13, "operator": zs},
            {"kind": "views", "circuit": {"n": 3, "ops": [_x(0), {"g": {"custom": "cg", "m": _CUSTOM_MATS["xc"]}, "qs": [0, 2]}]},
             "n_samples": 4, "seed": 13, "operator": zs}]},
        # one Wavefunction object edited through __setitem__ (amplitudes 1 and 2 exchanged)
        {"kind": "session", "seed": 14, "container": False, "steps": [
            {"kind": "views", "amps": [[0, 0], ["3/5", 0], [0, "4/5"], [0, 0]], "n_samples": 6, "seed": 14,
             "operator": [_term(1, [[0, "Z"]]), _term(1, [[1, "Z"]])], "twice": "poison"},
            {"kind": "views", "amps": [[0, 0], [0, "4/5"], ["3/5", 0], [0, 0]], "n_samples": 6, "seed": 14, "setitem": [1, 2],
             "operator": [_term(1, [[0, "Z"]]), _term(1, [[1, "Z"]])], "twice": "plain"}]},
        # symbolic parameters bound before / after simulation; operator written as strings / padded / bare term
        {"kind": "views", "circuit": c3, "n_samples": 9, "seed": 3, "operator": zs, "param": "bind_circuit", "op_form": "str", "twice": "poison"},
        {"kind": "views", "circuit": c3, "n_samples": 7, "seed": 3, "operator": zs, "param": "bind_wf", "op_form": "pad"},
        {"kind": "views", "circuit": c3, "n_samples": 7, "seed": 3, "operator": [_term(2, [[0, "Z"], [2, "Z"]])], "op_form": "single", "twice": "plain"},
        {"kind": "views", "circuit": c3, "n_samples": 2000, "seed": 3, "operator": zc, "op_form": "iter"},
        # one Measurements object: replaced shots (same number), single edits, extension, histogram, caller-edited results
        {"kind": "meas", "init": {"how": "ctor", "tuples": [[1, 0, 1], [1, 0, 0], [1, 0, 1]]}, "ops": [
            {"q": "counts"}, {"q": "ev", "operator": zs}, {"m": "replace", "tuples": [[1, 1, 1], [0, 1, 0], [1, 1, 1]]},
            {"q": "counts"}, {"q": "ev", "operator": zs}, {"q": "dist"}, {"m": "set", "i": 1, "tuple": [0, 0, 1]},
            {"q": "ev", "operator": zc}, {"q": "counts"}, {"m": "poison"}, {"q": "counts"}, {"q": "dist"},
            {"m": "extend", "tuples": [[0, 0, 0]]}, {"q": "counts"}, {"m": "add_counts", "counts": [["110", 2]]},
            {"q": "ev", "operator": zs}, {"m": "del", "i": 0}, {"q": "dist"}, {"m": "reverse"}, {"q": "counts"}]},
        {"kind": "meas", "init": {"how": "from_counts", "tuples": [[0, 1], [1, 0], [0, 1]]}, "ops": [
            {"q": "ev", "operator": [_term(1, [[0, "Z"]])], "op_form": "single"}, {"m": "replace", "tuples": [[1, 0], [1, 0], [0, 1]]},
            {"q": "ev", "operator": [_term(1, [[0, "Z"]])], "op_form": "single"}, {"q": "counts"}]},
        {"kind": "meas", "init": {"how": "np_int8", "tuples": [[0, 1, 1, 0], [0, 1, 1, 0], [1, 1, 0, 0], [0, 0, 0, 1]]}, "ops": [
            {"q": "counts"}, {"q": "ev", "operator": [_term(1, [[0, "Z"]]), _term(3, [])]}, {"q": "dist"}]},
        # class D: a rare sector of total weight 1e-8 spread over 4 outcomes of 2.5e-9 each; the operator lives there
        {"kind": "views", "circuit": {"n": 3, "ops": [{"g": {"gate": "H", "angles": []}, "qs": [1]},
                                                      _ry((1 - f(1, 20000) ** 2) / (1 + f(1, 20000) ** 2), 2 * f(1, 20000) / (1 + f(1, 20000) ** 2), 0),
                                                      {"g": {"gate": "H", "angles": []}, "qs": [2]}]},
         "n_samples": 9, "seed": 7, "operator": [_term(500000, []), _term(-500000, [[0, "Z"]])], "twice": "plain"},
        {"kind": "views", "amps": [[rat(f(3, 5) * (1 - f(1, 10 ** 6)) / (1 + f(1, 10 ** 6))), 0], [0, rat(f(4, 5) * (1 - f(1, 10 ** 6)) / (1 + f(1, 10 ** 6)))],
                                   [rat(f(3, 5) * f(2, 1000) / (1 + f(1, 10 ** 6))), 0], [rat(-f(4, 5) * f(2, 1000) / (1 + f(1, 10 ** 6))), 0]],
         "n_samples": 5, "seed": 7, "operator": [_term(f(1, 2), []), _term(f(-1, 2), [[0, "Z"]]), _term(f(1, 10 ** 9), [[1, "Z"]])]},
        # nearly balanced huge counts (a mean of 5e-10), one shot next to a billion
        {"kind": "freq", "marked": [0], "freqs": [["01", 10 ** 9 + 1], ["10", 10 ** 9]], "twice": True},
        {"kind": "freq", "marked": [1, 0], "freqs": [["01", 1], ["00", 10 ** 9], ["11", 3 * 10 ** 9]]},
        {"kind": "dist", "probs": [rat(1 - f(3, 2 ** 40)), rat(f(1, 2 ** 40)), 0, rat(f(2, 2 ** 40))], "twice": True},
        # one rare shot among thousands, built from a histogram
        {"kind": "meas", "init": {"how": "from_counts", "tuples": [[1, 0, 1]] * 2999 + [[0, 1, 0]]}, "ops": [
            {"q": "dist"}, {"q": "counts"}, {"q": "ev", "operator": [_term(f(1, 2), []), _term(f(-1, 2), [[1, "Z"]]), _term(10 ** 6, [[0, "Z"], [1, "Z"]])]},
            {"m": "set", "i": 0, "tuple": [1, 1, 1]}, {"q": "dist"}, {"q": "ev", "operator": [_term(f(1, 10 ** 9), [[2, "Z"]])]}]},
        # wide count strings (beyond 64 positions), a zero count, marked qubits as a set
        {"kind": "freq", "marked": [0, 69], "freqs": [["1" + "0" * 69, 3], ["0" * 69 + "1", 2], ["0" * 70, 0]], "marked_as": "set", "twice": True},
        {"kind": "dist", "probs": [0, rat(f(1, 4)), 0, 0, rat(f(1, 4)), 0, rat(f(1, 2)), 0], "as": "list", "twice": True},
    ]
    # ---- origins / storage shapes (round 9): a column-shaped state (ndarray (N,1), sympy Matrix, symbolic state bound afterwards
    # in one / two steps) under a Z-type operator; a custom gate typed in as 0.707107 (total probability 1 + 6e-7)
    a2 = [[0, 0], ["3/5", 0], [0, "4/5"], [0, 0]]
    zq = [_term(1, [[0, "Z"]]), _term(2, [[1, "Z"]]), _term(5, [])]
    cb = {"n": 2, "ops": [_x(1), _ry(f(4, 5), f(3, 5), 0), _ry(f(12, 13), f(5, 13), 1)]}
    h6 = [[["707107/1000000", 0], ["707107/1000000", 0]], [["707107/1000000", 0], ["-707107/1000000", 0]]]
    out += [
        {"kind": "origin", "origin": "column", "amps": a2, "operator": zq, "ns": [3, 9], "seed": 1},
        {"kind": "origin", "origin": "sympy", "amps": a2, "operator": [_term(1, [[0, "X"], [1, "Y"]]), _term(2, [[1, "Z"]])], "ns": [4, 5], "seed": 1},
        {"kind": "origin", "origin": "bind_full", "circuit": cb, "operator": zq, "ns": [3, 9], "seed": 1},
        {"kind": "origin", "origin": "bind_two", "circuit": cb, "operator": [_term(3, [[1, "Z"], [0, "Z"]])], "ns": [1, 5], "seed": 2},
        {"kind": "nearnorm", "how": "gate", "digits": 6, "seed": 1, "ns": [3, 9],
         "circuit": {"n": 3, "ops": [_x(0), {"g": {"custom": "h6", "m": h6}, "qs": [1]}]}},
        {"kind": "nearnorm", "how": "amps", "digits": 7, "seed": 1, "ns": [2, 9],
         "amps": [[0, 0], [0, 0], [0, 0], [0, 0], ["7071068/10000000", 0], [0, 0], [0, "7071068/10000000"], [0, 0]]},
    ]
    return out


_UNIT_VECTORS = [[1], [f for f in (Fraction(3, 5), Fraction(4, 5))], [Fraction(1, 2)] * 4,
                 [Fraction(1, 3), Fraction(2, 3), Fraction(2, 3)], [Fraction(2, 7), Fraction(3, 7), Fraction(6, 7)],
                 [Fraction(5, 13), Fraction(12, 13)], [Fraction(1, 5), Fraction(2, 5), Fraction(2, 5), Fraction(4, 5)]]


def _random_operator(rng, n, ztype=True, allow_wide=False):
    terms = []
    for _ in range(rng.choice([0, 1, 1, 2, 2, 3, 4])):
        k = rng.randrange(0, n + 1) if n else 0
        qs = rng.sample(range(n), k) if n else []
        if allow_wide and rng.random() < 0.5:
            qs = qs + [n + rng.randrange(0, 2)]
        ops = [[q, "Z" if ztype else rng.choice("XYZ")] for q in qs]
        c = Fraction(rng.choice([-1, 1]) * rng.randrange(1, 9), rng.choice([1, 1, 2, 4]))
        if rng.random() < 0.1:
            terms.append(_term([c, Fraction(rng.randrange(-4, 5), 2)], ops))
        elif rng.random() < 0.04:
            terms.append(_term(0, ops))                     # a term with coefficient zero is still a term
        else:
            terms.append(_term(c, ops))
    if terms and rng.random() < 0.06:
        terms.insert(rng.randrange(len(terms) + 1), {"c": list(terms[0]["c"]), "ops": [list(x) for x in terms[0]["ops"]]})  # the same term twice
    return terms


def _product_circuit(rng, n):
    ops = []
    order = list(range(n))
    rng.shuffle(order)
    for q in order:
        r = rng.random()
        if r < 0.35:
            ops.append(_x(q))
        elif r < 0.8:
            a = circ.rat_angle(rng, axis_prob=0.1)
            ops.append({"g": {"gate": "RY", "angles": [a]}, "qs": [q]})
    declared = n if (not ops or rng.random() < 0.6) else None
    return {"n": declared, "ops": ops}


def _general_circuit(rng, n, exact_only):
    names = [g for g in GATES_ANY if circ.BUILTIN_QUBITS[g] <= n]
    if exact_only:
        names = [g for g in names if g in circ.EXACT_FIXED]
    length = rng.randrange(1, 6)
    c = circ.random_circuit(rng, n, length, names=names, custom_prob=0.0)
    if c["n"] is None and not c["ops"]:
        c["n"] = n
    if n >= 2 and rng.random() < 0.5:
        # controlled gates (X, or a rotation: NOT symmetric in its qubits, and parametric) on two, three or more qubits
        # in an arbitrary (rotated, descending, gapped) index order
        k = 1 if n == 2 else rng.choice([1, 2, 2]) if n == 3 else rng.choice([1, 2, 2, 3])
        qs = rng.sample(range(n), k + 1)
        if rng.random() < 0.5:
            base = sorted(qs)
            r = rng.randrange(1, k + 1)
            qs = base[r:] + base[:r]       # a rotated index order
        pre = [{"g": {"gate": "X", "angles": []}, "qs": [q]} for q in qs[:k] if rng.random() < 0.8]
        r = rng.random()
        inner = ({"gate": "X", "angles": []} if r < 0.5 else
                 {"gate": rng.choice(["RY", "RX"]), "angles": [circ.rat_angle(rng, axis_prob=0.05)]})
        c["ops"] = pre + [{"g": {"controlled": inner, "k": k}, "qs": qs}] + c["ops"]
    return c


def _random_amps(rng, n):
    """sparse Gaussian-rational unit vector of length 2^n with an asymmetric support"""
    dim = 2 ** n
    vec = rng.choice([v for v in _UNIT_VECTORS if len(v) <= dim])
    idx = rng.sample(range(dim), len(vec))
    amps = [[0, 0] for _ in range(dim)]
    for i, v in zip(idx, vec):
        ph = rng.choice([(1, 0), (0, 1), (-1, 0), (0, -1)])
        amps[i] = [rat(v * ph[0]), rat(v * ph[1])]
    return amps


def _n_samples(rng, n):
    big = 2 ** n
    return rng.choice([1, 2, max(1, big - 1), big, big + 1, big + 1, 2 * big + 3, rng.randrange(1, 4 * big + 2)])


def _decorate(rng, c):
    """how the same case is driven: once / twice / twice with the returned objects edited in between; how the operator
    is written down; whether the angles are symbols bound before or after the simulation"""
    r = rng.random() * (2.2 if _width(c) >= 5 else 1.0)     # (wide registers: the library's lifting is slow)
    if r < 0.45:
        c["twice"] = "poison"
    elif r < 0.65:
        c["twice"] = "plain"
    if c["operator"] and rng.random() < 0.4:
        form = rng.choice(["iter", "str", "pad", "single"])
        if form != "single" or len(c["operator"]) == 1:
            c["op_form"] = form
    if "circuit" in c and _width(c) <= 3 and len(c["circuit"]["ops"]) <= 4 and rng.random() < 0.3:
        gs = [o["g"].get("controlled", o["g"]) for o in c["circuit"]["ops"]]
        if all("gate" in g for g in gs) and any(g["angles"] for g in gs):
            c["param"] = rng.choice(["bind_circuit", "bind_wf"])
    return c


def _narrow_operator(rng, n):
    """Z-type operator that stops short of the last qubit(s), usually with a constant term"""
    top = rng.randrange(0, max(1, n - 1))          # highest operator qubit <= n-2 (0 for n <= 2)
    terms = []
    if rng.random() < 0.7:
        terms.append(_term(Fraction(rng.choice([-1, 1]) * rng.randrange(1, 9), rng.choice([1, 2, 4])), []))
    for _ in range(rng.randrange(1, 3)):
        qs = sorted(set([top] + [q for q in range(top) if rng.random() < 0.4]), reverse=rng.random() < 0.5)
        terms.append(_term(Fraction(rng.choice([-1, 1]) * rng.randrange(1, 9), rng.choice([1, 2])), [[q, "Z"] for q in qs]))
    rng.shuffle(terms)
    return terms


def _circuit_width(cs):
    return _width({"circuit": cs})


def _sibling(rng, prev, base):
    """a step that differs from `prev` in exactly one component (same seed, run on the same long-lived objects)"""
    import copy
    st = copy.deepcopy({k: v for k, v in prev.items() if k not in ("fresh", "twice", "op_inplace")})
    cs = st["circuit"]
    n = _circuit_width(cs)
    kind = rng.choice(["op", "op", "op_narrow", "wider", "gate+", "gate+", "angle", "ns", "relabel", "rebuild", "same",
                       "custom", "custom", "back", "coeff", "coeff", "op_append", "move", "narrower", "narrower"])
    if kind == "op":
        st["operator"] = _random_operator(rng, n, ztype=rng.random() < 0.9)
    elif kind == "op_narrow":
        st["operator"] = _narrow_operator(rng, n)
    elif kind == "coeff" and st["operator"]:
        # the same Pauli strings with other coefficients (half of the time: the same PauliSum object, edited in place)
        for t in st["operator"]:
            t["c"] = [rat(Fraction(rng.choice([-1, 1]) * rng.randrange(1, 9), rng.choice([1, 2, 4]))), 0]
        st["op_inplace"] = rng.random() < 0.5
    elif kind == "op_append" and st["operator"] and st.get("op_form") != "single":
        # one more term at the end of the same PauliSum object (its public `terms` list)
        st["operator"] = st["operator"] + [rng.choice(_narrow_operator(rng, n) + [_term(3, [[n - 1, "Z"]])])]
        st["op_inplace"] = True
    elif kind == "wider" and n <= 4:
        # one more qubit at the end (idle, or flipped): the same operator object now meets a wider register
        cs["n"] = None if rng.random() < 0.5 else n + 1
        cs["ops"] = cs["ops"] + [_x(n) if rng.random() < 0.6 or cs["n"] is None else {"g": {"gate": "I", "angles": []}, "qs": [n]}]
    elif kind == "narrower" and n >= 2 and all(int(q) < n - 1 for t in st["operator"] for q, _ in t["ops"]):
        # the last qubit goes away: the same operator object now meets a NARROWER register than before
        cs["ops"] = [o for o in cs["ops"] if n - 1 not in o["qs"]]
        cs["n"] = n - 1
        st["n_samples"] = max(1, min(st["n_samples"], 2 ** n))
    elif kind == "gate+" and n >= 1:
        r = rng.random()
        if r < 0.4 or n < 2:
            new = _x(rng.randrange(n))
        elif r < 0.7:
            new = {"g": {"gate": "RY", "angles": [circ.rat_angle(rng, axis_prob=0.1)]}, "qs": [rng.randrange(n)]}
        else:
            new = {"g": {"gate": rng.choice(["CNOT", "SWAP", "CZ"]), "angles": []}, "qs": rng.sample(range(n), 2)}
        pos = rng.choice([0, len(cs["ops"]), rng.randrange(len(cs["ops"]) + 1)])
        cs["ops"] = cs["ops"][:pos] + [new] + cs["ops"][pos:]
    elif kind == "angle":
        idx = [i for i, o in enumerate(cs["ops"]) if o["g"].get("controlled", o["g"]).get("angles")]
        if idx:
            g = cs["ops"][rng.choice(idx)]["g"]
            g = g.get("controlled", g)
            g["angles"] = [_small_angle(rng) if rng.random() < 0.35 else circ.rat_angle(rng, axis_prob=0.1) for _ in g["angles"]]
        else:
            st["fresh"] = True
    elif kind == "move" and cs["ops"] and n >= 2:
        # the same gate on another qubit (tuple) of the same register
        i = rng.randrange(len(cs["ops"]))
        cs["ops"][i]["qs"] = rng.sample(range(n), len(cs["ops"][i]["qs"]))
    elif kind == "ns":
        big_ = 2 ** n
        st["n_samples"] = big_ + 1 + rng.randrange(3) if st["n_samples"] <= big_ else rng.randrange(1, big_ + 1)
    elif kind == "relabel" and n >= 2:
        for o in cs["ops"]:
            o["qs"] = [n - 1 - q for q in o["qs"]]
        if cs.get("n") is None:
            cs["n"] = n
    elif kind == "custom" and n >= 1:
        # a custom gate called "cg": the name stays, the matrix differs from circuit to circuit
        old = [i for i, o in enumerate(cs["ops"]) if "custom" in o["g"]]
        if old:
            i = old[0]
            k = len(cs["ops"][i]["qs"])
            names = [nm for nm, m_ in _CUSTOM_MATS.items() if len(m_) == 2 ** k and m_ != cs["ops"][i]["g"]["m"]]
            cs["ops"][i]["g"] = {"custom": "cg", "m": _CUSTOM_MATS[rng.choice(names)]}
        else:
            k = 2 if n >= 2 and rng.random() < 0.6 else 1
            names = [nm for nm, m_ in _CUSTOM_MATS.items() if len(m_) == 2 ** k]
            cs["ops"] = cs["ops"] + [{"g": {"custom": "cg", "m": _CUSTOM_MATS[rng.choice(names)]}, "qs": rng.sample(range(n), k)}]
    elif kind == "back":
        st = copy.deepcopy({k: v for k, v in base.items() if k not in ("fresh", "twice", "op_inplace")})
    elif kind == "rebuild":
        st["fresh"] = True
    # ("same": the identical step once more)
    r = rng.random()
    if r < 0.35:
        st["twice"] = "poison"
    elif r < 0.5:
        st["twice"] = "plain"
    return st


def _session(rng, max_n):
    n = rng.choice([w for w in [2, 3, 3, 4, 4, 5] if w <= max_n])
    seed = rng.randrange(2 ** 31)
    if rng.random() < 0.6:
        cs = _product_circuit(rng, n)
        cs["n"] = n
    else:
        cs = _general_circuit(rng, n, exact_only=rng.random() < 0.3)
    n = max(n, _circuit_width(cs))
    base = {"kind": "views", "circuit": cs, "n_samples": _n_samples(rng, n), "seed": seed,
            "operator": _narrow_operator(rng, n) if rng.random() < 0.3 else _random_operator(rng, n, ztype=rng.random() < 0.9)}
    if rng.random() < 0.4:
        base["twice"] = rng.choice(["plain", "poison"])
    steps = [base]
    for _ in range(rng.randrange(2, 5)):
        steps.append(_sibling(rng, steps[-1], base))
    return {"kind": "session", "seed": seed, "container": rng.random() < 0.6, "steps": steps,
            "batch": rng.choice([None, "list", "scalar"])}


def _amps_session(rng):
    import copy
    n = rng.choice([2, 2, 3, 3, 4])
    seed = rng.randrange(2 ** 31)
    amps = _random_amps(rng, n)
    step = {"kind": "views", "amps": amps, "n_samples": _n_samples(rng, n), "seed": seed,
            "operator": _random_operator(rng, n, ztype=True)}
    steps = [step]
    for _ in range(rng.randrange(2, 5)):
        st = copy.deepcopy({k: v for k, v in steps[-1].items() if k not in ("twice", "setitem")})
        r = rng.random()
        if r < 0.65:
            # exchange two different amplitudes through Wavefunction.__setitem__ (keeps the norm)
            nz = [i for i, a in enumerate(st["amps"]) if a != [0, 0]]
            i = rng.choice(nz)
            j = rng.choice([x for x in range(len(st["amps"])) if st["amps"][x] != st["amps"][i]] or [i])
            st["amps"][i], st["amps"][j] = st["amps"][j], st["amps"][i]
            st["setitem"] = sorted([i, j]) if i != j else [i]
        elif r < 0.85:
            st["operator"] = _random_operator(rng, n, ztype=True)
            st["setitem"] = []
        else:
            big_ = 2 ** n
            st["n_samples"] = big_ + 1 if st["n_samples"] <= big_ else rng.randrange(1, big_ + 1)
            st["setitem"] = []
        if rng.random() < 0.5:
            st["twice"] = rng.choice(["plain", "poison"])
        steps.append(st)
    return {"kind": "session", "seed": seed, "container": rng.random() < 0.4, "steps": steps}


# ---- class D: tiny-but-legitimate magnitudes (individually negligible, collectively visible; huge next to tiny)
def _small_angle(rng, exps=(2, 2, 3, 3, 4, 4, 5, 6)):
    """rational half-angle point of a VERY small rotation: P[flip] = sh^2 ~ 4 t^2, from ~1e-4 down to ~1e-12"""
    t = Fraction(rng.choice([1, 1, 2, 3, 5]) * rng.choice([-1, 1]), 2 * 10 ** rng.choice(exps))
    return [rat((1 - t * t) / (1 + t * t)), rat(2 * t / (1 + t * t))]


def _tiny_circuit(rng, n, exps=(2, 2, 3, 3, 4, 4, 5, 6), spread=None):
    """product state: one or two qubits rotated by a very small angle (optionally flipped first, so that the COMMON
    value is 1), uniform superposition (H) on `spread` of the others, the rest idle or flipped.  Returns (spec, rotated)"""
    qs = list(range(n))
    rng.shuffle(qs)
    nrot = 1 if n < 3 or rng.random() < 0.6 else 2
    rot, rest = qs[:nrot], qs[nrot:]
    k = len(rest) if spread is None and rng.random() < 0.5 else rng.randrange(0, len(rest) + 1) if spread is None else min(spread, len(rest))
    blocks = []
    for q in rot:
        b = [_x(q)] if rng.random() < 0.3 else []
        blocks.append(b + [{"g": {"gate": "RY", "angles": [_small_angle(rng, exps)]}, "qs": [q]}])
    for q in rest[:k]:
        b = [_x(q)] if rng.random() < 0.2 else []
        blocks.append(b + [{"g": {"gate": "H", "angles": []}, "qs": [q]}])
    for q in rest[k:]:
        if rng.random() < 0.3:
            blocks.append([_x(q)])
    rng.shuffle(blocks)
    return {"n": n, "ops": [o for b in blocks for o in b]}, rot


def _tiny_operator(rng, n, rot):
    """Z-type operators whose expectation lives in the rare sector: c (1 - Z_r)/2, projectors on two rare qubits with
    coefficients up to 1e12, tiny coefficients next to ordinary ones"""
    r = rot[0]
    others = [q for q in range(n) if q not in rot]
    kind = rng.choice(["half", "half", "half_big", "proj2", "z", "zz", "tinycoef", "mixed"])
    if kind == "proj2" and len(rot) < 2:
        kind = "half_big"
    if kind in ("half", "half_big"):
        c = Fraction(1) if kind == "half" else Fraction(10 ** rng.choice([6, 9]))
        sgn = rng.choice([-1, 1])
        return [_term(c / 2, []), _term(sgn * c / 2, [[r, "Z"]])]
    if kind == "proj2":
        a, b = rot[0], rot[1]
        c = Fraction(10 ** rng.choice([6, 12]))
        return [_term(c / 4, []), _term(-c / 4, [[a, "Z"]]), _term(-c / 4, [[b, "Z"]]), _term(c / 4, [[b, "Z"], [a, "Z"]])]
    if kind == "z":
        return [_term(1, [[r, "Z"]])]
    if kind == "zz" and others:
        return [_term(1, [[r, "Z"], [rng.choice(others), "Z"]]), _term(Fraction(1, 2), [[r, "Z"]])]
    if kind == "tinycoef":
        return [_term(Fraction(rng.choice([-3, 1, 7]), 10 ** 9), [[r, "Z"]]), _term(2, [[q, "Z"] for q in sorted(set([r] + others[:1]))]),
                _term(Fraction(1, 10 ** 12), [])]
    return [_term(Fraction(10 ** 6), [[r, "Z"]]), _term(Fraction(1, 10 ** 6), [[q, "Z"] for q in sorted(set(rot + others[:2]))])] \
        + _random_operator(rng, n, ztype=True)[:2]


def _tiny_views(rng, n, exps=(2, 2, 3, 3, 4, 4, 5, 6), ns=None, spread=None):
    cs, rot = _tiny_circuit(rng, n, exps, spread)
    big_ = 2 ** n
    return {"kind": "views", "circuit": cs, "seed": rng.randrange(2 ** 31), "operator": _tiny_operator(rng, n, rot),
            "n_samples": ns if ns is not None else rng.choice([1, max(1, big_ - 1), big_, big_ + 1, 2 * big_ + 3])}


def _tiny_entangled(rng, n):
    """a very small rotation fanned out by CNOTs (a GHZ-like pair of sectors, one of them rare), H on the rest"""
    qs = list(range(n))
    rng.shuffle(qs)
    r = qs[0]
    fan = qs[1:1 + rng.randrange(1, max(2, n - 1))]
    ops = [{"g": {"gate": "RY", "angles": [_small_angle(rng, (2, 3, 3, 4))]}, "qs": [r]}]
    ops += [{"g": {"gate": "CNOT", "angles": []}, "qs": [r, q]} for q in fan]
    ops += [{"g": {"gate": "H", "angles": []}, "qs": [q]} for q in qs[1 + len(fan):] if rng.random() < 0.7]
    big_ = 2 ** n
    return {"kind": "views", "circuit": {"n": n, "ops": ops}, "seed": rng.randrange(2 ** 31),
            "operator": _tiny_operator(rng, n, [r] + fan[:1]), "n_samples": rng.choice([1, big_, big_ + 1, 3 * big_])}


def _tiny_amps(rng, n):
    """explicit Gaussian-rational unit vector whose amplitudes span many orders of magnitude: a Kronecker product of
    (cos, sin) of very small / ordinary rational angles, basis vectors and the uniform rational 2-qubit block (1/2,…)"""
    f = Fraction
    factors, rot, q = [], [], 0
    while q < n:
        r = rng.random()
        if n - q >= 2 and r < 0.35:
            factors.append([f(1, 2)] * 4)
            q += 2
            continue
        if r < 0.65 or not rot and q == n - 1:
            ch, sh = (unrat(x) for x in _small_angle(rng))
            factors.append([ch, sh] if rng.random() < 0.7 else [sh, ch])
            rot.append(q)
        elif r < 0.85:
            factors.append(list(rng.choice([(f(3, 5), f(4, 5)), (f(5, 13), f(12, 13)), (f(4, 5), f(3, 5))])))
        else:
            factors.append(list(rng.choice([(f(1), f(0)), (f(0), f(1))])))
        q += 1
    vec = [(f(1), f(0))]
    for fac in factors:
        new = []
        for (re, im) in vec:
            for x in fac:
                ph = rng.choice([(1, 0), (1, 0), (0, 1), (-1, 0), (0, -1)])
                # (re + i im) * x * phase
                new.append((x * (re * ph[0] - im * ph[1]), x * (re * ph[1] + im * ph[0])))
        vec = new
    big_ = 2 ** n
    return {"kind": "views", "amps": [[rat(re), rat(im)] for re, im in vec], "seed": rng.randrange(2 ** 31),
            "operator": _tiny_operator(rng, n, rot[:2] or [0]),
            "n_samples": rng.choice([1, max(1, big_ - 1), big_ + 1, 2 * big_ + 3])}


def _rand_tuple(rng, w):
    return [rng.randrange(2) for _ in range(w)]


def _meas_case(rng):
    """one Measurements object: queries interleaved with edits of its public `bitstrings`"""
    w = rng.choice([1, 2, 2, 3, 3, 3, 4, 4, 5, 6, 9, 12, 70])
    pool = [_rand_tuple(rng, w) for _ in range(rng.randrange(2, 5))]
    for t in pool[:2]:
        if w >= 2 and t == t[::-1]:
            t[0], t[-1] = 0, 1
    shots = lambda k: [list(rng.choice(pool)) for _ in range(k)]  # noqa: E731
    n0 = rng.randrange(1, 10)
    how = rng.choice(["ctor", "ctor", "ctor", "from_counts", "add_counts", "np_int8", "np_int64"])
    ops_pool = [_narrow_operator(rng, w), _random_operator(rng, min(w, 12), ztype=True) or [_term(1, [[0, "Z"]])],
                [_term(Fraction(rng.randrange(1, 9), 2), [[q, "Z"] for q in sorted(rng.sample(range(w), rng.randrange(1, min(w, 4) + 1)))])]]

    if w >= 9:
        # MANY supports on a wide register: qubit sets whose members mix indices below and above 8 / 16 / 64 (the iteration order
        # of a Python set of ints is not ascending there) – each support and each symmetric difference of two is evaluated
        ww = min(w, 24) if rng.random() < 0.7 else w
        ops_pool.append([_term(Fraction(rng.randrange(1, 9), 2) * rng.choice([1, -1]),
                               [[q, "Z"] for q in rng.sample(range(ww), rng.randrange(2, 5))]) for _ in range(rng.choice([12, 30]))])

    def query():
        r = rng.random()
        if r < 0.35:
            return {"q": "counts"}
        if r < 0.5:
            return {"q": "dist"}
        o = {"q": "ev", "operator": rng.choice(ops_pool)}
        if rng.random() < 0.3:
            form = rng.choice(["iter", "str", "pad", "single"])
            if form != "single" or len(o["operator"]) == 1:
                o["op_form"] = form
        return o

    cur = n0
    ops = [query() for _ in range(rng.randrange(1, 3))]
    for _ in range(rng.randrange(2, 6)):
        r = rng.random()
        if r < 0.35:
            # other shots, the SAME number of them (the object's length does not change)
            if rng.random() < 0.3:
                pool.append(_rand_tuple(rng, w))
            ops.append({"m": "replace", "tuples": shots(cur)})
        elif r < 0.55:
            t = _rand_tuple(rng, w) if rng.random() < 0.5 else list(rng.choice(pool))
            ops.append({"m": "set", "i": rng.randrange(cur), "tuple": t})
        elif r < 0.65:
            k = rng.randrange(1, 4)
            ops.append({"m": "extend", "tuples": shots(k)})
            cur += k
        elif r < 0.75:
            cnts = {}
            for _ in range(rng.randrange(1, 3)):
                cnts["".join(map(str, rng.choice(pool)))] = rng.randrange(1, 4)
            cnts = [[k_, v_] for k_, v_ in cnts.items()]      # a histogram: distinct count strings
            ops.append({"m": "add_counts", "counts": cnts})
            cur += sum(v for _, v in cnts)
        elif r < 0.8 and cur >= 2:
            ops.append({"m": "del", "i": rng.randrange(cur)})
            cur -= 1
            if rng.random() < 0.7:      # … and one other shot in: the length is what it was
                ops.append({"m": "extend", "tuples": [_rand_tuple(rng, w)]})
                cur += 1
        elif r < 0.88:
            ops.append({"m": "reverse"})
        else:
            ops.append({"m": "poison"})
        for _ in range(rng.randrange(1, 3)):
            ops.append(query())
    init = shots(n0)
    if w <= 6 and rng.random() < 0.12:
        # thousands of equal shots and one or two rare ones (the rare outcome has relative frequency ~ 3e-4)
        init = [list(pool[0])] * rng.randrange(2000, 3500) + [list(pool[1])] * rng.randrange(1, 3)
        how = rng.choice(["from_counts", "add_counts", "ctor"])
        ops = [o for o in ops if o.get("m") not in ("replace",)]
    return {"kind": "meas", "init": {"how": how, "tuples": init}, "ops": ops}


def generate(rng, tier):
    big = tier == "thorough"
    # width 6 costs ~0.5 s per case in the exact model (64x64 matrices of Q(zeta8) entries): a small share only
    widths = [1, 2, 2, 3, 3, 4, 4, 5, 5] + ([5, 6] if big else [])
    cases = []
    # asymmetric product states
    for _ in range(350 if big else 80):
        n = rng.choice(widths)
        op = _narrow_operator(rng, n) if rng.random() < 0.15 else _random_operator(rng, n, ztype=rng.random() < 0.85)
        cases.append(_decorate(rng, {"kind": "views", "circuit": _product_circuit(rng, n), "n_samples": _n_samples(rng, n),
                                     "seed": rng.randrange(2 ** 31), "operator": op}))
    # general circuits (entangled states)
    for _ in range(160 if big else 55):
        n = rng.randrange(1, (5 if big else 4) + 1)
        op = _narrow_operator(rng, n) if rng.random() < 0.15 else _random_operator(rng, n, ztype=rng.random() < 0.8)
        cases.append(_decorate(rng, {"kind": "views", "circuit": _general_circuit(rng, n, exact_only=rng.random() < 0.3),
                                     "n_samples": _n_samples(rng, n), "seed": rng.randrange(2 ** 31), "operator": op}))
    # explicit amplitude vectors
    for _ in range(160 if big else 40):
        n = rng.choice(widths)
        cases.append(_decorate(rng, {"kind": "views", "amps": _random_amps(rng, n), "n_samples": _n_samples(rng, n),
                                     "seed": rng.randrange(2 ** 31), "operator": _random_operator(rng, n, ztype=rng.random() < 0.85)}))
    # wide registers (explicit sparse amplitude vectors): both sampling regimes beyond 8 qubits
    for _ in range(12 if big else 4):
        n = rng.choice([9, 10])
        cases.append(_decorate(rng, {"kind": "views", "amps": _random_amps(rng, n), "n_samples": rng.choice([1, 3, 2 ** n - 1, 2 ** n + 1]),
                                     "seed": rng.randrange(2 ** 31), "operator": _random_operator(rng, n, ztype=True)}))
    # wide registers through the simulator (oracle only): few gates on far-apart / descending qubits
    for _ in range(6 if big else 3):
        n = rng.choice([9, 9, 10])
        qs = rng.sample(range(n), 4)
        ops = [_x(qs[0]), {"g": {"gate": "RY", "angles": [circ.rat_angle(rng, axis_prob=0.0)]}, "qs": [qs[1]]},
               {"g": {"gate": "CNOT", "angles": []}, "qs": [qs[1], qs[2]]}]
        if rng.random() < 0.5:
            ops.append(_x(qs[3]))
        zq = [[q, "Z"] for q in rng.sample(qs, 2)]
        cases.append({"kind": "views", "circuit": {"n": n, "ops": ops}, "n_samples": rng.choice([1, 5, 2 ** n + 1]),
                      "seed": rng.randrange(2 ** 31), "operator": [_term(2, zq), _term(Fraction(3, 2), [])]})
    # symbolic angles (the library's second code path): a controlled rotation – not symmetric in its qubits – on
    # descending / rotated / gapped qubits, bound after (bind_wf) or before (bind_circuit) the simulation
    for _ in range(50 if big else 12):
        n = rng.choice([2, 3, 3])
        k = 1 if n == 2 or rng.random() < 0.6 else 2
        qs = rng.sample(range(n), k + 1)
        ops = [_x(q) for q in qs[:k] if rng.random() < 0.85]
        ops.append({"g": {"controlled": {"gate": rng.choice(["RY", "RX"]), "angles": [circ.rat_angle(rng, axis_prob=0.0)]}, "k": k}, "qs": qs})
        if rng.random() < 0.4:
            ops.append({"g": {"gate": "RY", "angles": [circ.rat_angle(rng, axis_prob=0.0)]}, "qs": [rng.randrange(n)]})
        c = {"kind": "views", "circuit": {"n": n, "ops": ops}, "n_samples": _n_samples(rng, n), "seed": rng.randrange(2 ** 31),
             "operator": _random_operator(rng, n, ztype=True), "param": "bind_wf" if rng.random() < 0.7 else "bind_circuit"}
        if rng.random() < 0.4:
            c["twice"] = rng.choice(["plain", "poison"])
        cases.append(c)
    # ---- class D: magnitudes.  Product states with one or two very small rotations x uniform superposition on k others
    # (exact reference: every probability is compared RELATIVELY, zero / non-zero must agree), model-compared up to 6
    # qubits, oracle-only on 9-10 qubits; both sampling regimes; operators that live in the rare sector
    for _ in range(60 if big else 14):
        n = rng.choice([2, 3, 3, 4, 4, 5, 5] + ([6] if big else []))
        c = _tiny_views(rng, n)
        if rng.random() < 0.5:
            c["twice"] = rng.choice(["plain", "poison"])
        if rng.random() < 0.25:
            c["op_form"] = rng.choice(["iter", "str", "pad"])
        cases.append(c)
    for _ in range(5 if big else 2):
        n = rng.choice([9, 9, 10]) if big else 9
        cases.append(_tiny_views(rng, n, exps=(3, 3, 4), ns=rng.choice([3, 2 ** n + 1]), spread=n - 2))  # oracle only
    # many shots on a small register with a rare sector that does get sampled (P ~ 1e-4 … 1e-2)
    for _ in range(8 if big else 3):
        n = rng.choice([2, 3, 4])
        cases.append(_tiny_views(rng, n, exps=(1, 1, 2), ns=rng.choice([2500, 4097])))
    # the rare sector fanned out by CNOTs (entangled; float reference, ABS + REL tolerance)
    for _ in range(30 if big else 6):
        cases.append(_tiny_entangled(rng, rng.choice([2, 3, 4, 5])))
    # explicit amplitudes spanning many orders of magnitude (exact reference), model-compared up to 6 (thorough 7) qubits
    for _ in range(40 if big else 10):
        n = rng.choice([2, 3, 3, 4, 4, 5, 6] + ([6, 7] if big else []))     # (the exact model takes ~2 s at 8 qubits)
        c = _tiny_amps(rng, n)
        if rng.random() < 0.5:
            c["twice"] = rng.choice(["plain", "poison"])
        cases.append(c)
    for _ in range(4 if big else 1):
        cases.append(_tiny_amps(rng, rng.choice([9, 10])))                                                 # oracle only
    # many samples on a small register
    for _ in range(10 if big else 3):
        n = rng.randrange(1, 4)
        cases.append(_decorate(rng, {"kind": "views", "circuit": _product_circuit(rng, n), "n_samples": rng.choice([1000, 4097, 2500]),
                                     "seed": rng.randrange(2 ** 31), "operator": _random_operator(rng, n, ztype=True)}))
    # malformed stream: non-positive sample counts, operators wider than the register
    for _ in range(60 if big else 12):
        n = rng.randrange(1, 4)
        c = {"kind": "views", "circuit": _product_circuit(rng, n), "n_samples": _n_samples(rng, n),
             "seed": rng.randrange(2 ** 31), "operator": _random_operator(rng, n)}
        if rng.random() < 0.5:
            c["n_samples"] = rng.choice([0, -1, -5])
        else:
            c["operator"] = _random_operator(rng, n, allow_wide=True)
        if rng.random() < 0.3:
            c["twice"] = "plain"
        cases.append(c)
    # sibling steps on one simulator / one operator object / one Measurements container
    for _ in range(100 if big else 32):
        cases.append(_session(rng, 5 if big else 4))
    # one Wavefunction object edited in place between the views
    for _ in range(40 if big else 10):
        cases.append(_amps_session(rng))
    # one Measurements object edited between the queries
    for _ in range(300 if big else 50):
        cases.append(_meas_case(rng))
    # frequencies
    for _ in range(500 if big else 70):
        w = rng.choice([1, 2, 3, 4, 5, 6, 6, 9, 12, 33, 64, 65, 70]) if rng.random() < 0.3 else rng.randrange(1, 7)
        nk = rng.randrange(1, min(2 ** w, 6) + 1)
        keys = set()
        while len(keys) < nk:
            keys.add("".join(str(rng.randrange(2)) for _ in range(w)))
        keys = sorted(keys) if rng.random() < 0.3 else rng.sample(sorted(keys), nk)
        freqs = [[k, rng.choice([rng.randrange(1, 40), rng.randrange(1, 40), 10 ** rng.randrange(3, 10) + rng.randrange(100)])] for k in keys]
        if len(freqs) >= 2 and rng.random() < 0.1:
            freqs[rng.randrange(len(freqs))][1] = 0        # an outcome listed with count zero
            if not any(v for _, v in freqs):
                freqs[0][1] = 1
        r = rng.random()
        if len(freqs) >= 2 and r < 0.12:
            # nearly balanced huge counts: a tiny but non-zero mean for parities that split them
            base = 10 ** rng.randrange(6, 12)
            for kv in freqs:
                kv[1] = base + rng.randrange(0, 3)
        elif len(freqs) >= 2 and r < 0.2:
            # one or two shots next to billions
            for kv in freqs:
                kv[1] = 10 ** rng.randrange(8, 12)
            freqs[rng.randrange(len(freqs))][1] = rng.randrange(1, 3)
        marked = rng.sample(range(w), rng.randrange(0, min(w, 8) + 1))
        if rng.random() < 0.1:
            # two outcomes that differ in ONE marked position, almost equally often among billions of shots:
            # the mean is (d1 - d2) / (2 base), tiny and not zero
            q0 = rng.randrange(w)
            a = [rng.randrange(2) for _ in range(w)]
            b = list(a)
            b[q0] ^= 1
            base = 10 ** rng.randrange(6, 12)
            freqs = [["".join(map(str, a)), base + rng.randrange(2, 5)], ["".join(map(str, b)), base + rng.randrange(0, 2)]]
            marked = [q0] + [q for q in marked if q != q0][:3]
            rng.shuffle(marked)
        if rng.random() < 0.3:
            marked.sort(reverse=rng.random() < 0.5)
        c = {"kind": "freq", "marked": marked, "freqs": freqs}
        if rng.random() < 0.1:
            marked.append(w + rng.randrange(0, 2))
        else:
            how = rng.choice([None, None, "tuple", "set", "frozenset", "range"])
            if how == "range":
                if marked and sorted(marked) == list(range(min(marked), max(marked) + 1)):
                    c["marked"] = sorted(marked)
                    c["marked_as"] = how
            elif how:
                c["marked_as"] = how
        if rng.random() < 0.4:
            c["twice"] = True
        cases.append(c)
    # probability vectors (dyadic: exact in doubles)
    for _ in range(200 if big else 30):
        n = rng.choice([6, 7, 8, 9, 10]) if rng.random() < 0.15 else rng.randrange(1, 6)
        dim = 2 ** n
        den = rng.choice([4, 8, 16, 64])
        cuts = sorted(rng.randrange(0, den + 1) for _ in range(min(dim, 5) - 1))
        parts = [b - a for a, b in zip([0] + cuts, cuts + [den])]
        probs = [0] * dim
        for i, p in zip(rng.sample(range(dim), len(parts)), parts):
            probs[i] = rat(Fraction(p, den))
        if rng.random() < 0.25:
            # tiny dyadic weights (exact in doubles, the complement too) next to ordinary ones
            e = rng.choice([30, 34, 40, 45])
            idx = [i for i, p_ in enumerate(probs) if p_ != 0]
            zeros = [i for i, p_ in enumerate(probs) if p_ == 0]
            tiny = [(i, Fraction(rng.randrange(1, 8), 2 ** e)) for i in rng.sample(zeros, min(len(zeros), rng.randrange(1, 4)))]
            if idx and tiny:
                tot = sum(v for _, v in tiny)
                for i, v in tiny:
                    probs[i] = rat(v)
                j = max(idx, key=lambda i: unrat(probs[i]))
                probs[j] = rat(unrat(probs[j]) - tot)
        c = {"kind": "dist", "probs": probs}
        if rng.random() < 0.3:
            c["as"] = "list"
        if rng.random() < 0.4:
            c["twice"] = True
        cases.append(c)
    # WIDE registers through the direct exact-expectation route (oracle only): product states on 17-20 qubits, operator terms on
    # the first, the last and scattered qubits (a bit trick covering 16 bits / an index table of 2^16 entries shows beyond them)
    # (every other case is a purely Z-type operator – the shape a diagonal fast path is written for –, and in every case the early
    #  qubits that carry a term are not in an eigenstate with eigenvalue +1, so ignoring the factor is visible)
    for i_w in range(6 if big else 3):
        n = rng.choice([17, 18, 20] if big else [17, 18])
        state = [rng.choice("01ab") for _ in range(n)]
        all_z = i_w % 2 == 0
        terms = []
        for _t in range(rng.randrange(2, 5)):
            early = rng.choice([0, 1, n - 17])
            qs = sorted(set([early, rng.choice([early, n - 1])] + rng.sample(range(n), rng.randrange(0, 3))))
            if state[early] == "0":
                state[early] = rng.choice("1ab")
            ztype = all_z or rng.random() < 0.7
            terms.append({"ops": [[q, "Z" if ztype or rng.random() < 0.5 else "X"] for q in qs], "c": [rat(Fraction(rng.randrange(-8, 9) or 3, 4)), 0]})
        cases.append({"kind": "wide_exact", "state": "".join(state), "operator": terms})
    # ORIGINS / storage shapes of a state (oracle only): every origin at least twice per run, then at random
    origins = (_ORIGINS_AMPS + _ORIGINS_CIRC) * 2
    for i_o in range(110 if big else 46):
        cases.append(_origin_case(rng, origins[i_o] if i_o < len(origins) else None))
    # states accepted by the constructor whose total probability is 1 only up to ITS tolerance (sampling may refuse them)
    for i_o in range(60 if big else 24):
        cases.append(_nearnorm_case(rng, d=[6, 7, 8, 9][i_o] if i_o < 4 else None, how="gate" if i_o < 4 else None))
    return cases


# ----------------------------------------------------------------------------------------- reference (oracle side)
def _ref_state(case, start=0):
    """numpy reference state of a views case: explicit amplitudes, or the circuit's gates (matrices taken from the
    library) embedded by independent bit manipulation, qubit 0 = most significant bit, applied to basis state `start`"""
    import numpy as np
    if "amps" in case:
        return np.array([_cplx(a) for a in case["amps"]], dtype=complex)
    # (memo of this reference computation only – complete key: the canonical circuit spec and the start index; the
    #  oracle, the second pass and nontrivial() all ask for the same state)
    key = (common.canon(case["circuit"]), start)
    if key in _REF_MEMO:
        return _REF_MEMO[key]
    state = _ref_state_uncached(case, start)
    state.setflags(write=False)
    if len(_REF_MEMO) > 20000:
        _REF_MEMO.clear()
    _REF_MEMO[key] = state
    return state


_REF_MEMO = {}


def _ref_state_uncached(case, start):
    import numpy as np
    n = _width(case)
    state = np.zeros(2 ** n, dtype=complex)
    state[start] = 1
    for o in case["circuit"]["ops"]:
        if "custom" in o["g"]:
            mat = circ.numpy_matrix(o["g"]["m"])       # the matrix the circuit's author wrote down
        else:
            mat = circ.impl_matrix_to_numpy(circ.build_gate(o["g"]).matrix)
        state = circ.embed_reference(mat, o["qs"], n) @ state
    return state


_EXACT_MEMO = {}


def _exact_probs(c):
    """(probabilities as Fractions, amplitudes as python complex) indexed MSB-first, where both can be written down
    EXACTLY without the library and double arithmetic is accurate to ~1e-15 RELATIVE on every entry (each amplitude is a
    single product, no cancellation):  explicit Gaussian-rational amplitude vectors;  circuits made of one-qubit gates
    X / Z / I and at most ONE H or ONE RY(rational half-angle point) per qubit.  None otherwise."""
    if "amps" in c:
        ps = [unrat(a[0]) ** 2 + unrat(a[1]) ** 2 for a in c["amps"]]
        return ps, [_cplx(a) for a in c["amps"]]
    key = common.canon(c["circuit"])
    if key in _EXACT_MEMO:
        return _EXACT_MEMO[key]
    n = _width(c)
    vec = [[Fraction(1), Fraction(0)] for _ in range(n)]
    halves = [0] * n            # number of 1/sqrt(2) factors per qubit
    mixing = [0] * n
    ok = n <= 12
    for o in c["circuit"]["ops"]:
        g = o["g"]
        if not ok or "gate" not in g or len(o["qs"]) != 1 or g["gate"] not in ("X", "Z", "I", "H", "RY"):
            ok = False
            break
        q = o["qs"][0]
        a, b = vec[q]
        if g["gate"] == "X":
            vec[q] = [b, a]
        elif g["gate"] == "Z":
            vec[q] = [a, -b]
        elif g["gate"] == "H":
            vec[q] = [a + b, a - b]
            halves[q] += 1
            mixing[q] += 1
        elif g["gate"] == "RY":
            ch, sh = unrat(g["angles"][0][0]), unrat(g["angles"][0][1])
            vec[q] = [ch * a - sh * b, sh * a + ch * b]
            mixing[q] += 1
        if mixing[q] > 1:
            ok = False
    res = None
    if ok:
        h = sum(halves)
        pq = [[v[0] ** 2 / 2 ** halves[q], v[1] ** 2 / 2 ** halves[q]] for q, v in enumerate(vec)]
        fv = [[float(v[0]), float(v[1])] for v in vec]
        ps, amps = [], []
        for i in range(2 ** n):
            bits = _msb_bits(i, n)
            pr, am = Fraction(1), 1.0
            for q, bq in enumerate(bits):
                pr *= pq[q][bq]
                am *= fv[q][bq]
            ps.append(pr)
            amps.append(complex(am / 2 ** (h / 2)))
        res = (ps, amps)
    if len(_EXACT_MEMO) > 5000:
        _EXACT_MEMO.clear()
    _EXACT_MEMO[key] = res
    return res


def _prob_wrong(got, p_float, p_exact):
    """None, or why the reported probability `got` is not the probability of that outcome.  With an exact reference:
    relative 1e-10, and exactly-zero / non-zero must agree; otherwise ABS + REL * p against the float reference."""
    if p_exact is not None:
        if p_exact == 0:
            return None if abs(got) <= ZERO else f"reported {got!r}, the exact probability is 0"
        pe = float(p_exact)
        if got == 0:
            return f"reported 0, the exact probability is {pe!r} (not zero)"
        return None if abs(got - pe) <= REL * pe else f"reported {got!r}, the exact probability is {pe!r} (relative error {abs(got - pe) / pe:.2e})"
    if abs(got - p_float) > ABS + REL * p_float:
        return f"reported {got!r}, |amplitude|^2 is {p_float!r}"
    if p_float >= 1e-24 and got == 0:
        return f"reported 0, |amplitude|^2 is {p_float!r} (not zero)"
    return None


def _state_wrong(wf, ref, amps_exact):
    """index of the first amplitude of `wf` that is not the reference amplitude (magnitude-aware), or None"""
    import numpy as np
    if wf.shape != ref.shape:
        return 0
    if amps_exact is not None:
        ex = np.array(amps_exact, dtype=complex)
        bad = np.abs(wf - ex) > REL * np.abs(ex) + ZERO ** 0.5
        bad |= (np.abs(ex) >= 1e-150) & (wf == 0)
    else:
        bad = np.abs(wf - ref) > ABS + REL * np.abs(ref)
        bad |= (np.abs(ref) >= 1e-12) & (wf == 0)
    idx = np.nonzero(bad)[0]
    return int(idx[0]) if len(idx) else None


_PAULI = None


def _pauli_np():
    global _PAULI
    if _PAULI is None:
        import numpy as np
        _PAULI = {"I": np.eye(2, dtype=complex), "X": np.array([[0, 1], [1, 0]], dtype=complex),
                  "Y": np.array([[0, -1j], [1j, 0]], dtype=complex), "Z": np.array([[1, 0], [0, -1]], dtype=complex)}
    return _PAULI


def _ref_expectation(opspec, state, n):
    """psi^dagger (sum_t c_t kron_q sigma_q) psi with qubit 0 the leftmost factor; Z-type terms by eigenvalues"""
    import numpy as np
    total = 0j
    probs = np.abs(state) ** 2
    for t in opspec:
        c = _cplx(t["c"])
        ops = {int(q): p for q, p in t["ops"]}
        if all(p == "Z" for p in ops.values()):
            ev = 0.0
            for i in range(len(state)):
                b = _msb_bits(i, n)
                ev += probs[i] * (-1) ** sum(b[q] for q in ops)
            total += c * ev
        else:
            m = np.array([[1]], dtype=complex)
            for q in range(n):
                m = np.kron(m, _pauli_np()[ops.get(q, "I")])
            total += c * (np.conj(state) @ (m @ state))
    return total


def _reversal_invariant(probs, n):
    for i, p in enumerate(probs):
        j = _index_of(tuple(reversed(_msb_bits(i, n))))
        if abs(p - probs[j]) > 1e-12:
            return False
    return True


def nontrivial(c):
    import numpy as np
    k = c["kind"]
    if k == "wide_exact":
        return True
    if k in ("origin", "nearnorm"):
        n = _width(c)
        return n >= 2 and not _reversal_invariant(np.abs(_ref_state(c)) ** 2, n)
    if k == "views":
        n = _width(c)
        if n < 2:
            return False
        st = _ref_state(c)
        return not _reversal_invariant(np.abs(st) ** 2, n)
    if k == "freq":
        w = len(c["freqs"][0][0])
        if w < 2 or not c["marked"]:
            return False
        d = {s: v for s, v in c["freqs"]}
        return any(d.get(s[::-1], 0) != v for s, v in d.items())
    if k == "dist":
        n = int(math.log2(len(c["probs"])))
        return n >= 2 and not _reversal_invariant([float(unrat(p)) for p in c["probs"]], n)
    if k == "session":
        return len(c["steps"]) >= 2 and any(nontrivial(st) for st in c["steps"])
    if k == "meas":
        trace, _ = _meas_trace(c)
        seen_q, mutated_between = False, False
        for o in c["ops"]:
            if "q" in o:
                mutated_between = mutated_between or (seen_q == "m")
                seen_q = seen_q or True
            elif seen_q and o["m"] != "poison":
                seen_q = "m"
        asym = any(len(t) >= 2 and st.count(t) != st.count(t[::-1]) for _, st in trace for t in st)
        return mutated_between and asym
    return False


# ----------------------------------------------------------------------------------------- implementation
def _canon_samples(bitstrings):
    out = []
    for t in bitstrings:
        if not isinstance(t, tuple):
            out.append({"nontuple": repr(t)[:40]})
        else:
            out.append([int(b) for b in t])
    return out


def _canon_kv(d, keyf):
    return [[keyf(k), float(v)] for k, v in d.items()]


def _bits_of_key(key):
    return [int(b) for b in key]


def _observe(m, c, h, poison, backwards):
    """one pass over every view the property names, on the long-lived objects in `h`.  With `poison`, every object the
    library hands back is edited by the caller right after it was recorded (a correct library never sees that again)."""
    np = m["np"]
    ns, seed, op = c["n_samples"], c["seed"], h["op"]
    out = {}

    def see_wf():
        wf = _stage(h["wf"])
        if _is_err(wf):
            out["wf"] = wf
            return
        # (a Wavefunction obtained by binding a symbolic one stores its amplitudes as a column: flattened here)
        amps = np.array(wf.amplitudes, dtype=complex).reshape(-1)
        out["wf"] = [[float(a.real), float(a.imag)] for a in amps]
        out["n_qubits"] = int(wf.n_qubits)
        probs = wf.get_outcome_probs()
        out["outcome_probs"] = [[str(k), float(np.ravel(v)[0])] for k, v in probs.items()]
        if h.get("wf0") is not None:
            # the documented default written out: initial_state = |0…0>
            w0 = _stage(h["wf0"])
            out["wf0"] = w0 if _is_err(w0) else [[float(a.real), float(a.imag)]
                                                 for a in np.array(w0.amplitudes, dtype=complex).reshape(-1)]
        if h.get("wfk") is not None:
            # … and another basis state as the input (index = seed mod 2^n)
            wk = _stage(h["wfk"])
            out["wfk"] = wk if _is_err(wk) else [[float(a.real), float(a.imag)]
                                                 for a in np.array(wk.amplitudes, dtype=complex).reshape(-1)]
        if poison:
            probs.clear()
            pr = wf.get_probabilities()
            if isinstance(pr, np.ndarray) and pr.ndim == 1:
                pr[:] = pr[::-1].copy()
            if not h["wf_is_state"] and isinstance(wf.amplitudes, np.ndarray):
                a = wf.amplitudes      # a fresh result object: the simulator must not look at it again
                a[:] = a[::-1].copy()

    def see_dist():
        d = _stage(h["dist"])
        out["dist"] = d if _is_err(d) else _canon_kv(d.distribution_dict, _bits_of_key)
        if poison and not _is_err(d):
            d.distribution_dict.clear()

    def see_meas():
        meas = _stage(h["meas"])
        if _is_err(meas):
            out["samples"] = out["counts"] = out["measured"] = out["mdist"] = meas
            return
        box = h.get("box")
        if box is not None:
            # ONE long-lived Measurements container, refilled with the shots of every run (same number or not)
            if box.get("obj") is None:
                box["obj"] = meas
            else:
                box["obj"].bitstrings = meas.bitstrings
            meas = box["obj"]
        out["samples"] = _canon_samples(meas.bitstrings)
        cnt = _stage(meas.get_counts)
        out["counts"] = cnt if _is_err(cnt) else [[str(k), int(v)] for k, v in cnt.items()]
        if poison and not _is_err(cnt):
            cnt.clear()
            cnt["2" * max(1, len(out["samples"][0]) if out["samples"] else 1)] = 7
        ev = _stage(lambda: meas.get_expectation_values(op))
        out["measured"] = ev if _is_err(ev) else [[float(complex(v).real), float(complex(v).imag)] for v in ev.values]
        if poison and not _is_err(ev):
            try:
                ev.values[...] = 7.0
            except Exception:
                pass
        if h.get("bessel") and len(meas.bitstrings) >= 2:
            # Bessel's correction concerns the covariances only: the values are the same
            evb = _stage(lambda: meas.get_expectation_values(op, use_bessel_correction=True))
            out["measured_b"] = evb if _is_err(evb) else [[float(complex(v).real), float(complex(v).imag)] for v in evb.values]
        md = _stage(meas.get_distribution) if len(meas.bitstrings) else {"err": "err:empty", "msg": ""}
        out["mdist"] = md if _is_err(md) else _canon_kv(md.distribution_dict, _bits_of_key)
        if poison and not _is_err(md):
            md.distribution_dict.clear()
        if poison:
            cnt2 = _stage(meas.get_counts)
            out["counts2"] = cnt2 if _is_err(cnt2) else [[str(k), int(v)] for k, v in cnt2.items()]
            if box is None:
                # the caller scribbles over the shots it was given; the next run must not hand them out again
                meas.bitstrings[:] = [tuple(1 - int(b) for b in t) for t in meas.bitstrings]
        if h.get("edist") is not None:
            ed = _stage(h["edist"])
            out["edist"] = ed if _is_err(ed) else _canon_kv(ed.distribution_dict, _bits_of_key)

    def see_exact():
        if h.get("decoy"):
            # a DECOY use of the same long-lived operator object through another public route (the other basis-state
            # convention: bit-reversed state + reverse_operator=True – mathematically the same number); not judged here,
            # but whatever the library remembers about the operator from it must not reach the view asked for next
            try:
                wfd = h["wf"]()
                a = np.array(wfd.amplitudes, dtype=complex).reshape(-1)
                nq = max(len(a).bit_length() - 1, 0)
                rev = [int(format(i, "0%db" % nq)[::-1], 2) if nq else 0 for i in range(len(a))]
                m["get_ev"](op, m["Wavefunction"](a[rev]), reverse_operator=True)
            except Exception:
                pass
        ex = _stage(h["exact"])
        out["exact"] = ex if _is_err(ex) else float(ex)
        if h.get("exact_on_wf"):
            # the same number through the other public route: get_expectation_value on the Wavefunction object obtained by
            # binding the simulator's symbolic state afterwards (stored as a column); for a numeric circuit
            # get_exact_expectation_values IS get_wavefunction + get_expectation_value
            def on_wf():
                v = m["get_ev"](op, h["wf"]())
                if np.size(v) != 1:
                    raise ValueError(f"not a number but an array of shape {np.shape(v)}")
                return complex(np.ravel(v)[0]).real
            ex = _stage(on_wf)
            out["exact_wf"] = ex if _is_err(ex) else float(ex)

    steps = [see_wf, see_dist, see_meas, see_exact]
    for f in (reversed(steps) if backwards else steps):
        f()
    if _is_err(out.get("wf")):
        return {"wf": out["wf"]}
    # glue for the model: the indices rng.choice drew (trusted law, see TRUSTED[0]); same call shape as the code
    if _is_err(out["samples"]):
        out["draws"] = []
    else:
        p = [x for _, x in out["outcome_probs"]]
        dim = len(out["wf"])
        if dim < ns:
            out["draws"] = [int(i) for i in np.random.default_rng(seed).choice(dim + 1, size=ns, p=p + [0])]
        else:
            out["draws"] = [int(i) for i in np.random.default_rng(seed).choice(dim, size=ns, p=p)]
    return out


def _run_views(m, c, env):
    """the views of one case; `env` carries the long-lived objects of a session (simulator, operator and circuit
    objects by spec, Measurements container, Wavefunction)"""
    np = m["np"]
    ns, seed = c["n_samples"], c["seed"]
    ops_reg = env.setdefault("operators", {})
    okey = common.canon([c["operator"], c.get("op_form")])
    last = env.get("last_op")
    if c.get("op_inplace") and last is not None and _inplace_ok(last[1], c["operator"]) and last[2] == c.get("op_form") \
            and isinstance(last[0], m["PauliSum"]) and isinstance(last[0].terms, list):
        # the SAME PauliSum object, edited through its public attributes (term.coefficient, sum.terms)
        obj, old_spec = last[0], last[1]
        for term_obj, t in zip(obj.terms, c["operator"]):
            z = _cplx(t["c"])
            term_obj.coefficient = z.real if z.imag == 0 else z
        for t in c["operator"][len(old_spec):]:
            obj.terms.append(_build_term(m, t, c.get("op_form")))
        for k_ in [k_ for k_, v_ in ops_reg.items() if v_ is obj]:
            del ops_reg[k_]
        ops_reg[okey] = obj
    elif c.get("fresh") or okey not in ops_reg:
        ops_reg[okey] = _build_operator(m, c["operator"], c.get("op_form"))
    op = ops_reg[okey]
    env["last_op"] = (op, c["operator"], c.get("op_form"))
    h = {"op": op, "box": env.get("box"), "bessel": bool(c.get("twice")),
         "decoy": bool(c.get("twice")) or "sim" in env or "wf" in env or c["seed"] % 3 == 0}
    if "amps" in c:
        wf = env.get("wf")
        if wf is not None and c.get("setitem") is not None:
            # the SAME Wavefunction object, edited through __setitem__ (fancy index: a permutation of amplitudes)
            idx = [int(i) for i in c["setitem"]]
            r = _stage(lambda: wf.__setitem__(idx, [_cplx(c["amps"][i]) for i in idx]))
            if _is_err(r):
                return {"wf": r}
        else:
            wf = _stage(lambda: m["Wavefunction"](np.array([_cplx(a) for a in c["amps"]], dtype=complex)))
            if _is_err(wf):
                return {"wf": wf}
            if "wf" in env:
                env["wf"] = wf
        h.update(wf=lambda: wf, wf_is_state=True,
                 dist=lambda: m["create_dist"](wf.get_probabilities()),
                 meas=lambda: m["Measurements"](m["sample"](wf, ns, seed)),
                 exact=lambda: m["get_ev"](op, wf).real)
    else:
        circ_reg = env.setdefault("circuits", {})
        ckey = common.canon([c["circuit"], c.get("param")])
        if c.get("fresh") or ckey not in circ_reg:
            circ_reg[ckey] = _build_circuit(m, c["circuit"], c.get("param"))
        circuit, smap = circ_reg[ckey]
        sim = env.get("sim")
        if sim is None:
            sim = m["Sim"](seed=seed)
            if "sim" in env:
                env["sim"] = sim
        if smap is None:
            get_wf = lambda: sim.get_wavefunction(circuit)  # noqa: E731
            numeric = circuit
        elif c["param"] == "bind_wf":
            # symbolic simulation, numbers substituted into the state afterwards
            get_wf = lambda: sim.get_wavefunction(circuit).bind(smap)  # noqa: E731
            numeric = circuit.bind(smap)
        else:
            numeric = circuit.bind(smap)
            get_wf = lambda: sim.get_wavefunction(numeric)  # noqa: E731
        h.update(wf=get_wf, wf_is_state=False, exact_on_wf=c.get("param") == "bind_wf",
                 dist=lambda: sim.get_measurement_outcome_distribution(numeric, None),
                 meas=lambda: sim.run_and_measure(numeric, ns),
                 exact=lambda: sim.get_exact_expectation_values(numeric, op))
        if ns >= 1 and c.get("twice"):
            h["edist"] = lambda: sim.get_measurement_outcome_distribution(numeric, ns)
        if c.get("twice") and numeric.n_qubits >= 1:
            def wf0():
                e0 = np.zeros(2 ** numeric.n_qubits, dtype=complex)
                e0[0] = 1
                return sim.get_wavefunction(numeric, initial_state=e0)
            h["wf0"] = wf0

            def wfk():
                ek = np.zeros(2 ** numeric.n_qubits, dtype=complex)
                ek[seed % len(ek)] = 1
                return sim.get_wavefunction(numeric, initial_state=ek)
            h["wfk"] = wfk
        if "numerics" in env:
            env["numerics"].append(numeric)
    poison = c.get("twice") == "poison"
    out = _observe(m, c, h, poison, backwards=False)
    if c.get("twice") and "samples" in out:
        for extra in ("wf0", "wfk", "edist"):       # (observed once, in the first pass)
            h.pop(extra, None)
        h["bessel"] = False
        out["again"] = _observe(m, c, h, poison, backwards=True)
    return out


def _inplace_ok(old_spec, new_spec):
    """new_spec = old_spec with other coefficients and / or more terms at the end"""
    return (0 < len(old_spec) <= len(new_spec)
            and all(a["ops"] == b["ops"] for a, b in zip(old_spec, new_spec)))


def _np_tuple(np, t, how):
    if how == "np_int8":
        return tuple(np.int8(b) for b in t)
    if how == "np_int64":
        return tuple(np.int64(b) for b in t)
    return tuple(int(b) for b in t)


def _counts_in_order(tuples):
    d = {}
    for t in tuples:
        s = "".join(str(int(b)) for b in t)
        d[s] = d.get(s, 0) + 1
    return d


def _run_meas(m, c):
    """one Measurements object through a history of edits of its public `bitstrings` and of queries"""
    np = m["np"]
    init = c["init"]
    how = init.get("how", "ctor")
    tuples = [tuple(t) for t in init["tuples"]]
    if how == "from_counts":
        meas = m["Measurements"].from_counts(_counts_in_order(tuples))
    elif how == "add_counts":
        meas = m["Measurements"]()
        meas.add_counts(_counts_in_order(tuples))
    else:
        meas = m["Measurements"]([_np_tuple(np, t, how) for t in tuples])
    ops_reg = {}
    res, last = [], {}
    for o in c["ops"]:
        if "q" in o:
            if o["q"] == "counts":
                r = _stage(meas.get_counts)
                last["counts"] = r
                res.append(r if _is_err(r) else [[str(k), int(v)] for k, v in r.items()])
            elif o["q"] == "dist":
                r = _stage(meas.get_distribution)
                last["dist"] = r
                res.append(r if _is_err(r) else _canon_kv(r.distribution_dict, _bits_of_key))
            else:
                key = common.canon([o["operator"], o.get("op_form")])
                if key not in ops_reg:
                    ops_reg[key] = _build_operator(m, o["operator"], o.get("op_form"))
                r = _stage(lambda: meas.get_expectation_values(ops_reg[key]))
                last["ev"] = r
                res.append(r if _is_err(r) else [[float(complex(v).real), float(complex(v).imag)] for v in r.values])
            continue
        k = o["m"]
        if k == "replace":
            meas.bitstrings = [tuple(t) for t in o["tuples"]]
        elif k == "set":
            meas.bitstrings[o["i"]] = tuple(o["tuple"])
        elif k == "extend":
            meas.bitstrings += [tuple(t) for t in o["tuples"]]
        elif k == "add_counts":
            meas.add_counts({s_: v for s_, v in o["counts"]})
        elif k == "del":
            del meas.bitstrings[o["i"]]
        elif k == "reverse":
            meas.bitstrings.reverse()
        elif k == "poison":
            # the caller edits what it was handed by the previous queries
            r = last.get("counts")
            if isinstance(r, dict) and not _is_err(r):
                for key in list(r):
                    r[key] += 3
                r["2"] = 1
            r = last.get("dist")
            if r is not None and not _is_err(r):
                r.distribution_dict.clear()
            r = last.get("ev")
            if r is not None and not _is_err(r):
                try:
                    r.values[...] = 7.0
                except Exception:
                    pass
    return {"q": res, "final": _canon_samples(meas.bitstrings)}


def _run_session(m, c):
    env = {"sim": None, "operators": {}, "circuits": {}}
    if c.get("container"):
        env["box"] = {"obj": None}
    if c["steps"] and "amps" in c["steps"][0]:
        env["wf"] = None
    if c.get("batch"):
        env["numerics"] = []
    outs = []
    for st in c["steps"]:
        try:
            outs.append(_run_views(m, st, env))
        except Exception as e:  # recorded per step; the oracle fails the step
            outs.append({"exc": type(e).__name__, "msg": str(e)[:200]})
    res = {"steps": outs}
    if c.get("batch") and len(env["numerics"]) == len(c["steps"]) and env.get("sim") is not None:
        # the circuits of all steps once more, as ONE batch on the same simulator
        nss = [st["n_samples"] for st in c["steps"]]
        arg = nss[0] if c["batch"] == "scalar" and len(set(nss)) == 1 else nss
        ms = _stage(lambda: env["sim"].run_batch_and_measure(env["numerics"], arg))
        res["batch"] = ms if _is_err(ms) else [_canon_samples(x.bitstrings) for x in ms]
    return res


def _marked_as(marked, how):
    if how == "tuple":
        return tuple(marked)
    if how == "set":
        return set(marked)
    if how == "frozenset":
        return frozenset(marked)
    if how == "range":
        return range(marked[0], marked[-1] + 1) if marked else range(0)
    return list(marked)


_QSTATE = {"0": (1.0, 0.0), "1": (0.0, 1.0), "a": (0.6, 0.8), "b": (0.8, -0.6)}   # real one-qubit states (Pythagorean)


def _run_wide_exact(m, c):
    """exact expectation of a product state on a WIDE register (17-20 qubits, 2^n amplitudes built here with numpy, qubit 0 the
    most significant bit) through get_expectation_value; twice on the same operator object"""
    np = m["np"]
    vec = np.array([1.0])
    for ch in c["state"]:
        vec = np.kron(vec, np.array(_QSTATE[ch]))
    wf = m["Wavefunction"](vec.astype(complex))
    op = _build_operator(m, c["operator"], None)
    out = {}
    for name in ("exact", "exact2"):
        r = _stage(lambda: m["get_ev"](op, wf))
        out[name] = r if _is_err(r) else float(complex(r).real)
    return out


def run_impl(c):
    m = _mods()
    np = m["np"]
    k = c["kind"]
    if k == "freq":
        freqs = {s: v for s, v in c["freqs"]}
        marked = _marked_as(c["marked"], c.get("marked_as"))
        r = _stage(lambda: m["freq_ev"](marked, freqs))
        if _is_err(r):
            return r
        out = {"value": float(r)}
        if c.get("twice"):
            # the same argument objects again (a function that consumed / reordered / rewrote them shows here)
            r2 = _stage(lambda: m["freq_ev"](marked, freqs))
            out["value2"] = r2 if _is_err(r2) else float(r2)
        return out
    if k == "dist":
        vec = [float(unrat(p)) for p in c["probs"]]
        arg = vec if c.get("as") == "list" else np.array(vec)
        d = m["create_dist"](arg)
        out = {"dist": _canon_kv(d.distribution_dict, _bits_of_key)}
        if c.get("twice"):
            d.distribution_dict.clear()
            d2 = m["create_dist"](arg)
            out["dist2"] = _canon_kv(d2.distribution_dict, _bits_of_key)
        return out
    if k == "meas":
        return _run_meas(m, c)
    if k == "session":
        return _run_session(m, c)
    if k == "wide_exact":
        return _run_wide_exact(m, c)
    if k in ("origin", "nearnorm"):
        try:
            return _run_origin(m, c) if k == "origin" else _run_nearnorm(m, c)
        except Exception as e:  # recorded; the oracle fails the case
            return {"exc": type(e).__name__, "msg": str(e)[:200]}
    return _run_views(m, c, {})


# ----------------------------------------------------------------------------------------- origins of a state (round 9)
# Every view the property equates, taken on a Wavefunction of every ORIGIN / storage shape the library produces or accepts
# (oracle only: the exact model is history- and shape-free, it has nothing to add to the flat-array cases above).
_ORIGINS_AMPS = ["list", "column", "sympy", "sympy_float", "setitem", "slice", "column_setitem", "column_slice", "flip",
                 "flip_column", "saveload", "saveload_column"]
_ORIGINS_CIRC = ["bind_full", "bind_two", "bind_saveload", "bind_flip", "bind_setitem"]


def _bitrev(n):
    return [_index_of(tuple(reversed(_msb_bits(i, n)))) for i in range(2 ** n)]


def _dense_amps(rng, n):
    """dense Gaussian-rational unit vector: a Kronecker product of Pythagorean one-qubit states with phases (no qubit balanced)"""
    f = Fraction
    vec = [(f(1), f(0))]
    for _ in range(n):
        a, b = rng.choice([(f(3, 5), f(4, 5)), (f(5, 13), f(12, 13)), (f(4, 5), f(3, 5)), (f(8, 17), f(15, 17)), (f(0), f(1))])
        new = []
        for (re, im) in vec:
            for x in (a, b):
                ph = rng.choice([(1, 0), (1, 0), (0, 1), (-1, 0), (0, -1)])
                new.append((x * (re * ph[0] - im * ph[1]), x * (re * ph[1] + im * ph[0])))
        vec = new
    return [[rat(re), rat(im)] for re, im in vec]


def _origin_operator(rng, n):
    r = rng.random()
    if r < 0.4:
        op = _random_operator(rng, n, ztype=True)
    elif r < 0.6:
        op = _narrow_operator(rng, n)                                   # Z-type + constant, narrower than the register
    elif r < 0.7:
        op = [_term(Fraction(rng.randrange(1, 9), 2), [])]              # a constant
    elif r < 0.8:
        op = [_term(Fraction(rng.randrange(1, 9), 2) * rng.choice([-1, 1]), [[rng.randrange(n), "Z"]])]   # one non-constant Z term
    else:
        op = _random_operator(rng, n, ztype=False)
    return op or [_term(2, [[n - 1, "Z"]]), _term(Fraction(1, 2), [])]


def _origin_case(rng, origin=None):
    n = rng.choice([1, 2, 2, 3, 3, 3, 4])
    origin = origin or rng.choice(_ORIGINS_AMPS + _ORIGINS_CIRC + ["bind_full", "bind_two", "column", "sympy"])
    big_ = 2 ** n
    c = {"kind": "origin", "origin": origin, "seed": rng.randrange(2 ** 31), "operator": _origin_operator(rng, n),
         "ns": [rng.choice([1, max(1, big_ - 1), big_]), rng.choice([big_ + 1, 2 * big_ + 3])]}
    if origin in _ORIGINS_CIRC:
        n = min(n, 3)
        ops = []
        order = list(range(n))
        rng.shuffle(order)
        for q in order:
            if rng.random() < 0.3:
                ops.append(_x(q))
            if rng.random() < 0.75:
                ops.append({"g": {"gate": rng.choice(["RY", "RY", "RX"]), "angles": [circ.rat_angle(rng, axis_prob=0.0)]}, "qs": [q]})
        while sum(1 for o in ops if o["g"].get("angles")) < 2:
            ops.append({"g": {"gate": "RY", "angles": [circ.rat_angle(rng, axis_prob=0.0)]}, "qs": [rng.randrange(n)]})
        if n >= 2 and rng.random() < 0.4:
            qs = rng.sample(range(n), 2)
            ops.insert(rng.randrange(len(ops) + 1), {"g": {"gate": "CNOT", "angles": []}, "qs": qs})
        c["circuit"] = {"n": n, "ops": ops}
        c["operator"] = _origin_operator(rng, n)
        c["ns"] = [rng.choice([1, max(1, 2 ** n - 1), 2 ** n]), rng.choice([2 ** n + 1, 2 * 2 ** n + 3])]
    else:
        c["amps"] = _dense_amps(rng, n) if rng.random() < 0.5 else _random_amps(rng, n)
        if origin in ("setitem", "column_setitem", "slice", "column_slice"):
            i, j = (sorted(rng.sample(range(big_), 2)) if big_ >= 2 else (0, 0))
            c["edit"] = [i, j]
    return c


def _origin_wavefunction(m, c):
    """the Wavefunction of case `c`, obtained the way c['origin'] says (every step is a public constructor / method)"""
    import os
    import tempfile
    import sympy
    np = m["np"]
    W = m["Wavefunction"]
    origin = c["origin"]

    def saveload(wf):
        fd, path = tempfile.mkstemp(suffix=".json")
        os.close(fd)
        try:
            m["save_wf"](wf, path)
            return m["load_wf"](path)
        finally:
            os.unlink(path)

    if "circuit" in c:
        circuit, smap = _build_circuit(m, c["circuit"], param=True)
        sim = m["Sim"](seed=c["seed"])
        sym = sim.get_wavefunction(circuit)
        keys = list(smap)
        if origin == "bind_two":
            # one symbol first, the others afterwards (the intermediate state still has free symbols)
            wf = sym.bind({keys[0]: smap[keys[0]]}).bind({k: smap[k] for k in keys[1:]})
        else:
            wf = sym.bind(smap)
        if origin == "bind_saveload":
            wf = saveload(wf)
        elif origin == "bind_flip":
            wf = m["flip_wf"](m["flip_wf"](wf))          # reversing the qubit order twice is the identity
        elif origin == "bind_setitem":
            a = np.array(wf.amplitudes, dtype=complex)
            wf[0:len(a)] = a                               # (same storage shape) an assignment of the amplitudes the state already has
        return wf, sim, circuit.bind(smap)
    amps = [_cplx(a) for a in c["amps"]]
    n = _width(c)
    flat = np.array(amps, dtype=complex)
    if origin == "list":
        return W(list(amps)), None, None
    if origin == "column":
        return W(flat.reshape(-1, 1)), None, None
    if origin == "sympy":
        return W(sympy.Matrix([sympy.Rational(str(unrat(a[0]))) + sympy.I * sympy.Rational(str(unrat(a[1]))) for a in c["amps"]])), None, None
    if origin == "sympy_float":
        return W(sympy.Matrix([complex(a) for a in amps])), None, None
    if origin in ("setitem", "column_setitem", "slice", "column_slice"):
        i, j = c["edit"]
        start = flat.copy()
        col = origin.startswith("column")
        if origin.endswith("setitem"):
            start[[i, j]] = start[[j, i]]
            wf = W(start.reshape(-1, 1) if col else start)
            vals = flat[[i, j]]
            wf[[i, j]] = vals.reshape(-1, 1) if col else vals            # a permutation keeps the norm
        else:
            start[i:j + 1] = start[i:j + 1][::-1].copy()
            wf = W(start.reshape(-1, 1) if col else start)
            vals = flat[i:j + 1]
            wf[i:j + 1] = vals.reshape(-1, 1) if col else vals
        return wf, None, None
    if origin in ("flip", "flip_column"):
        rev = flat[_bitrev(n)]
        return m["flip_wf"](W(rev.reshape(-1, 1) if origin == "flip_column" else rev)), None, None
    if origin in ("saveload", "saveload_column"):
        return saveload(W(flat.reshape(-1, 1) if origin == "saveload_column" else flat)), None, None
    raise AssertionError(origin)


def _sample_views(m, samples, op):
    """what a caller derives from sampled tuples: the tuples, their count strings, the measured expectation values"""
    if _is_err(samples):
        return {"samples": samples}
    meas = m["Measurements"](samples)
    cnt = _stage(meas.get_counts)
    ev = _stage(lambda: meas.get_expectation_values(op))
    return {"samples": _canon_samples(samples),
            "counts": cnt if _is_err(cnt) else [[str(k), int(v)] for k, v in cnt.items()],
            "measured": ev if _is_err(ev) else [[float(complex(v).real), float(complex(v).imag)] for v in ev.values]}


def _run_origin(m, c):
    np = m["np"]
    r = _stage(lambda: _origin_wavefunction(m, c))
    if _is_err(r):
        return {"wf": r}
    wf, sim, numeric = r
    op = _build_operator(m, c["operator"], None)
    raw = wf.amplitudes
    amps = np.array(raw, dtype=complex).reshape(-1)
    n = _width(c)
    out = {"wf": [[float(a.real), float(a.imag)] for a in amps], "shape": list(np.shape(raw)), "n_qubits": int(wf.n_qubits)}

    def cx(v):
        v = complex(np.ravel(v)[0]) if np.size(v) == 1 else None
        return None if v is None else [v.real, v.imag]

    def value(f):
        v = _stage(f)
        if _is_err(v):
            return v
        if np.size(v) != 1:
            return {"err": "err:shape", "msg": f"not a number but an array of shape {np.shape(v)}"}
        return cx(v)

    out["exact"] = value(lambda: m["get_ev"](op, wf))
    if len(amps) == 2 ** n:
        # the other basis-state convention: the bit-reversed state (same storage shape) + reverse_operator=True
        out["exact_rev"] = value(lambda: m["get_ev"](op, m["Wavefunction"](np.array(raw, dtype=complex)[_bitrev(n)]), reverse_operator=True))
    if sim is not None:
        out["exact_sim"] = value(lambda: sim.get_exact_expectation_values(numeric, op))
    pr = _stage(wf.get_probabilities)
    out["probs"] = pr if _is_err(pr) else [float(x) for x in np.ravel(pr)]
    opr = _stage(wf.get_outcome_probs)
    out["outcome_probs"] = opr if _is_err(opr) else [[str(k), float(np.ravel(v)[0])] for k, v in opr.items()]
    if not _is_err(pr):
        d = _stage(lambda: m["create_dist"](np.ravel(pr)))
        out["dist"] = d if _is_err(d) else _canon_kv(d.distribution_dict, _bits_of_key)
    for name, ns in zip(("few", "many"), c["ns"]):
        out[name] = _sample_views(m, _stage(lambda: m["sample"](wf, ns, c["seed"])), op)
    return out


def _oracle_samples(n, probs, opspec, ns, view, where, nonzero=None):
    """sentences about sampled tuples: count, length = register width, non-zero exact probability, count strings use position
    q for qubit q, measured expectation of a Z-type term = eigenvalue average over the shots"""
    smp = view["samples"]
    if len(smp) != ns:
        return (_sig(n, "sample-count"), f"{where}: {len(smp)} samples returned, {ns} requested")
    for t in smp:
        if isinstance(t, dict):
            return (_sig(n, "sample-not-tuple"), f"{where}: sampled outcome is not a tuple: {t}")
        if len(t) != n:
            return (_sig(n, "sample-length"), f"{where}: sampled tuple {t} has length {len(t)}, register width {n}")
        if any(b not in (0, 1) for b in t) or not (nonzero[_index_of(t)] if nonzero is not None else probs[_index_of(t)] >= 1e-24):
            return (_sig(n, "sample-zero-prob"), f"{where}: sampled tuple {tuple(t)} has exact probability 0 (qubit q of the circuit / amplitude index "
                    f"bit q from the left = position q of the tuple; outcomes with non-zero probability: "
                    f"{[_msb_bits(i, n) for i in range(2 ** n) if probs[i] >= 1e-24][:8]})")
    if "counts" in view:
        cnt = {}
        for t in smp:
            s = "".join(str(b) for b in t)
            cnt[s] = cnt.get(s, 0) + 1
        if _is_err(view["counts"]) or dict(map(tuple, view["counts"])) != cnt:
            return (_sig(n, "counts-key"), f"{where}: get_counts {view['counts']} but position-q strings of the samples give {cnt}")
    if opspec is not None and "measured" in view and n >= 1 and all(int(q) < n for t in opspec for q, _ in t["ops"]) \
            and all(p == "Z" for t in opspec for _, p in t["ops"]):
        if _is_err(view["measured"]) or len(view["measured"]) != len(opspec):
            return (_sig(n, "measured-expectation"), f"{where}: Measurements.get_expectation_values: {str(view['measured'])[:200]}")
        for t, v in zip(opspec, view["measured"]):
            wantv = _cplx(t["c"]) * float(_parity_avg([int(q) for q, _ in t["ops"]], smp))
            if abs(complex(v[0], v[1]) - wantv) > 1e-12 * abs(_cplx(t["c"])):
                return (_sig(n, "measured-expectation"), f"{where}: term {t}: value from measurements {v}, eigenvalue average over the shots {wantv}")
    return None


def _oracle_origin(c, out):
    import numpy as np
    n = _width(c)
    how = f"Wavefunction of origin `{c['origin']}`"
    if _is_err(out.get("wf")):
        return (_sig(n, "origin-raise"), f"{how} could not be obtained: {out['wf']}")
    how += f" (amplitudes stored with shape {out.get('shape')})"
    ref = _ref_state(c)
    probs = np.abs(ref) ** 2
    wf = np.array([complex(a[0], a[1]) for a in out["wf"]])
    bad = _state_wrong(wf, ref, None)
    if bad is not None or out.get("n_qubits") != n:
        return (_sig(n, "wavefunction-qubit-order"), f"{how}: {out.get('n_qubits')} qubits, amplitudes {wf.tolist()[:8]} but the state is {ref.tolist()[:8]} on {n} qubits")
    for name in ("probs", "outcome_probs", "dist"):
        if name not in out or _is_err(out[name]):
            return (_sig(n, "origin-raise"), f"{how}: {name} raised / missing: {out.get(name)}")
    if len(out["probs"]) != 2 ** n or any(_prob_wrong(g, p, None) for g, p in zip(out["probs"], probs)):
        return (_sig(n, "outcome-probs-values"), f"{how}: get_probabilities {out['probs'][:8]} but |amplitude|^2 is {probs.tolist()[:8]}")
    if len(out["outcome_probs"]) != 2 ** n or any(_prob_wrong(g, p, None) for g, p in zip(sorted(v for _, v in out["outcome_probs"]), sorted(probs))):
        return (_sig(n, "outcome-probs-values"), f"{how}: the values of get_outcome_probs {out['outcome_probs'][:8]} are not the outcome probabilities {probs.tolist()[:8]}")
    got = {tuple(kv[0]): kv[1] for kv in out["dist"]}
    for i in range(2 ** n):
        b = _msb_bits(i, n)
        why = "no such key" if b not in got else _prob_wrong(got[b], probs[i], None)
        if why or len(got) != 2 ** n:
            return (_sig(n, "dist-key-order"), f"{how}: exact distribution at {b} (basis index {i}): {why}")
    opspec = c["operator"]
    scale = 1 + sum(abs(_cplx(t["c"])) for t in opspec)
    if all(int(q) < n for t in opspec for q, _ in t["ops"]):
        ztype = all(p == "Z" for t in opspec for _, p in t["ops"])
        if ztype:
            want = 0j
            for t in opspec:
                qs_ = [int(q) for q, _ in t["ops"]]
                want += _cplx(t["c"]) * math.fsum(got[_msb_bits(i, n)] * (-1) ** sum(_msb_bits(i, n)[q] for q in qs_) for i in range(2 ** n))
            what = "the average of its eigenvalues under the exact outcome distribution of the same state"
        else:
            want = complex(_ref_expectation(opspec, ref, n))
            what = "psi^dagger O psi with qubit 0 the leftmost factor"
        for name, route in (("exact", "get_expectation_value(operator, wavefunction)"),
                            ("exact_rev", "get_expectation_value(operator, bit-reversed wavefunction, reverse_operator=True)"),
                            ("exact_sim", "simulator.get_exact_expectation_values(bound circuit, operator)")):
            if name not in out:
                continue
            v = out[name]
            if _is_err(v):
                return (_sig(n, "exact-raise"), f"{how}: {route} raised {v}")
            z = complex(v[0], v[1])
            if name == "exact_sim":
                z, w_ = complex(z.real, 0), complex(want.real, 0)
            else:
                w_ = want
            if abs(z - w_) > 1e-12 * scale + REL * abs(w_):
                return (_sig(n, "exact-expectation"), f"{how}: {route} = {z!r} for the {'Z-type' if ztype else 'general'} operator {opspec} but {what} is {w_!r}")
    for name, ns in zip(("few", "many"), c["ns"]):
        view = out[name]
        where = f"{how}: sample_from_wavefunction(wf, {ns}) ({'fewer samples than' if ns < 2 ** n else 'as many samples as' if ns == 2 ** n else 'more samples than'} basis states)"
        if _is_err(view["samples"]):
            return (_sig(n, "sample-raise"), f"{where} raised {view['samples']}")
        r = _oracle_samples(n, probs, opspec, ns, view, where)
        if r:
            return r
    return None


# ---- states the Wavefunction constructor ACCEPTS although their total probability is 1 only up to its own tolerance
# (np.isclose: ~1e-5): amplitudes rounded to 6-9 decimals, a custom gate entered as 0.707107.  rng.choice is stricter (~1.5e-8);
# the unchanged library then raises ValueError on every sampling route.  Whatever a route RETURNS is judged by the property.
def _dec(x, d):
    return Fraction(f"{x:.{d}f}")


def _asym_support(rng, n, k):
    """k basis indices whose qubit-reversed images are (if possible) not in the set"""
    best = None
    for _ in range(40):
        s = rng.sample(range(2 ** n), k)
        rev = _bitrev(n)
        clash = sum(1 for i in s if rev[i] in s)
        if best is None or clash < best[0]:
            best = (clash, s)
        if clash == 0:
            break
    return best[1]


def _nearnorm_case(rng, how=None, d=None):
    n = rng.choice([2, 3, 3, 4])
    d = d or rng.choice([6, 6, 7, 7, 8, 9])
    how = how or rng.choice(["amps", "amps_column", "gate", "gate"])
    big_ = 2 ** n
    c = {"kind": "nearnorm", "how": how, "digits": d, "seed": rng.randrange(2 ** 31),
         "ns": [rng.choice([1, 2, max(1, big_ - 1), big_]), rng.choice([big_ + 1, 2 * big_ + 3, 50])]}
    if how.startswith("amps"):
        k = rng.choice([x for x in (2, 3, 3, 5, 6, 7) if x <= big_ // 2 or x == 2])
        amps = [[0, 0] for _ in range(big_)]
        for i in _asym_support(rng, n, k):
            v = _dec(1 / math.sqrt(k), d)
            ph = rng.choice([(1, 0), (0, 1), (-1, 0), (0, -1)])
            amps[i] = [rat(v * ph[0]), rat(v * ph[1])]
        c["amps"] = amps
    else:
        # basis state by X gates, ONE qubit (sometimes two, from 7 decimals on) put into superposition by a custom gate whose
        # matrix is the Hadamard matrix as somebody would type it in; optionally fanned out by a CNOT
        h = _dec(1 / math.sqrt(2), d)
        hm = [[[rat(h), 0], [rat(h), 0]], [[rat(h), 0], [rat(-h), 0]]]
        for _ in range(40):
            qs = list(range(n))
            rng.shuffle(qs)
            nh = 2 if d >= 7 and n >= 3 and rng.random() < 0.3 else 1
            ops = [_x(q) for q in qs[nh:] if rng.random() < 0.6]
            for q in qs[:nh]:
                ops.append({"g": {"custom": f"h{d}", "m": hm}, "qs": [q]})
            if rng.random() < 0.4 and n > nh:
                ops.append({"g": {"gate": "CNOT", "angles": []}, "qs": [qs[0], qs[nh]]})
            # support by a small independent simulation on bit tuples
            sup = {tuple([0] * n)}
            for o in ops:
                g = o["g"]
                if g.get("gate") == "X":
                    sup = {tuple(b ^ 1 if q == o["qs"][0] else b for q, b in enumerate(t)) for t in sup}
                elif "custom" in g:
                    sup = {tuple(v if q == o["qs"][0] else b for q, b in enumerate(t)) for t in sup for v in (0, 1)}
                else:
                    a, b_ = o["qs"]
                    sup = {tuple(b ^ t[a] if q == b_ else b for q, b in enumerate(t)) for t in sup}
            if not any(tuple(reversed(t)) in sup for t in sup):
                break
        c["circuit"] = {"n": n, "ops": ops}
    return c


def _run_nearnorm(m, c):
    np = m["np"]
    few, many = c["ns"]
    seed = c["seed"]
    out = {}

    def tuples(x):
        return x if _is_err(x) else _canon_samples(x)

    if "amps" in c:
        flat = np.array([_cplx(a) for a in c["amps"]], dtype=complex)
        wf = _stage(lambda: m["Wavefunction"](flat.reshape(-1, 1) if c["how"] == "amps_column" else flat))
        if _is_err(wf):
            return {"ctor": wf}
        out["total"] = float(np.sum(wf.get_probabilities()))
    else:
        circuit = circ.build_circuit(c["circuit"])
        sim = m["Sim"](seed=seed)
        wf = _stage(lambda: sim.get_wavefunction(circuit))
        if _is_err(wf):
            return {"ctor": wf}
        out["total"] = float(np.sum(wf.get_probabilities()))
        out["run_few"] = tuples(_stage(lambda: sim.run_and_measure(circuit, few).bitstrings))
        out["run_many"] = tuples(_stage(lambda: sim.run_and_measure(circuit, many).bitstrings))
        b = _stage(lambda: [x.bitstrings for x in sim.run_batch_and_measure([circuit, circuit], [many, few])])
        out["batch_many"], out["batch_few"] = (b, b) if _is_err(b) else (tuples(b[0]), tuples(b[1]))
        ed = _stage(lambda: sim.get_measurement_outcome_distribution(circuit, many))
        out["edist_many"] = ed if _is_err(ed) else _canon_kv(ed.distribution_dict, _bits_of_key)
    out["wf"] = [[float(a.real), float(a.imag)] for a in np.array(wf.amplitudes, dtype=complex).reshape(-1)]
    out["sample_few"] = tuples(_stage(lambda: m["sample"](wf, few, seed)))
    out["sample_many"] = tuples(_stage(lambda: m["sample"](wf, many, seed)))
    return out


_NEAR_ROUTES = {"sample_few": "sample_from_wavefunction(wf, {few})", "sample_many": "sample_from_wavefunction(wf, {many})",
                "run_few": "simulator.run_and_measure(circuit, {few})", "run_many": "simulator.run_and_measure(circuit, {many})",
                "batch_few": "simulator.run_batch_and_measure([circuit, circuit], [{many}, {few}])[1]",
                "batch_many": "simulator.run_batch_and_measure([circuit, circuit], [{many}, {few}])[0]"}


def _oracle_nearnorm(c, out):
    import numpy as np
    n = _width(c)
    if "ctor" in out:
        return None      # the constructor refused the state: outside the property's domain
    ref = _ref_state(c)
    probs = np.abs(ref) ** 2
    few, many = c["ns"]
    what = (f"state accepted by Wavefunction() with total probability {out.get('total')!r} "
            f"({'amplitudes' if 'amps' in c else 'custom gate matrix'} rounded to {c['digits']} decimals)")
    wf = np.array([complex(a[0], a[1]) for a in out["wf"]])
    if _state_wrong(wf, ref, None) is not None:
        return (_sig(n, "wavefunction-qubit-order"), f"{what}: amplitudes {wf.tolist()[:8]} but the state is {ref.tolist()[:8]}")
    for name, route in _NEAR_ROUTES.items():
        if name not in out:
            continue
        v = out[name]
        if _is_err(v):
            if v["err"] == "err:value":
                continue     # refused ("Probabilities do not sum to 1"): no outcome was reported, nothing to judge
            return (_sig(n, "sample-raise"), f"{what}: {route.format(few=few, many=many)} raised {v}")
        ns = few if name.endswith("few") else many
        r = _oracle_samples(n, probs, None, ns, {"samples": v}, f"{what}: {route.format(few=few, many=many)}")
        if r:
            return r
    ed = out.get("edist_many")
    if ed is not None and not _is_err(ed):
        for key, v in ed:
            if len(key) != n or (v != 0 and probs[_index_of(key)] < 1e-24):
                return (_sig(n, "sample-zero-prob"), f"{what}: get_measurement_outcome_distribution(circuit, {many}) reports outcome {tuple(key)} "
                        f"with frequency {v}; its exact probability is 0 / its length is not the register width {n}")
    return None


# ----------------------------------------------------------------------------------------- model side
def _driver_op(o):
    g = o["g"]
    if "controlled" in g:
        # multiply-controlled X / RY / RX: the exact matrix is written out here, independently of the library
        # (identity except for the 2x2 block of the target when every control is 1; (ch, sh) = (cos θ/2, sin θ/2))
        inner = g["controlled"]
        d = 2 ** (g["k"] + 1)
        m = [[[1 if r == c2 else 0, 0] for c2 in range(d)] for r in range(d)]
        if inner["gate"] == "X":
            assert inner["angles"] == []
            blk = [[[0, 0], [1, 0]], [[1, 0], [0, 0]]]
        else:
            ch, sh = (unrat(x) for x in inner["angles"][0])
            if inner["gate"] == "RY":
                blk = [[[rat(ch), 0], [rat(-sh), 0]], [[rat(sh), 0], [rat(ch), 0]]]
            else:
                assert inner["gate"] == "RX"
                blk = [[[rat(ch), 0], [0, rat(-sh)]], [[0, rat(-sh)], [rat(ch), 0]]]
        for a in range(2):
            for b in range(2):
                m[d - 2 + a][d - 2 + b] = blk[a][b]
        return {"m": m, "qs": o["qs"]}
    if "custom" in g:
        return {"m": g["m"], "qs": o["qs"]}
    return {"gate": g["gate"], "angles": g["angles"], "qs": o["qs"]}


def _views_request(c, out):
    if _width(c) > 8:
        return None  # wide registers: the exact model is too slow there; judged by the oracle only
    payload = {"n_samples": c["n_samples"], "draws": out.get("draws", []) if isinstance(out, dict) else [],
               "operator": c["operator"]}
    if "amps" in c:
        payload["amps"] = c["amps"]
    else:
        payload["n"] = c["circuit"].get("n")
        payload["ops"] = [_driver_op(o) for o in c["circuit"]["ops"]]
    return ("views", payload)


def _meas_trace(c):
    """[(query op, the tuples the object holds at that moment)] – from the case alone (no library code)"""
    how = c["init"].get("how", "ctor")
    st = [tuple(int(b) for b in t) for t in c["init"]["tuples"]]
    if how in ("from_counts", "add_counts"):
        # built from a histogram: the shots are grouped by count string, in first-occurrence order
        order = []
        for t in st:
            if t not in order:
                order.append(t)
        st = [t for u in order for t in [u] * st.count(u)]
    trace = []
    for o in c["ops"]:
        if "q" in o:
            trace.append((o, list(st)))
            continue
        k = o["m"]
        if k == "replace":
            st = [tuple(t) for t in o["tuples"]]
        elif k == "set":
            st[o["i"]] = tuple(o["tuple"])
        elif k == "extend":
            st = st + [tuple(t) for t in o["tuples"]]
        elif k == "add_counts":
            for s_, v in o["counts"]:
                st = st + [tuple(int(b) for b in s_)] * v
        elif k == "del":
            st = st[:o["i"]] + st[o["i"] + 1:]
        elif k == "reverse":
            st = st[::-1]
    return trace, st


def requests(c, out):
    k = c["kind"]
    if k == "freq":
        return [("freq", {"marked": c["marked"], "freqs": c["freqs"]})]
    if k == "dist":
        return [("dist", {"probs": c["probs"]})]
    if k == "meas":
        return [("meas", {"shots": [list(t) for t in st], "operator": o.get("operator", [])}) for o, st in _meas_trace(c)[0]]
    if k == "wide_exact":
        return []   # (oracle only: the exact model is not asked for 2^17 amplitudes)
    if k in ("origin", "nearnorm"):
        return []   # (oracle only: the model is shape- and origin-free; it has no notion of a nearly normalised state)
    if k == "session":
        outs = out.get("steps", []) if isinstance(out, dict) else []
        rs = []
        for i, st in enumerate(c["steps"]):
            r = _views_request(st, outs[i] if i < len(outs) else {})
            assert r is not None
            rs.append(r)
        return rs
    r = _views_request(c, out)
    return [] if r is None else [r]


def _status(x):
    return x["err"] if _is_err(x) else None


def _cmp_kv(name, impl, model, keyf):
    if _is_err(impl):
        return f"{name}: implementation raised {impl} , model {str(model)[:80]}"
    if [keyf(kv[0]) for kv in impl] != [keyf(kv[0]) for kv in model]:
        return f"{name}: keys/order differ: impl {[kv[0] for kv in impl][:8]} model {[kv[0] for kv in model][:8]}"
    for (k1, v1), (_, v2) in zip(impl, model):
        mv = common.cyc_to_complex(v2)
        if abs(v1 - mv) > ABS + REL * abs(mv):
            return f"{name}: value at key {k1}: impl {v1!r} model {mv!r}"
        if abs(mv) >= 1e-24 and v1 == 0:
            return f"{name}: value at key {k1}: impl reports 0, the exact model value {mv!r} is not zero"
    return None


def _cmp_measured(name, mi, mm, coeffs):
    if _is_err(mi) or isinstance(mm, str):
        if _status(mi) != (mm if isinstance(mm, str) else None):
            return f"{name}: impl {str(mi)[:100]} model {str(mm)[:100]}"
        return None
    if len(mi) != len(mm):
        return f"{name}: {len(mi)} values, model {len(mm)}"
    for a, b, cf in zip(mi, mm, coeffs):
        # coefficient x (exact shot average): relative to the coefficient
        if abs(complex(a[0], a[1]) - common.cyc_to_complex(b)) > 1e-12 * abs(cf):
            return f"{name}: impl {mi} model {[common.cyc_to_complex(x) for x in mm]}"
    return None


def _cmp_mdist(name, mi, mm):
    if _is_err(mi) or isinstance(mm, str):
        if _status(mi) != (mm if isinstance(mm, str) else None):
            return f"{name}: impl {str(mi)[:100]} model {str(mm)[:100]}"
        return None
    if [kv[0] for kv in mi] != [kv[0] for kv in mm]:
        return f"{name}: keys/order differ: impl {[kv[0] for kv in mi][:8]} model {[kv[0] for kv in mm][:8]}"
    for (k1, v1), (_, v2) in zip(mi, mm):
        if abs(v1 - float(unrat(v2))) > 1e-12:
            return f"{name}: value at key {k1}: impl {v1} model {v2}"
    return None


def _compare_pass(c, out, r, tag=""):
    msg = _cmp_kv(tag + "get_outcome_probs", out["outcome_probs"], r["outcome_probs"], str)
    if msg:
        return msg
    msg = _cmp_kv(tag + "exact distribution", out["dist"], r["dist"], list)
    if msg:
        return msg
    for name, mname in (("samples", "samples"), ("counts", "counts"), ("counts2", "counts")):
        if name not in out:
            continue
        mi, mm = out[name], r[mname]
        if _is_err(mi) or isinstance(mm, str):
            if _status(mi) != (mm if isinstance(mm, str) else None):
                return f"{tag}{name}: impl {str(mi)[:100]} model {str(mm)[:100]}"
        elif mi != mm:
            return f"{tag}{name}: impl {str(mi)[:160]} model {str(mm)[:160]} (draws {out.get('draws')})"
    scale = 1 + sum(abs(_cplx(t["c"])) for t in c["operator"])
    coeffs = [_cplx(t["c"]) for t in c["operator"]]
    msg = _cmp_measured(tag + "Measurements.get_expectation_values", out["measured"], r["measured"], coeffs)
    if msg:
        return msg
    if "measured_b" in out:
        msg = _cmp_measured(tag + "Measurements.get_expectation_values(bessel)", out["measured_b"], r["measured"], coeffs)
        if msg:
            return msg
    if "mdist" in out and "mdist" in r and not (_is_err(out["mdist"]) and out["mdist"]["err"] == "err:empty"):
        for name in ("mdist", "edist"):
            if name in out:
                msg = _cmp_mdist(tag + ("Measurements.get_distribution" if name == "mdist" else
                                        "get_measurement_outcome_distribution(circuit, n)"), out[name], r["mdist"])
                if msg:
                    return msg
    mi, mm = out["exact"], r["exact"]
    if _is_err(mi) or isinstance(mm, str):
        if _status(mi) != (mm if isinstance(mm, str) else None):
            return f"{tag}get_exact_expectation_values: impl {str(mi)[:100]} model {str(mm)[:100]}"
    elif abs(mi - common.cyc_to_complex(mm).real) > 1e-13 * scale + REL * abs(common.cyc_to_complex(mm).real):
        return f"{tag}get_exact_expectation_values: impl {mi!r} model {common.cyc_to_complex(mm).real!r}"
    return None


def _compare_views(c, out, r):
    if isinstance(r, dict) and "driver_error" in r:
        return "driver error: " + r["driver_error"]
    if not isinstance(out, dict) or "wf" not in out:
        return f"implementation produced no wavefunction: {out}"
    mw, iw = r.get("wf"), out["wf"]
    if isinstance(mw, str) or _is_err(iw):
        if (mw if isinstance(mw, str) else None) != _status(iw):
            return f"wavefunction: impl {str(iw)[:100]} model {str(mw)[:100]}"
        return None
    for tag, o in (("", out), ("second pass: ", out.get("again"))):
        if o is None:
            continue
        iw = o["wf"]
        if _is_err(iw):
            return f"{tag}wavefunction: impl {str(iw)[:100]} model has one"
        if len(mw) != len(iw):
            return f"{tag}wavefunction length: impl {len(iw)} model {len(mw)}"
        for name in ("wf", "wf0"):
            if name not in o:
                continue
            if _is_err(o[name]) or len(o[name]) != len(mw):
                return f"{tag}{name}: impl {str(o[name])[:100]} model has {len(mw)} amplitudes"
            for i, (a, b) in enumerate(zip(o[name], mw)):
                mv = common.cyc_to_complex(b)
                if abs(complex(a[0], a[1]) - mv) > ABS + REL * abs(mv) or (abs(mv) >= 1e-12 and a[0] == 0 and a[1] == 0):
                    return f"{tag}{name} amplitude {i}: impl {a} model {mv!r}"
        msg = _compare_pass(c, o, r, tag)
        if msg:
            return msg
    return None


def compare(c, out, resp):
    r = resp[0]
    if isinstance(r, dict) and "driver_error" in r:
        return "driver error: " + r["driver_error"]
    k = c["kind"]
    if k == "freq":
        if _is_err(out) or isinstance(r, str) and r.startswith("err:"):
            if _status(out) != (r if isinstance(r, str) and r.startswith("err:") else None):
                return f"get_expectation_value_from_frequencies: impl {out} model {r}"
            return None
        for name in ("value", "value2"):
            if name == "value2" and name not in out:
                continue
            if name not in out or _is_err(out[name]) or abs(out[name] - float(unrat(r))) > 1e-14:
                return f"get_expectation_value_from_frequencies ({name}): impl {out} model {r}"
        return None
    if k == "dist":
        want = [[kv[0], float(unrat(kv[1]))] for kv in r]
        for name in ("dist", "dist2"):
            if name == "dist2" and name not in out:
                continue
            got = [[kv[0], kv[1]] for kv in out.get(name, [])]
            if got != want:
                return f"create_bitstring_distribution… ({name}): impl {got[:6]} model {want[:6]}"
        return None
    if k == "meas":
        if not isinstance(out, dict) or "q" not in out:
            return f"implementation produced no query results: {out}"
        trace, _ = _meas_trace(c)
        if len(out["q"]) != len(trace) or len(resp) != len(trace):
            return "number of query results differs"
        for i, ((o, st), got, rr) in enumerate(zip(trace, out["q"], resp)):
            if isinstance(rr, dict) and "driver_error" in rr:
                return "driver error: " + rr["driver_error"]
            tag = f"query {i} ({o['q']}) after the history: "
            if o["q"] == "counts":
                if _is_err(got) or got != rr["counts"]:
                    return f"{tag}get_counts impl {str(got)[:120]} model {str(rr['counts'])[:120]}"
            elif o["q"] == "dist":
                if not st:
                    continue
                msg = _cmp_mdist(tag + "get_distribution", got, rr["mdist"])
                if msg:
                    return msg
            else:
                msg = _cmp_measured(tag + "get_expectation_values", got, rr["measured"], [_cplx(t["c"]) for t in o["operator"]])
                if msg:
                    return msg
        return None
    if k == "session":
        outs = out.get("steps") if isinstance(out, dict) else None
        if outs is None or len(outs) != len(c["steps"]) or len(resp) != len(c["steps"]):
            return f"session produced no per-step outputs: {str(out)[:200]}"
        for i, (st, o, rr) in enumerate(zip(c["steps"], outs, resp)):
            msg = _compare_views(st, o, rr)
            if msg:
                return f"step {i} of {len(outs)} on the same long-lived objects: {msg}"
        if "batch" in out and not _is_err(out["batch"]) and len(out["batch"]) == len(resp):
            for i, (smp, rr) in enumerate(zip(out["batch"], resp)):
                if isinstance(rr, dict) and isinstance(rr.get("samples"), list) and smp != rr["samples"]:
                    return f"run_batch_and_measure, circuit {i}: impl {str(smp)[:120]} model {str(rr['samples'])[:120]}"
        return None
    return _compare_views(c, out, r)


# ----------------------------------------------------------------------------------------- oracle
def _sig(n, s):
    return "width-0-register" if n == 0 else s


def _parity_avg(marked, shots):
    return sum(Fraction((-1) ** sum(int(t[q]) for q in marked)) for t in shots) / len(shots)


def _oracle_meas(c, out):
    """one Measurements object: after any history of edits its count strings, distribution and expectation values are
    those of the tuples it holds NOW (position q of the string = position q of the tuple = operator qubit q)"""
    trace, final = _meas_trace(c)
    if not isinstance(out, dict) or "q" not in out or len(out["q"]) != len(trace):
        return ("impl-raise", f"no query results: {str(out)[:200]}")
    for i, ((o, st), got) in enumerate(zip(trace, out["q"])):
        where = f"query {i} of the history on one Measurements object, which now holds {len(st)} shots {st[:6]}…: "
        widths = {len(t) for t in st}
        if len(widths) > 1:
            continue  # ragged shots: outside the property's domain
        w = widths.pop() if widths else 0
        cnt = {}
        for t in st:
            key = "".join(str(b) for b in t)
            cnt[key] = cnt.get(key, 0) + 1
        if o["q"] == "counts":
            if _is_err(got):
                return ("history-counts", where + f"get_counts raised {got}")
            if dict(map(tuple, got)) != cnt:
                return ("history-counts", where + f"get_counts gives {got} but the position-q strings of the tuples give {cnt}")
        elif o["q"] == "dist":
            if not st or w == 0:
                continue
            if _is_err(got):
                return ("history-distribution", where + f"get_distribution raised {got}")
            gd = {tuple(kv[0]): kv[1] for kv in got}
            want = {tuple(int(b) for b in key): v / len(st) for key, v in cnt.items()}
            if set(gd) != set(want) or any(abs(gd[key] - want[key]) > 1e-12 for key in want):
                return ("history-distribution", where + f"get_distribution gives {got} but the tuples give {want}")
        else:
            opspec = o["operator"]
            if not st or w == 0 or any(int(q) >= w for t in opspec for q, _ in t["ops"]):
                continue
            if not all(p_ == "Z" for t in opspec for _, p_ in t["ops"]):
                continue
            if _is_err(got):
                return ("history-measured-expectation", where + f"get_expectation_values raised {got}")
            if len(got) != len(opspec):
                return ("history-measured-expectation", where + "wrong number of expectation values")
            scale = 1 + sum(abs(_cplx(t["c"])) for t in opspec)
            for t, v in zip(opspec, got):
                wantv = _cplx(t["c"]) * float(_parity_avg([int(q) for q, _ in t["ops"]], st))
                if abs(complex(v[0], v[1]) - wantv) > 1e-12 * abs(_cplx(t["c"])):
                    return ("history-measured-expectation",
                            where + f"term {t}: value from measurements {v}, eigenvalue average over the tuples {wantv}")
    if out.get("final") != [list(t) for t in final]:
        return None  # (the container itself is not a view; nothing to say)
    return None


def oracle(c, out):
    """the property's sentences by numpy / Fraction brute force on the implementation's outputs only"""
    k = c["kind"]
    if isinstance(out, dict) and "exc" in out:
        return ("impl-raise", f"implementation raised {out['exc']}: {out.get('msg')}")
    if k == "wide_exact":
        # product state: <P> factorises; <Z> = c^2 - s^2, <X> = 2 c s, <Y> = 0 for the real one-qubit states used
        ez = {ch: Fraction(str(a)) ** 2 - Fraction(str(b)) ** 2 for ch, (a, b) in _QSTATE.items()}
        ex = {ch: 2 * Fraction(str(a)) * Fraction(str(b)) for ch, (a, b) in _QSTATE.items()}
        want = Fraction(0)
        for t in c["operator"]:
            v = unrat(t["c"][0])
            for q, p_ in t["ops"]:
                v *= ez[c["state"][q]] if p_ == "Z" else (ex[c["state"][q]] if p_ == "X" else 0)
            want += v
        scale = 1 + sum(abs(unrat(t["c"][0])) for t in c["operator"])
        for name in ("exact", "exact2"):
            if _is_err(out[name]):
                return (_sig(len(c["state"]), "exact-raise"), f"get_expectation_value raised on a {len(c['state'])}-qubit product state: {out[name]}")
            if abs(out[name] - float(want)) > 1e-11 * scale:
                return (_sig(len(c["state"]), "exact-expectation"), f"exact expectation ({name}) {out[name]!r} of a {len(c['state'])}-qubit product state "
                        f"{c['state']} but the product of the one-qubit expectations is {float(want)!r}")
        return None
    if k == "freq":
        w = len(c["freqs"][0][0])
        if any(q >= w for q in c["marked"]):
            return None  # a marked qubit outside the register: outside the property's domain
        if _is_err(out):
            return ("frequencies-raise", f"get_expectation_value_from_frequencies raised {out}")
        tot = sum(v for _, v in c["freqs"])
        want = sum(Fraction(v) * (-1) ** sum(int(s[q]) for q in c["marked"]) for s, v in c["freqs"]) / tot
        for name in ("value", "value2"):
            if name not in out:
                continue
            if _is_err(out[name]):
                return ("frequencies-raise", f"get_expectation_value_from_frequencies raised {out[name]} when called again with the same arguments")
            if abs(out[name] - float(want)) > 1e-14:      # (a mean of 1e-10 is a mean of 1e-10, not 0)
                return ("frequencies-parity", f"expectation from counts {out[name]} ({name}) but position-q parity average is {float(want)}")
        return None
    if k == "dist":
        probs = [float(unrat(p)) for p in c["probs"]]
        n = int(math.log2(len(probs)))
        for name in ("dist", "dist2"):
            if name not in out:
                continue
            got = {tuple(kv[0]): kv[1] for kv in out[name]}
            for i, p in enumerate(probs):
                if got.get(_msb_bits(i, n)) != p:
                    return ("dist-key-order", f"({name}) probability of basis index {i} = {p} but key {_msb_bits(i, n)} holds {got.get(_msb_bits(i, n))}")
            if len(got) != len(probs):
                return ("dist-key-order", f"({name}) wrong number of keys")
        return None
    if k == "meas":
        return _oracle_meas(c, out)
    if k == "origin":
        return _oracle_origin(c, out)
    if k == "nearnorm":
        return _oracle_nearnorm(c, out)
    if k == "session":
        outs = out.get("steps") if isinstance(out, dict) else None
        if outs is None or len(outs) != len(c["steps"]):
            return ("impl-raise", f"session produced no per-step outputs: {str(out)[:200]}")
        for i, (st, o) in enumerate(zip(c["steps"], outs)):
            r = _oracle_views_twice(st, o)
            if r is not None:
                return (r[0], f"step {i} of {len(outs)} run on the same long-lived objects "
                              f"({'Wavefunction' if 'amps' in st else 'simulator, operator'}"
                              f"{', Measurements container' if c.get('container') else ''}): " + r[1])
        if "batch" in out and all(st["n_samples"] >= 1 for st in c["steps"]):
            import numpy as np
            b = out["batch"]
            if _is_err(b) or len(b) != len(c["steps"]):
                return ("batch-raise", f"run_batch_and_measure on the circuits of the steps: {str(b)[:200]}")
            for i, (st, smp) in enumerate(zip(c["steps"], b)):
                n = _width(st)
                probs = np.abs(_ref_state(st)) ** 2
                if len(smp) < st["n_samples"]:
                    return (_sig(n, "sample-count"), f"run_batch_and_measure, circuit {i}: {len(smp)} samples, {st['n_samples']} requested")
                for t in smp:
                    if isinstance(t, dict) or len(t) != n:
                        return (_sig(n, "sample-length"), f"run_batch_and_measure, circuit {i}: outcome {t} for register width {n}")
                    if any(x not in (0, 1) for x in t) or probs[_index_of(t)] < 1e-24:
                        return (_sig(n, "sample-zero-prob"), f"run_batch_and_measure, circuit {i} of the batch: sampled tuple {t} has exact probability 0")
        return None
    return _oracle_views_twice(c, out)


def _oracle_views_twice(c, out):
    if isinstance(out, dict) and "exc" in out:
        return ("impl-raise", f"implementation raised {out['exc']}: {out.get('msg')}")
    r = _oracle_views(c, out)
    if r is None and isinstance(out, dict) and out.get("again") is not None:
        r = _oracle_views(c, out["again"])
        if r is not None:
            how = ("after the caller edited the objects returned by the first pass" if c.get("twice") == "poison"
                   else "asked a second time")
            r = (r[0], f"second pass over the same objects ({how}): " + r[1])
    return r


def _oracle_views(c, out):
    import numpy as np
    # ---- views
    n = _width(c)
    if _is_err(out.get("wf")):
        return (_sig(n, "wavefunction-raise"), f"get_wavefunction raised on a valid circuit: {out['wf']}")
    ref = _ref_state(c)
    probs = np.abs(ref) ** 2
    exact = _exact_probs(c)
    p_exact, a_exact = exact if exact is not None else (None, None)
    wf = np.array([complex(a[0], a[1]) for a in out["wf"]])
    bad = _state_wrong(wf, ref, a_exact)
    if bad is not None:
        lo = max(0, min(bad - 2, len(ref) - 8))
        return (_sig(n, "wavefunction-qubit-order"), f"state vector differs from the gates-on-qubit-q reference at basis index {bad} = {_msb_bits(bad, n)}: "
                f"{wf.tolist()[bad] if bad < len(wf) else None!r} vs {(a_exact[bad] if a_exact is not None else ref[bad])!r}; entries {lo}..{lo + 7}: {wf.tolist()[lo:lo + 8]} vs {ref.tolist()[lo:lo + 8]}")
    if "wf0" in out:
        if _is_err(out["wf0"]):
            return (_sig(n, "wavefunction-raise"), f"get_wavefunction(circuit, initial_state=|0…0>) raised: {out['wf0']}")
        w0 = np.array([complex(a[0], a[1]) for a in out["wf0"]])
        if _state_wrong(w0, ref, a_exact) is not None:
            return (_sig(n, "wavefunction-qubit-order"), f"state vector from the explicit initial state |0…0> {w0.tolist()[:8]} differs from gates-on-qubit-q reference {ref.tolist()[:8]}")
    if "wfk" in out:
        k0 = c["seed"] % (2 ** n)
        if _is_err(out["wfk"]):
            return (_sig(n, "wavefunction-raise"), f"get_wavefunction(circuit, initial_state=basis state {k0}) raised: {out['wfk']}")
        refk = _ref_state(c, start=k0)
        wk = np.array([complex(a[0], a[1]) for a in out["wfk"]])
        if _state_wrong(wk, refk, None) is not None:
            return (_sig(n, "wavefunction-qubit-order"), f"state vector from initial basis state {k0} = {_msb_bits(k0, n)}: {wk.tolist()[:8]} differs from gates-on-qubit-q reference {refk.tolist()[:8]}")
    # get_outcome_probs is an internal view – its KEY convention is checked by the correspondence only; its values are
    # the outcome probabilities whatever the keys: as a multiset they are |amplitude|^2, and they sum to 1
    if "outcome_probs" in out and len(out["outcome_probs"]) == 2 ** n:
        vals = sorted(v for _, v in out["outcome_probs"])
        order = sorted(range(2 ** n), key=lambda i: (p_exact[i] if p_exact is not None else probs[i]))
        for v, i in zip(vals, order):
            why = _prob_wrong(v, probs[i], p_exact[i] if p_exact is not None else None)
            if why:
                return (_sig(n, "outcome-probs-values"), f"Wavefunction.get_outcome_probs: the {2 ** n} values are not the outcome probabilities: {why}")
        if abs(math.fsum(vals) - 1) > 1e-12 and abs(math.fsum(probs) - 1) <= 1e-13:
            return (_sig(n, "outcome-probs-values"), f"Wavefunction.get_outcome_probs: values sum to {math.fsum(vals)!r}")
    if _is_err(out["dist"]):
        return (_sig(n, "dist-raise"), f"exact distribution raised: {out['dist']}")
    got = {tuple(kv[0]): kv[1] for kv in out["dist"]}
    if len(got) != 2 ** n:
        return (_sig(n, "dist-key-order"), f"exact distribution has {len(got)} keys for width {n}")
    first = None
    for i in range(2 ** n):
        b = _msb_bits(i, n)
        why = "no such key" if b not in got else _prob_wrong(got[b], probs[i], p_exact[i] if p_exact is not None else None)
        if why and (first is None or ("not zero" in why and "not zero" not in first[1])):
            first = (i, why)       # (an outcome wrongly declared impossible says more than its renormalised neighbours)
            if "not zero" in why:
                break
    if first is not None:
        i, why = first
        return (_sig(n, "dist-key-order"), f"exact distribution at {_msb_bits(i, n)} (basis index {i}): {why}")
    if abs(math.fsum(got.values()) - 1) > 1e-12 and abs(math.fsum(probs) - 1) <= 1e-13:
        return (_sig(n, "dist-key-order"), f"exact distribution sums to {math.fsum(got.values())!r}")
    ns = c["n_samples"]
    samples = None
    if ns >= 1:
        if _is_err(out["samples"]):
            return (_sig(n, "sample-raise"), f"run_and_measure raised for n_samples={ns}: {out['samples']}")
        samples = out["samples"]
        if len(samples) != ns:
            return (_sig(n, "sample-count"), f"{len(samples)} samples returned, {ns} requested")
        for t in samples:
            if isinstance(t, dict):
                return (_sig(n, "sample-not-tuple"), f"sampled outcome is not a tuple: {t}")
            if len(t) != n:
                return (_sig(n, "sample-length"), f"sampled tuple {t} has length {len(t)}, register width {n}")
            if any(b not in (0, 1) for b in t) or (p_exact[_index_of(t)] == 0 if p_exact is not None else probs[_index_of(t)] < 1e-24):
                return (_sig(n, "sample-zero-prob"), f"sampled tuple {t} has exact probability {probs[_index_of(t)] if all(b in (0, 1) for b in t) else None}")
            if got.get(tuple(t), 0.0) == 0 or (p_exact is None and abs(got.get(tuple(t), 0.0)) < 1e-24):
                return (_sig(n, "sample-zero-prob"), f"sampled tuple {t} has probability 0 in the exact distribution object")
        cnt = {}
        for t in samples:
            s = "".join(str(b) for b in t)
            cnt[s] = cnt.get(s, 0) + 1
        for name in ("counts", "counts2"):
            if name not in out:
                continue
            if _is_err(out[name]):
                return (_sig(n, "counts-raise"), f"get_counts raised: {out[name]}")
            if dict(map(tuple, out[name])) != cnt:
                return (_sig(n, "counts-key"), f"get_counts {'(asked again) ' if name == 'counts2' else ''}{out[name]} but position-q strings of the samples give {cnt}")
        if n >= 1:
            want_d = {tuple(int(b) for b in s): v / ns for s, v in cnt.items()}
            for name, what in (("mdist", "Measurements.get_distribution"), ("edist", "get_measurement_outcome_distribution(circuit, n_samples)")):
                if name not in out:
                    continue
                if _is_err(out[name]):
                    return (_sig(n, "empirical-distribution"), f"{what} raised: {out[name]}")
                gd = {tuple(kv[0]): kv[1] for kv in out[name]}
                if set(gd) != set(want_d) or any(abs(gd[key] - want_d[key]) > 1e-12 for key in want_d):
                    return (_sig(n, "empirical-distribution"), f"{what} gives {out[name][:8]} but the sampled tuples give {want_d}")
    opspec = c["operator"]
    qubits = [int(q) for t in opspec for q, _ in t["ops"]]
    in_range = all(q < n for q in qubits)
    scale = 1 + sum(abs(_cplx(t["c"])) for t in opspec)
    if in_range:
        if _is_err(out["exact"]):
            return (_sig(n, "exact-raise"), f"get_exact_expectation_values raised: {out['exact']}")
        ztype = all(p == "Z" for t in opspec for _, p in t["ops"])
        if ztype:
            # eigenvalue of the operator on every outcome (exact: rational coefficients, signs)
            coef = [(unrat(t["c"][0]), unrat(t["c"][1]), [int(q) for q, _ in t["ops"]]) for t in opspec]
            eig = []
            for i in range(2 ** n):
                b = _msb_bits(i, n)
                eig.append(sum(cr * (-1) ** sum(b[q] for q in qs_) for cr, _, qs_ in coef))
            if p_exact is not None:
                want = float(sum(pe * e for pe, e in zip(p_exact, eig)))
            else:
                want = math.fsum(float(pr) * float(e) for pr, e in zip(probs, eig))
            # ... and under the exact distribution OBJECT the implementation returned
            avg_obj = math.fsum(got[_msb_bits(i, n)] * float(e) for i, e in enumerate(eig))
            if abs(out["exact"] - avg_obj) > 1e-12 * scale + REL * abs(avg_obj):
                return (_sig(n, "exact-expectation"), f"exact expectation {out['exact']!r} but the average of the eigenvalues under the exact outcome distribution returned for the same circuit is {avg_obj!r}")
        else:
            want = _ref_expectation(opspec, ref, n).real
        if abs(out["exact"] - want) > 1e-13 * scale + REL * abs(want):
            return (_sig(n, "exact-expectation"), f"exact expectation {out['exact']!r} but eigenvalue average under the exact distribution is {want!r}")
        if "exact_wf" in out:
            tag = "get_expectation_value(operator, the simulator's Wavefunction" + (" bound afterwards)" if c.get("param") == "bind_wf" else ")")
            if _is_err(out["exact_wf"]):
                return (_sig(n, "exact-raise"), f"{tag} raised: {out['exact_wf']}")
            if abs(out["exact_wf"] - want) > 1e-13 * scale + REL * abs(want):
                return (_sig(n, "exact-expectation"), f"{tag} = {out['exact_wf']!r} but the "
                        f"{'eigenvalue average under the exact distribution' if ztype else 'reference value'} is {want!r}")
        if ztype and samples is not None:
            if _is_err(out["measured"]):
                return ("width-0-measured-raise" if n == 0 else "measured-raise",
                        f"Measurements.get_expectation_values raised: {out['measured']}")
            if len(out["measured"]) != len(opspec):
                return (_sig(n, "measured-expectation"), "wrong number of expectation values")
            for name in ("measured", "measured_b"):
                if name not in out:
                    continue
                if _is_err(out[name]) or len(out[name]) != len(opspec):
                    return (_sig(n, "measured-expectation"), f"get_expectation_values(use_bessel_correction=True): {str(out[name])[:200]}")
                for t, v in zip(opspec, out[name]):
                    marked = [int(q) for q, _ in t["ops"]]
                    avg = sum(Fraction((-1) ** sum(s[q] for q in marked)) for s in samples) / len(samples)
                    wantv = _cplx(t["c"]) * float(avg)
                    if abs(complex(v[0], v[1]) - wantv) > 1e-12 * abs(_cplx(t["c"])):
                        return (_sig(n, "measured-expectation"), f"term {t}: value from measurements {v}{' (with Bessel correction)' if name == 'measured_b' else ''}, eigenvalue average over the shots {wantv}")
    return None


def distribution(cases, outs):
    widths, regimes, errs = {}, {"fewer": 0, "equal": 0, "more": 0}, {}
    drive = {"once": 0, "twice": 0, "twice_poisoned": 0, "symbolic_bound": 0, "operator_forms": 0}
    hist = {"session_steps": 0, "sessions_with_container": 0, "wavefunction_sessions": 0, "meas_queries": 0,
            "meas_same_length_replacements": 0}
    flat = []
    for c, o in zip(cases, outs):
        if c["kind"] == "views":
            flat.append((c, o))
        elif c["kind"] == "session":
            hist["session_steps"] += len(c["steps"])
            hist["sessions_with_container"] += 1 if c.get("container") else 0
            hist["wavefunction_sessions"] += 1 if "amps" in c["steps"][0] else 0
            so = o.get("steps", []) if isinstance(o, dict) else []
            flat += [(st, so[i] if i < len(so) else None) for i, st in enumerate(c["steps"])]
        elif c["kind"] == "meas":
            hist["meas_queries"] += sum(1 for x in c["ops"] if "q" in x)
            hist["meas_same_length_replacements"] += sum(1 for x in c["ops"] if x.get("m") in ("replace", "set"))
    for c, o in flat:
        n = _width(c)
        widths[n] = widths.get(n, 0) + 1
        ns = c["n_samples"]
        regimes["fewer" if ns < 2 ** n else "equal" if ns == 2 ** n else "more"] += 1
        drive["twice_poisoned" if c.get("twice") == "poison" else "twice" if c.get("twice") else "once"] += 1
        drive["symbolic_bound"] += 1 if c.get("param") else 0
        drive["operator_forms"] += 1 if c.get("op_form") else 0
        if isinstance(o, dict):
            for f in ("samples", "measured", "exact"):
                if _is_err(o.get(f)):
                    key = f + ":" + o[f]["err"]
                    errs[key] = errs.get(key, 0) + 1
    origins, near = {}, {"cases": 0, "routes_sampled": 0, "routes_refused": 0, "constructor_refused": 0}
    for c, o in zip(cases, outs):
        if c["kind"] == "origin":
            origins[c["origin"]] = origins.get(c["origin"], 0) + 1
            shp = "stored_as_column" if isinstance(o, dict) and len(o.get("shape") or []) == 2 else "stored_flat"
            origins[shp] = origins.get(shp, 0) + 1
            zt = all(p == "Z" for t in c["operator"] for _, p in t["ops"])
            key = "op_constant" if not any(t["ops"] for t in c["operator"]) else "op_ztype" if zt else "op_mixed"
            origins[key] = origins.get(key, 0) + 1
        elif c["kind"] == "nearnorm":
            near["cases"] += 1
            near["digits_%d" % c["digits"]] = near.get("digits_%d" % c["digits"], 0) + 1
            if isinstance(o, dict):
                near["constructor_refused"] += 1 if "ctor" in o else 0
                for name in _NEAR_ROUTES:
                    if name in o:
                        near["routes_refused" if _is_err(o[name]) else "routes_sampled"] += 1
    return {"widths": widths, "sampling_regimes": regimes, "error_kinds": errs, "driving": drive, "histories": hist,
            "state_origins": origins, "nearly_normalised_states": near}
